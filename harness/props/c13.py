"""C13 - inquiry equality and hash are content-based and process-stable."""
import copy
import json
import os
import subprocess
import sys

import proto
from common import Failure, Outcome, Broken, REPO
from gen import pick, gen_str, gen_atom, KEYS
from vakt.guard import Inquiry
from vakt.policy import Policy
from vakt.rules import Eq

MODULE = 'Props.C13'
THEOREMS = ['Vakt.C13.eq_iff_canon', 'Vakt.C13.eq_iff_fields', 'Vakt.C13.eqv_equivalence', 'Vakt.C13.eq_hash',
            'Vakt.C13.key_order_irrelevant', 'Vakt.C13.canon_congr', 'Vakt.C13.type_distinctions',
            'Vakt.C13.one_point_distinct', 'Vakt.C13.extra_key_distinct', 'Vakt.C13.norm_falsy',
            'Vakt.C13.empty_forms_equal', 'Vakt.sortKV_perm_eq',
            'Vakt.C13.inquiry_roundtrip', 'Vakt.C13.inquiry_roundtrip_equal', 'Vakt.C13.inquiry_unknown_key_refused']
EXTRA_IMPORTS = ['Props.C13Json']
# obligation over what was translated from /repo/vakt/guard.py in this run: Inquiry.__init__ (its four attribute writes as
# effects on the object) is the model's Inquiry.mk' - falsy arguments become '' / {} (lean/Gen/EquivInquiry.lean)
EXTRA_BUILD = ['+Gen.EquivInquiry']
GEN_IMPORTS = ['Gen.EquivInquiry']
GEN_THEOREMS = ['Vakt.GenEquiv.gen_inquiry_init', 'Vakt.GenEquiv.translatedInquiry_covers']
FLOOR = {'quick': 500, 'thorough': 10000}
ASSUMPTIONS = ['that CPython\'s hash of a tuple of ints does not depend on PYTHONHASHSEED is a runtime fact, observed by '
               'recomputing every hash in fresh interpreters with different seeds, not proved',
               'the canonical JSON text is an injective rendering of the canonical tree (json.dumps): assumed; -0.0 is '
               'excluded (its text differs from 0.0 although the values are ==)']


def gen_json(rng, depth=3):
    r = rng.random()
    if depth <= 0 or r < 0.45:
        a = gen_atom(rng)
        if isinstance(a, float) and a == 0.0:
            a = 0.0
        return a
    if r < 0.62:
        return [gen_json(rng, depth - 1) for _ in range(rng.randint(0, 3))]
    if r < 0.72:
        return tuple(gen_json(rng, depth - 1) for _ in range(rng.randint(0, 3)))
    ks = rng.sample(KEYS + ['z', 'py', 'a b', 'Ключ'], rng.randint(0, 4))
    return {k: gen_json(rng, depth - 1) for k in ks}


def permute(rng, v):
    """same content, dictionary entries in another order at every depth"""
    if isinstance(v, dict):
        items = [(k, permute(rng, x)) for k, x in v.items()]
        rng.shuffle(items)
        return dict(items)
    if isinstance(v, list):
        return [permute(rng, x) for x in v]
    if isinstance(v, tuple):
        return tuple(permute(rng, x) for x in v)
    return v


def one_point(rng, v):
    """a value whose content differs from v in exactly one place (None if no change was made)"""
    if isinstance(v, dict) and v and rng.random() < 0.8:
        k = pick(rng, list(v))
        c = rng.random()
        d = dict(v)
        if c < 0.6:
            m = one_point(rng, v[k])
            if m is None:
                return None
            d[k] = m[0]
            return (d,)
        if c < 0.8:
            del d[k]
            return (d,)
        d[k + '_'] = v[k]
        return (d,) if k + '_' not in v else None
    if isinstance(v, (list, tuple)) and v and rng.random() < 0.7:
        i = rng.randrange(len(v))
        m = one_point(rng, v[i])
        if m is None:
            return None
        out = list(v)
        out[i] = m[0]
        return (type(v)(out),)
    # a leaf (or a container treated as a leaf)
    if isinstance(v, bool):
        return (pick(rng, [int(v), float(v), not v, str(v)]),)
    if isinstance(v, int):
        return (pick(rng, [float(v), v + 1, str(v)] + ([bool(v)] if v in (0, 1) else [])),)
    if isinstance(v, float):
        return (pick(rng, [int(v) if v == int(v) else v + 0.5, v + 1.0, str(v)]),)
    if isinstance(v, str):
        return (pick(rng, [v + ' ', v.swapcase() if v.swapcase() != v else v + 'x', None if v == '' else v[:-1]]),)
    if v is None:
        return (pick(rng, ['', 0, False, 'None']),)
    if isinstance(v, list):
        return (pick(rng, [tuple(v), v + [None]]),)
    if isinstance(v, tuple):
        return (pick(rng, [list(v), v + (None,)]),)
    if isinstance(v, dict):
        d = dict(v)
        d['new'] = 1
        return (d,)
    return None


def content_eq(a, b):
    """model-free oracle: same content, key order irrelevant, JSON-visible type distinctions kept"""
    if isinstance(a, dict) and isinstance(b, dict):
        return set(a) == set(b) and all(content_eq(a[k], b[k]) for k in a)
    if isinstance(a, (list, tuple)) and type(a) is type(b):
        return len(a) == len(b) and all(content_eq(x, y) for x, y in zip(a, b))
    if isinstance(a, (dict, list, tuple)) or isinstance(b, (dict, list, tuple)):
        return False
    return type(a) is type(b) and a == b


def norm(v, ctx=False):
    return v if v else ({} if ctx else '')


def inq_content_eq(a, b):
    return all(content_eq(norm(a[f], f == 'context'), norm(b[f], f == 'context'))
               for f in ('resource', 'action', 'subject', 'context'))


def share(rng, v):
    """the same content, but built so that equal sub-objects are ONE object (identity sharing)"""
    cache = {}

    def go(x):
        if isinstance(x, (dict, list)):
            key = json.dumps(x, sort_keys=True, default=repr)
            if key in cache and rng.random() < 0.8:
                return cache[key]
            y = {k: go(w) for k, w in x.items()} if isinstance(x, dict) else [go(w) for w in x]
            cache[key] = y
            return y
        if isinstance(x, tuple):
            return tuple(go(w) for w in x)
        return x
    return go(v)


def gen_inq(rng):
    base = gen_json(rng, 2)
    q = {'resource': pick(rng, [gen_json(rng, 2), gen_str(rng), base]), 'action': pick(rng, [gen_str(rng), gen_json(rng, 2), base]),
         'subject': pick(rng, [gen_json(rng, 3), base, gen_str(rng)]),
         'context': pick(rng, [{}, None, {'k': base, 'j': base}, gen_json(rng, 2) if rng.random() < 0.3 else {'ip': gen_str(rng)}])}
    return q


HASH_HELPER = r'''
import sys, json
sys.path.insert(0, %r)
from vakt.guard import Inquiry
def dec(x):
    if isinstance(x, dict) and set(x) == {"__tuple__"}:
        return tuple(dec(y) for y in x["__tuple__"])
    if isinstance(x, dict):
        return {k: dec(v) for k, v in x.items()}
    if isinstance(x, list):
        return [dec(y) for y in x]
    return x
for line in sys.stdin:
    if not line.strip():
        continue
    q = dec(json.loads(line))
    print(hash(Inquiry(**q)))
'''


def enc_tuple(x):
    if isinstance(x, tuple):
        return {'__tuple__': [enc_tuple(y) for y in x]}
    if isinstance(x, dict):
        return {k: enc_tuple(v) for k, v in x.items()}
    if isinstance(x, list):
        return [enc_tuple(y) for y in x]
    return x


_NOISE_POLICY = None


def _deep_nesting(ctx, out, rng):
    """key order is irrelevant *at any depth*: a two-key dictionary buried d levels deep (d up to 60, under dictionaries,
    lists or a mixture) in a field or in the context, built once in each key order - the two inquiries are equal, hash
    equally and each survives the JSON round trip as an equal inquiry; changing the buried value makes them unequal"""
    for d in list(range(1, 41)) + [50, 60]:
        for wrap in ('dict', 'list', 'mixed'):
            for field in ('subject', 'context'):
                def build(inner):
                    v = inner
                    for i in range(d):
                        w = wrap if wrap != 'mixed' else ('dict' if i % 2 else 'list')
                        v = {'k': v} if w == 'dict' else [v]
                    if field == 'context' and not isinstance(v, dict):
                        v = {'k': v}
                    return v
                a = Inquiry(action='get', **{field: build({'x': 1, 'y': [2, {'p': 1, 'q': 2}]})})
                b = Inquiry(action='get', **{field: build({'y': [2, {'q': 2, 'p': 1}], 'x': 1})})
                c = Inquiry(action='get', **{field: build({'y': [2, {'q': 2, 'p': 3}], 'x': 1})})
                out.evaluations += 1
                out.count('deep-nesting:%s' % wrap)
                desc = {'depth': d, 'wrapping': wrap, 'field': field}
                prob = None
                try:
                    if not (a == b and b == a):
                        prob = 'two inquiries that differ only in the key order of a dictionary %d levels deep are unequal' % d
                    elif hash(a) != hash(b):
                        prob = 'equal inquiries (key order differs %d levels deep) hash differently' % d
                    elif a == c or hash(a) == hash(c) and False:
                        prob = 'inquiries whose content differs %d levels deep compare equal' % d
                    else:
                        back = Inquiry.from_json(a.to_json())
                        if not (back == a and hash(back) == hash(a)):
                            prob = 'an inquiry nested %d levels deep does not survive the JSON round trip as an equal inquiry' % d
                except RecursionError:
                    out.count('deep-nesting:recursion-limit')
                    continue
                except Exception as e:
                    prob = 'comparing / hashing / round-tripping raised %s' % type(e).__name__
                if prob:
                    f = Failure('oracle', desc, prob, None, prob, 'Vakt.C13.key_order_irrelevant / eq_hash / inquiry_roundtrip_equal', size=d)
                    f.signature = 'deep-nesting'
                    out.failures.append(f)
                    return
            out.nontriv('deep %d %s' % (d, wrap))


def run(ctx):
    global _NOISE_POLICY
    _NOISE_POLICY = Policy('n1', subjects=[{'b': Eq(1), 'a': Eq(2)}], actions=[Eq('x')], resources=[{'z': Eq(1), 'y': Eq(0)}],
                           context={'k2': Eq(1), 'k1': Eq(2)})
    out = Outcome()
    rng = ctx.rng
    n = ctx.budget(2500, 100000)
    lines, meta = [], []
    hash_inputs, hash_here = [], []
    for _ in range(n):
        a = gen_inq(rng)
        r = rng.random()
        if r < 0.3:
            b, kind = {f: permute(rng, a[f]) for f in a}, 'perm'
        elif r < 0.4:
            b, kind = {f: share(rng, a[f]) for f in a}, 'shared'
            shared_obj = share(rng, a['subject'])
            if isinstance(shared_obj, (dict, list)) and rng.random() < 0.7:
                b = dict(b, subject=shared_obj, resource=shared_obj)
                a = dict(a, subject=copy.deepcopy(shared_obj), resource=copy.deepcopy(shared_obj))
        elif r < 0.5:
            b, kind = copy.deepcopy(a), 'copy'
            f = pick(rng, ['resource', 'action', 'subject', 'context'])
            if not a[f]:
                b[f] = pick(rng, [None, '', (), [], {}, 0, False])       # other spellings of "omitted"
                kind = 'falsy'
        elif r < 0.9:
            f = pick(rng, ['resource', 'action', 'subject', 'context'])
            m = one_point(rng, a[f])
            if m is None:
                continue
            b, kind = dict(a), 'onepoint'
            b[f] = m[0]
        else:
            b, kind = gen_inq(rng), 'other'
        try:
            qa, qb = Inquiry(**a), Inquiry(**b)
            la, lb = proto.enc_inquiry_obj(qa), proto.enc_inquiry_obj(qb)
        except (proto.ProtoError, TypeError):
            out.count('unencodable')
            continue
        # other library activity in between (serialising policies / inquiries must not disturb comparisons)
        noise = None
        if rng.random() < 0.35:
            noise = pick(rng, ['policy.to_json()', 'policy.to_json(sort=True)', 'inquiry.to_json()',
                               'policy round trip', 'hash first'])
            try:
                if noise == 'policy.to_json()':
                    _NOISE_POLICY.to_json()
                elif noise == 'policy.to_json(sort=True)':
                    _NOISE_POLICY.to_json(sort=True)
                elif noise == 'inquiry.to_json()':
                    Inquiry(subject={'b': 1, 'a': {'d': 1, 'c': 2}}).to_json()
                elif noise == 'policy round trip':
                    Policy.from_json(_NOISE_POLICY.to_json())
                else:
                    hash(qb), _NOISE_POLICY.to_json()
            except Exception:
                pass
        try:
            eq = qa == qb
            eq2 = qb == qa
            ha, hb = hash(qa), hash(qb)
            rt = Inquiry.from_json(qa.to_json()) == qa
        except Exception as e:
            f = Failure('oracle', {'a': repr(a), 'b': repr(b), 'kind': kind}, repr(e), None, '== / hash / JSON round trip raised',
                        'Vakt.C13.eq_iff_canon')
            f.signature = 'raised'
            out.failures.append(f)
            continue
        want = inq_content_eq(a, b)
        out.evaluations += 1
        out.count('%s:%s' % (kind, eq))
        desc = {'a': repr(a), 'b': repr(b), 'kind': kind, 'preceded_by': noise}
        prob = None
        if eq is not want:
            prob = '== says %s, content comparison (key order irrelevant, JSON type distinctions kept) says %s' % (eq, want)
        elif eq is not eq2:
            prob = '== is not symmetric'
        elif eq and ha != hb:
            prob = 'equal inquiries with different hashes'
        elif not rt:
            prob = 'from_json(to_json(a)) != a'
        elif qa.resource is None or qa.context is None or (not a['resource'] and qa.resource != '') or \
                (not a['context'] and qa.context != {}):
            prob = 'omitted / empty field not normalised to \'\' / {}'
        if prob:
            f = Failure('oracle', desc, {'eq': eq, 'hash_equal': ha == hb, 'round_trip': rt}, None, prob,
                        'Vakt.C13.eq_iff_fields / eq_hash / key_order_irrelevant / type_distinctions')
            f.signature = 'oracle:' + kind
            out.failures.append(f)
        lines.append('INQEQ %s %s' % (la, lb))
        meta.append((desc, eq))
        if kind in ('perm', 'onepoint', 'shared', 'falsy'):
            out.nontriv(lines[-1])
            if len(out.samples) < 4 and kind in ('perm', 'onepoint') and isinstance(a['subject'], dict) and a['subject']:
                out.samples.append({'a': repr(a)[:300], 'b': repr(b)[:300], 'kind': kind, 'impl_eq': eq, 'oracle': want})
        if len(hash_inputs) < (300 if ctx.tier == 'quick' else 3000):
            try:
                hash_inputs.append(json.dumps(enc_tuple({f: a[f] for f in a})))
                hash_here.append(ha)
            except (TypeError, ValueError):
                pass
    model = ctx.driver.run(lines) if ctx.driver else [None] * len(lines)
    for line, (desc, eq), m in zip(lines, meta, model):
        if m == 'bad-op':
            raise Broken('driver rejected: %s' % line[:300])
        if m == 'unmodelled':
            out.unmodelled += 1
            continue
        if m is not None and (m == 'ok T') is not eq:
            f = Failure('disagreement', desc, eq, m, 'Inquiry.__eq__ vs equality of canonical trees', 'Vakt.C13.eq_iff_canon',
                        line=line)
            f.signature = 'model:' + desc['kind']
            out.failures.append(f)
    _deep_nesting(ctx, out, rng)
    # process stability: the same hashes in fresh interpreters started with other PYTHONHASHSEED values
    seeds = ['0', '1', '42', 'random'] if ctx.tier == 'quick' else ['0', '1', '2', '3', '7', '42', '1000', '4294967295'] + ['random'] * 24
    helper = HASH_HELPER % REPO
    for s in (seeds if hash_inputs else []):
        env = dict(os.environ, PYTHONHASHSEED=s)
        pr = subprocess.run([sys.executable, '-c', helper], input='\n'.join(hash_inputs) + '\n', capture_output=True,
                            text=True, env=env, timeout=600)
        if pr.returncode != 0:
            raise Broken('hash helper failed: %s' % pr.stderr[-300:])
        got = [int(x) for x in pr.stdout.split()]
        out.count('hash-process')
        if got != hash_here:
            i = next(j for j, (x, y) in enumerate(zip(got, hash_here)) if x != y)
            f = Failure('oracle', {'inquiry': hash_inputs[i], 'PYTHONHASHSEED': s}, {'here': hash_here[i], 'there': got[i]},
                        None, 'the hash of an inquiry differs between interpreter processes', 'Vakt.C13.eq_hash')
            f.signature = 'hash-seed'
            out.failures.append(f)
            break
    out.extra['hash_processes'] = len(seeds)
    out.extra['hashes_recomputed_per_process'] = len(hash_inputs)
    out.rule = ('inquiries over JSON-like values (non-ASCII strings, ints, dyadic floats, bools, None, lists, tuples, '
                'string-keyed dicts to depth 3) paired with: a key-order permutation at every depth, an identity-sharing '
                'rebuild, a deep copy / another spelling of an omitted field, a one-point mutation (type twins 1/1.0/True, '
                'list/tuple, missing/extra key, changed leaf), or an unrelated inquiry; ==, symmetry, hash agreement, JSON '
                'round trip and normalisation judged by a content oracle and by the model; hashes recomputed in %d fresh '
                'interpreters with different PYTHONHASHSEED' % len(seeds))
    out.rule += '; plus a two-key dictionary buried 1..40, 50, 60 levels deep (under dictionaries, lists or alternating) in a field and in the context, in both key orders: equal, equal hashes, unequal after a change of the buried value, equal after the JSON round trip'
    return out


def replay(ctx, rp):
    c = rp['case']
    if 'a' not in c:
        return {'still_fails': None}
    a, b = eval(c['a']), eval(c['b'])
    qa, qb = Inquiry(**a), Inquiry(**b)
    eq = qa == qb
    want = inq_content_eq(a, b)
    return {'impl_eq': eq, 'oracle': want, 'hash_equal': hash(qa) == hash(qb),
            'still_fails': eq is not want or (eq and hash(qa) != hash(qb))}
