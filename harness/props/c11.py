"""C11 - the cached guard answers exactly like an uncached one."""
import copy
import gc

import proto
from common import capped, Failure, Outcome, Broken
from gen import pick, mutate_value
import stores
import polcase
from props.c08 import classify
from props.c16 import tower_twin
from vakt.cache import create_cached_guard, AllowanceCacheBackend
from vakt.guard import Guard
from vakt.storage.memory import MemoryStorage
from vakt.util import Observer

MODULE = 'Props.C11'
THEOREMS = ['Vakt.C11.step_valid', 'Vakt.C11.any_backend_transparent', 'Vakt.C11.lru_lawful',
            'Vakt.C11.cached_transparent', 'Vakt.C11.notify_exactly_once', 'Vakt.C11.reads_never_notify',
            'Vakt.C11.within_capacity_hit', 'Vakt.C11.immediate_repeat_hit', 'Vakt.C11.cached_logs_once', 'Vakt.Lru.run_transparent',
            # the whole stack: observable wrapper + decision cache over an enfolding cache over a backend
            'Vakt.StackP.stack_transparent', 'Vakt.StackP.enfold_tracks_backend', 'Vakt.StackP.full_stack_eq_plain_guard',
            'Vakt.StackP.full_stack_lru_populated', 'Vakt.StackP.full_stack_guard_decide']
EXTRA_IMPORTS = ['Props.Stack']
# obligations over what was translated from /repo/vakt/storage/observable.py in this run: the mutating methods of the observable
# wrapper call the wrapped storage and then notify exactly once (not at all when the call raised), the reading methods never notify
# (lean/Gen/EquivObservable.lean, against Backends.obsStep over the abstract store)
# ... the publisher (vakt.util.Subject: notify gives every attached listener exactly one update(), lean/Gen/EquivSubject.lean) and the
# listener create_cached_guard attaches (AllowanceCache.__init__ changes exactly one attribute of the guard, is_allowed_check, now
# behind the back-end; update() is one invalidate() on that back-end; lean/Gen/EquivAllowance.lean)
EXTRA_BUILD = ['+Gen.EquivObservable', '+Gen.EquivSubject', '+Gen.EquivAllowance']
GEN_IMPORTS = ['Gen.EquivObservable', 'Gen.EquivSubject', 'Gen.EquivAllowance']
GEN_THEOREMS = ['Vakt.GenEquiv.gen_observable_add', 'Vakt.GenEquiv.gen_observable_update', 'Vakt.GenEquiv.gen_observable_delete',
                'Vakt.GenEquiv.gen_observable_get', 'Vakt.GenEquiv.gen_observable_get_all', 'Vakt.GenEquiv.gen_observable_retrieve_all',
                'Vakt.GenEquiv.gen_subject_init', 'Vakt.GenEquiv.gen_add_listener', 'Vakt.GenEquiv.gen_remove_listener',
                'Vakt.GenEquiv.gen_notify', 'Vakt.GenEquiv.notify_single_listener', 'Vakt.GenEquiv.translatedSubject_covers',
                'Vakt.GenEquiv.gen_allowance_init_backend', 'Vakt.GenEquiv.gen_allowance_init_default',
                'Vakt.GenEquiv.guard_other_attributes_kept', 'Vakt.GenEquiv.guard_is_allowed_kept', 'Vakt.GenEquiv.guard_check_wrapped',
                'Vakt.GenEquiv.gen_allowance_update', 'Vakt.GenEquiv.init_then_update', 'Vakt.GenEquiv.translatedAllowance_covers']
FLOOR = {'quick': 100, 'thorough': 1500}
ASSUMPTIONS = ["functools.lru_cache's eviction order is modelled (most recently used first, trimmed to capacity) and compared "
               'hit by hit with the real cache; the general within-capacity clause is a theorem about that model '
               '(within_capacity_hit, immediate_repeat_hit)',
               'the fake Redis client stands in for a server']
KINDS = ['memory', 'sqlite', 'redis-pickle',
         # the whole stack (Props/Stack.lean: full_stack_eq_plain_guard): the observable wrapper and the decision cache
         # over an enfolding cache over a backend
         'enfold:sqlite', 'enfold:memory', 'enfold:mongo']


class DictBackend(AllowanceCacheBackend):
    """a user-supplied back-end honouring the documented contract"""
    def __init__(self):
        self.d = {}
        self.hits = self.misses = 0

    def wrap(self, func):
        def cached(inquiry):
            if inquiry in self.d:
                self.hits += 1
                return self.d[inquiry]
            self.misses += 1
            v = func(inquiry)
            self.d[inquiry] = v
            return v
        return cached

    def invalidate(self):
        self.d.clear()

    def info(self):
        return (self.hits, self.misses)


class RefreshAheadBackend(AllowanceCacheBackend):
    """a lawful back-end that, on invalidation, immediately recomputes what it held (refresh-ahead)"""
    def __init__(self):
        self.d = {}
        self.func = None

    def wrap(self, func):
        self.func = func

        def cached(inquiry):
            if inquiry not in self.d:
                self.d[inquiry] = func(inquiry)
            return self.d[inquiry]
        return cached

    def invalidate(self):
        keys = list(self.d)
        self.d.clear()
        for k in keys:
            self.d[k] = self.func(k)

    def info(self):
        return len(self.d)


class Aborted(BaseException):
    """an abort from outside the library (not an Exception)"""


class CountingStorage:
    """proxy that counts decision look-ups of the underlying storage"""
    def __init__(self, inner):
        self.inner = inner
        self.finds = 0

    hook = None

    def find_for_inquiry(self, q, c=None):
        self.finds += 1
        res = self.inner.find_for_inquiry(q, c)
        if self.hook is not None:
            h, self.hook = self.hook, None
            h()                      # something happens while this decision is in flight
        return res

    def __getattr__(self, name):
        return getattr(self.inner, name)


class NotifySpy(Observer):
    def __init__(self, probe):
        self.count = 0
        self.probe = probe
        self.seen = []

    def update(self):
        self.count += 1
        self.seen.append(self.probe())


def store_dump(st):
    return sorted(polcase.policy_key(p) for p in capped(st.retrieve_all(50)))


def run(ctx):
    out = Outcome()
    rng = ctx.rng
    nhist = ctx.budget(120, 4000)
    maxops = 15 if ctx.tier == 'quick' else 40
    lines, meta = [], []
    for hi in range(nhist):
        kind = pick(rng, KINDS)
        base = kind.split(':')[-1]
        sorted_, eager, rejects = base in ('sqlite', 'mongo'), base not in ('sqlite', 'memory'), base in ('sqlite', 'mongo')
        if rng.random() < 0.4:
            # sequence-valued inquiry fields: a list and the equal-looking tuple are different inquiries
            from genrules import gen_inquiry
            qq = gen_inquiry(rng, dictish=False)
            f = pick(rng, ['resource', 'action', 'subject'])
            seq = pick(rng, [['a', 'b'], [1, 2], ['x'], [['n', 1]]])
            qq[f] = seq if rng.random() < 0.5 else {'name': seq, 'k': 1}
            case = polcase.gen_store_case(rng, k='KU', npol=pick(rng, [2, 3]), store='rule', inq=qq)
        else:
            case = polcase.gen_store_case(rng, npol=pick(rng, [2, 3, 4]), store=pick(rng, ['str', 'rule']))
        try:
            objs, _ = polcase.build_case(case)
        except Exception:
            continue
        for o in objs:
            if not isinstance(o.uid, str):
                o.uid = 'u%s' % (o.uid,)
        k = case['k']
        cap = pick(rng, [None, 0, 1, 2, 256])
        backend_kind = pick(rng, ['lru', 'lru', 'lru', 'dict', 'refresh'])
        raw = stores.make(kind)
        counting = CountingStorage(raw)
        checker = polcase.make_checker(k)
        try:
            if backend_kind == 'lru':
                guard, st, cache = create_cached_guard(counting, checker, maxsize=cap)
            else:
                guard, st, cache = create_cached_guard(counting, checker,
                                                       cache=DictBackend() if backend_kind == 'dict' else RefreshAheadBackend())
        except Exception as e:
            f = Failure('oracle', {'backend': kind, 'cache_backend': backend_kind, 'capacity': cap}, repr(e), None,
                        'create_cached_guard failed for a documented configuration', 'Vakt.C11.any_backend_transparent')
            f.signature = 'create:' + backend_kind
            out.failures.append(f)
            continue
        # the third return value is for information only: a caller that does not keep it gets the same guarantees
        dropped = rng.random() < 0.35
        if dropped:
            cache = None
            gc.collect()
        spy = NotifySpy(lambda: store_dump(raw))
        st.add_listener(spy)
        # pool of inquiries: the target, content-equal distinct objects, near misses (tuple/list, 1/1.0/True)
        q0 = case['inquiry']
        pool = [q0, copy.deepcopy(q0)]
        for f in ('resource', 'action', 'subject', 'context'):
            t = dict(q0)
            t[f] = tower_twin(rng, q0[f])
            if t[f] is not q0[f]:
                pool.append(t)
            if isinstance(q0[f], list):
                t2 = dict(q0)
                t2[f] = tuple(q0[f])
                pool.extend([t2, t2, t2])
            if isinstance(q0[f], dict) and q0[f]:
                t3 = dict(q0)
                t3[f] = dict(reversed(list(q0[f].items())))
                pool.append(t3)
                for kk, vv in q0[f].items():
                    if isinstance(vv, list):
                        t4 = dict(q0)
                        t4[f] = dict(q0[f])
                        t4[f][kk] = tuple(vv)
                        pool.extend([t4, t4, t4])
        for _ in range(2):
            m = dict(q0)
            f = pick(rng, ['resource', 'action', 'subject'])
            m[f] = mutate_value(rng, q0[f])
            pool.append(m)
        keys = []        # canonical key ids for the model: by Inquiry equality of the real objects

        def key_of(qobj):
            for i, other in enumerate(keys):
                if other == qobj:
                    return i
            keys.append(qobj)
            return len(keys) - 1

        present = {}
        inflight = False
        cache_empty = True          # no ask since the last successful mutation
        reask = None
        mops, outs, human, problems = [], [], [], []
        nmut_ok = 0
        # start with every stored policy added, then the target and each of its near-twins asked in turn
        forced = [('add', o) for o in objs] + [('ask', q) for q in pool[:8]] + [('ask', pool[0])]
        for step in range(len(forced) + rng.randint(4, maxops)):
            r = rng.random()
            fo = forced[step] if step < len(forced) else None
            if fo is not None:
                r = 0.0 if fo[0] == 'ask' else 0.6
            elif reask is not None:
                r = 0.0
            if r < 0.55:
                qa = fo[1] if fo is not None else (reask if reask is not None else pick(rng, pool))
                reask = None
                try:
                    qobj = proto.build_inquiry(qa)
                except Exception:
                    continue
                finds0 = counting.finds
                fresh_before = None
                if kind == 'memory' and backend_kind == 'lru' and fo is None and present and \
                        rng.random() < (0.5 if cache_empty else 0.1):
                    # a mutation through the observable storage lands (and returns) while this decision is in flight
                    fresh_before = Guard(raw, polcase.make_checker(k)).is_allowed(proto.build_inquiry(qa))
                    options = []
                    for victim in sorted(present, key=str):
                        for mut, eff in (('delete', None), ('update', 'allow'), ('update', 'deny')):
                            flipped = proto.build_policy(dict(case['policies'][[o.uid for o in objs].index(victim)],
                                                              effect=eff or 'allow', uid=victim))
                            hyp = MemoryStorage()
                            for uu, oo in present.items():
                                if uu != victim:
                                    hyp.add(copy.copy(oo))
                                elif mut == 'update':
                                    hyp.add(copy.copy(flipped))
                            changes = Guard(hyp, polcase.make_checker(k)).is_allowed(proto.build_inquiry(qa)) \
                                is not fresh_before
                            options.append((changes, victim, mut, flipped))
                    # prefer a mutation that changes the answer to this very inquiry
                    best = [o for o in options if o[0]] or options
                    _, victim, mut, flipped = pick(rng, best)

                    # ... sometimes followed by a second one, so that an even number of invalidations happens while
                    # the decision is in flight (an invalidation marker that only toggles would come back to where it was)
                    second = pick(rng, options) if rng.random() < 0.45 else None

                    def land(victim=victim, flipped=flipped, mut=mut, second=second):
                        for (_c, v2, m2, f2) in [(None, victim, mut, flipped)] + ([second] if second else []):
                            if m2 == 'delete':
                                st.delete(v2)
                                present.pop(v2, None)
                            else:
                                st.update(f2)
                    counting.hook = land
                    reask = qa           # and the same inquiry is asked again next
                    fresh_before = Guard(raw, polcase.make_checker(k)).is_allowed(proto.build_inquiry(qa))
                    inflight = True
                    human.append('(next ask: %s %s lands while it is in flight)' % (mut, victim))
                elif fo is None and rng.random() < 0.04:
                    # the decision is aborted from outside (an exception that is not an Exception: interrupt, watchdog,
                    # cancellation) while it is in flight: nothing of it may be remembered; the same inquiry comes next
                    def abort():
                        raise Aborted()
                    counting.hook = abort
                    try:
                        guard.is_allowed(qobj)
                    except Aborted:
                        pass
                    counting.hook = None
                    reask = qa
                    human.append('(ask %r aborted in flight)' % (qa,))
                    continue
                a = guard.is_allowed(qobj)
                counting.hook = None
                cache_empty = False
                hit = counting.finds == finds0
                fresh = Guard(raw, polcase.make_checker(k)).is_allowed(proto.build_inquiry(qa))
                if fresh_before is not None and a is fresh_before:
                    fresh = a            # an in-flight decision may answer for the set at its start or at its end
                kid = key_of(qobj)
                mops.append('ask %d %s' % (kid, 'T' if fresh else 'F'))
                outs.append('%s %s' % ('T' if a else 'F', 'hit' if hit else 'miss'))
                human.append('ask #%d %r' % (kid, qa))
                if a is not fresh:
                    problems.append('cached guard answered %r, a fresh uncached guard over the same storage answers %r'
                                    % (a, fresh))
                out.evaluations += 1
            elif r < 0.9:
                o = fo[1] if fo is not None else pick(rng, objs)
                before = store_dump(raw)
                n0 = spy.count
                op = 'add' if fo is not None else pick(rng, ['add', 'add', 'update', 'delete'])
                variant = copy.copy(o)
                if op == 'update':
                    variant = proto.build_policy(dict(case['policies'][objs.index(o)],
                                                      effect=pick(rng, ['allow', 'deny']), uid=o.uid))
                try:
                    if op == 'add':
                        st.add(o)
                        ok = True
                        present[o.uid] = o
                    elif op == 'update':
                        st.update(variant)
                        ok = True
                    else:
                        st.delete(o.uid)
                        ok = True
                        present.pop(o.uid, None)
                except Exception as e:
                    ok = False
                after = store_dump(raw)
                human.append('%s %s -> %s' % (op, o.uid, 'returned' if ok else 'raised'))
                if ok:
                    nmut_ok += 1
                    cache_empty = True
                    if spy.count != n0 + 1:
                        problems.append('%s returned but notified the cache %d times' % (op, spy.count - n0))
                    elif spy.seen[-1] != after:
                        problems.append('%s notified the cache before the mutation was applied' % op)
                else:
                    if spy.count != n0:
                        problems.append('%s raised yet notified the cache' % op)
                    if after != before:
                        problems.append('%s raised yet the store changed' % op)
                # model op: opaque content ids are irrelevant here; use the fault / add-fresh / update / delete shape
                u = proto.enc_str(o.uid)
                if not ok:
                    mops.append('mut fault')
                elif op == 'add':
                    mops.append('mut add %s %d T' % (u, step))
                elif op == 'update':
                    mops.append('mut upd %s %d T' % (u, step))
                else:
                    mops.append('mut del %s' % u)
                outs.append('n%d' % spy.count)
                out.evaluations += 1
            else:
                n0 = spy.count
                rd = pick(rng, ['get', 'get_all', 'retrieve_all', 'find'])
                try:
                    if rd == 'get':
                        st.get(pick(rng, objs).uid)
                    elif rd == 'get_all':
                        capped(st.get_all(2, 0))
                    elif rd == 'retrieve_all':
                        capped(st.retrieve_all(2))
                    else:
                        list(st.find_for_inquiry(proto.build_inquiry(q0), checker))
                        counting.finds -= 1
                except Exception:
                    pass
                if spy.count != n0:
                    problems.append('read %s notified the cache' % rd)
                mops.append('read')
                outs.append('-')
                human.append('read ' + rd)
            if problems:
                break
        desc = {'backend': kind, 'checker': k, 'cache_backend': backend_kind, 'capacity': cap, 'cache_object_dropped': dropped,
                'policies': [repr(p) for p in case['policies']], 'history': human}
        if problems:
            f = Failure('oracle', desc, outs[-6:], None, problems[0],
                        'Vakt.C11.cached_transparent / notify_exactly_once / reads_never_notify')
            f.signature = 'oracle:' + problems[0].split(' ')[0]
            out.failures.append(f)
        elif backend_kind == 'lru' and not inflight:
            lines.append('CGUARD %s F F %d %s' % ('-' if cap is None else cap, len(mops), ' '.join(mops)))
            meta.append((outs, desc))
        out.traces += 1
        out.count('store:' + kind)
        out.count('cache:%s/%s' % (backend_kind, cap))
        if len(human) >= 4:
            out.nontriv(repr(desc))
            if len(out.samples) < 3 and any(o.endswith('hit') for o in outs) and nmut_ok:
                out.samples.append({'backend': kind, 'cache': '%s/%s' % (backend_kind, cap), 'history': human[:8],
                                    'outputs': outs[:8]})
    model = ctx.driver.run(lines) if ctx.driver else [None] * len(lines)
    for line, (outs, desc), m in zip(lines, meta, model):
        if m == 'bad-op':
            raise Broken('driver rejected: %s' % line[:300])
        mo = m.split(' | ')
        if mo != outs:
            i = next((j for j, (a, b) in enumerate(zip(outs, mo)) if a != b), min(len(outs), len(mo)))
            f = Failure('disagreement', dict(desc, first_difference={'op_index': i, 'impl': outs[i] if i < len(outs) else None,
                                                                    'model': mo[i] if i < len(mo) else None}),
                        outs[max(0, i - 3):i + 1], mo[max(0, i - 3):i + 1],
                        'answer, hit/miss or notification count differs from the model of the cached guard (an unexpected '
                        'miss within capacity means the storage was consulted again; an unexpected hit means a stale or '
                        'foreign entry was served)', 'Vakt.C11.cached_transparent / within_capacity_hit',
                        line=line, size=i)
            f.signature = 'model:' + ('hitmiss' if (i < len(outs) and i < len(mo) and outs[i][:1] == mo[i][:1]) else 'answer')
            # a hit where the LRU model predicts a miss, with the right answer, is a different (not a wrong) cache
            f.weak = f.signature == 'model:hitmiss' and i < len(outs) and outs[i].endswith('hit') and mo[i].endswith('miss')
            out.failures.append(f)
    out.rule = ('histories of 4-%d operations over Memory / SQLite / fake-Redis stores: asks drawn from a pool (the target '
                'inquiry, a content-equal distinct object, key-order permutations, tuple-for-list and 1/1.0/True twins, '
                'one-point mutations), add/update/delete incl. failing ones, reads; cache = lru_cache with capacity '
                'None/0/1/2/256, a dict back-end or a refresh-ahead back-end; every ask compared with a fresh uncached '
                'Guard on the same storage; storage look-ups counted (hit/miss) and compared with the LRU model; a spy '
                'listener checks notification count and that the store was already updated when notified') % maxops
    return out


def replay(ctx, rp):
    m = ctx.driver.run([rp['line']])[0] if ctx.driver and rp.get('line') else None
    return {'model': m, 'still_fails': None, 'note': 're-run the check with the recorded seed to rebuild this history'}
