"""C18 - migrations run in order, gated by the recorded version, and resume after failure."""
import itertools

from common import Failure, Outcome, Broken
from gen import pick
import stores
from vakt.storage.migration import Migration, MigrationSet, Migrator
from vakt.storage.sql.migrations import SQLMigrationSet
from vakt.storage.mongo import MongoStorage, MongoMigrationSet
from fakes.mongo_client import FakeMongoClient

MODULE = 'Props.C18'
THEOREMS = ['Vakt.C18.gated_and_ordered', 'Vakt.C18.version_never_past_failed', 'Vakt.C18.resume',
            'Vakt.C18.idempotent', 'Vakt.C18.completes', 'Vakt.C18.shipped_orders_ok',
            'Vakt.C18.up_down_restores', 'Vakt.C18.up_down_restores_version',
            'Vakt.Migration.loop_resume', 'Vakt.Migration.loop_trace',
            'Vakt.C18.probes_ok']
# obligations over what was translated from /repo/vakt/storage/migration.py in this run: MigrationSet._get_migrations is the model's
# `select`, and MigrationSet.up / down - their effects on the store threaded through as an explicit world value - end in the state
# and raise flag the model's `request` computes, for every order list, start state, request number and fault plan
# (lean/Gen/EquivMigration.lean)
EXTRA_BUILD = ['+Gen.EquivMigration']
GEN_IMPORTS = ['Gen.EquivMigration']
GEN_THEOREMS = ['Vakt.GenEquiv.gen_get_migrations', 'Vakt.GenEquiv.gen_up', 'Vakt.GenEquiv.gen_down']
FLOOR = {'quick': 1000, 'thorough': 20000}
ASSUMPTIONS = ['step bodies are idempotent and either complete or have no effect (the recording set, create_all / '
               'drop_all, create_index behave so); a body that fails half-way is outside the model',
               'the Mongo migration set runs on the in-process fake client']


class Boom(Exception):
    pass


class RecSet(MigrationSet):
    """recording migration set with a fault plan for the current request"""
    def __init__(self, orders):
        self.orders = orders
        self.version = 0
        self.schema = set()
        self.trace = []
        self.fault = None          # ('b'|'s', k)
        self.executed = 0

    def migrations(self):
        outer = self

        class M(Migration):
            def __init__(self, n):
                self.n = n

            @property
            def order(self):
                return self.n

            def up(self):
                outer.trace.append('U%d' % self.n)
                if outer.fault == ('b', outer.executed):
                    raise Boom('up %d' % self.n)
                outer.schema.add(self.n)

            def down(self):
                outer.trace.append('D%d' % self.n)
                if outer.fault == ('b', outer.executed):
                    raise Boom('down %d' % self.n)
                outer.schema.discard(self.n)
        return [M(n) for n in self.orders]

    def save_applied_number(self, number):
        if self.fault == ('s', self.executed):
            raise Boom('save %d' % number)
        self.version = number
        self.executed += 1

    def last_applied(self):
        return self.version


def fault_tok(f):
    return '-' if f is None else '%s%d' % f


def req_tok(r, f):
    return '%s %s %s' % (r[0], '-' if r[1] is None else r[1], fault_tok(f))


def run_recording(orders, reqs):
    ms = RecSet(orders)
    mig = Migrator(ms)
    outs = []
    for (d, n), f in reqs:
        ms.fault, ms.executed = f, 0
        t0 = len(ms.trace)
        raised = False
        try:
            (mig.up if d == 'U' else mig.down)(n)
        except Boom:
            raised = True
        except Exception as e:
            # nothing was injected here: the runner itself failed
            outs.append('X %s' % type(e).__name__)
            continue
        outs.append('%s last=%d schema=%s trace=%s' % ('R' if raised else 'C', ms.last_applied(),
                                                       ','.join(map(str, sorted(ms.schema))), ','.join(ms.trace[t0:])))
    return outs


def direct_oracle(orders, reqs, outs):
    """property restated on the implementation's own trace: gating and order"""
    last = 0
    for ((d, n), f), o in zip(reqs, outs):
        if o.startswith('X '):
            return 'the request %s%s raised %s although nothing was injected' % (d, '' if n is None else n, o[2:])
        parts = dict(p.split('=') for p in o.split(' ')[1:])
        tr = [t for t in parts['trace'].split(',') if t]
        nums = [int(t[1:]) for t in tr]
        if any(t[0] != d for t in tr):
            return 'a %s request invoked %s' % (d, tr)
        cur = last
        for i, m in enumerate(nums):
            if d == 'U' and not m > cur:
                return 'up step %d ran although the recorded version was %d' % (m, cur)
            if d == 'D' and not m <= cur:
                return 'down step %d ran although the recorded version was %d' % (m, cur)
            completed = not (o.startswith('R') and i == len(nums) - 1)
            if completed:
                cur = m if d == 'U' else m - 1
        if int(parts['last']) != cur:
            return 'recorded version %s after the request, completed steps imply %d' % (parts['last'], cur)
        last = cur
    return None


class _Shared:
    def __init__(self):
        self.version, self.schema, self.events = 0, set(), []


class SharedSet(MigrationSet):
    """one of several migration-set objects over ONE store (two application instances migrating at start-up, a request
    made from inside a hook of another): every step records the version that was recorded at the moment it ran"""
    def __init__(self, sh, orders, name):
        self.sh, self.orders, self.name = sh, orders, name
        self.saves, self.hook = 0, None

    def migrations(self):
        sh, name = self.sh, self.name

        class M(Migration):
            def __init__(self, n):
                self.n = n

            @property
            def order(self):
                return self.n

            def up(self):
                sh.events.append((name, 'U', self.n, sh.version))
                sh.schema.add(self.n)

            def down(self):
                sh.events.append((name, 'D', self.n, sh.version))
                sh.schema.discard(self.n)
        return [M(n) for n in self.orders]

    def save_applied_number(self, number):
        self.sh.version = number
        self.saves += 1
        if self.hook and self.saves == self.hook[0]:
            h, self.hook = self.hook[1], None
            h()

    def last_applied(self):
        return self.sh.version


def _nested_requests(ctx, out):
    """a request of a second migrator object over the same store runs to completion between two steps of a whole-set
    request of the first (complete enumeration over declaration orders of {1,2,3}, start versions, the step after which
    it happens and the second request): every step that runs is gated by the version recorded at that moment"""
    reqs_b = [('U', None), ('D', None)] + [(d, n) for d in 'UD' for n in (1, 2, 3)]
    for orders in itertools.permutations([1, 2, 3]):
        for start in range(4):
            for da in 'UD':
                for k in (1, 2, 3):
                    for db, nb in reqs_b:
                        sh = _Shared()
                        a, b = SharedSet(sh, list(orders), 'A'), SharedSet(sh, list(orders), 'B')
                        for n in range(1, start + 1):
                            Migrator(a).up(n)
                        sh.events, a.saves = [], 0
                        a.hook = (k, lambda b=b, db=db, nb=nb: (Migrator(b).up if db == 'U' else Migrator(b).down)(nb))
                        try:
                            (Migrator(a).up if da == 'U' else Migrator(a).down)()
                            err = None
                        except Exception as e:
                            err = type(e).__name__
                        out.evaluations += 1
                        out.count('nested-request')
                        prob = None
                        if err:
                            prob = 'the request raised %s although nothing was injected' % err
                        for who, d, n, v in sh.events:
                            if d == 'U' and not n > v:
                                prob = 'up step %d of migrator %s ran although the recorded version was %d' % (n, who, v)
                            if d == 'D' and not n <= v:
                                prob = 'down step %d of migrator %s ran although the recorded version was %d' % (n, who, v)
                        if prob:
                            f = Failure('oracle', {'orders': list(orders), 'start_version': start,
                                                   'request_A': 'whole-set ' + ('up' if da == 'U' else 'down'),
                                                   'request_B': '%s %s, run to completion after step %d of A' % (
                                                       'up' if db == 'U' else 'down', 'whole-set' if nb is None else nb, k),
                                                   'steps (who, direction, number, version recorded when it ran)': sh.events},
                                        sh.events, None, prob, 'Vakt.C18.gated_and_ordered')
                            f.signature = 'nested-request'
                            out.failures.append(f)
                            return


def run(ctx):
    out = Outcome()
    rng = ctx.rng
    lines, meta = [], []
    _nested_requests(ctx, out)

    def add_case(orders, reqs, tag):
        outs = run_recording(orders, reqs)
        lines.append('MIG %d %s %d %s' % (len(orders), ' '.join(map(str, orders)), len(reqs),
                                          ' '.join(req_tok(r, f) for r, f in reqs)))
        meta.append((orders, reqs, outs, tag))

    # 1. complete enumeration: every declaration order of sets of size <= 2 (quick) / 3 (thorough), every request
    #    sequence of length <= 3 (quick: 2 for size 3), one fault in any step of any one request
    maxset = 2 if ctx.tier == 'quick' else 3
    n_enum = 0
    for size in range(1, maxset + 1):
        base = list(range(1, size + 1))
        for orders in itertools.permutations(base):
            kinds = [('U', None), ('D', None)] + [(d, n) for d in 'UD' for n in [0] + base + [size + 1]]
            maxlen = 3 if size <= 2 else 2
            for ln in range(1, maxlen + 1):
                for seq in itertools.product(kinds, repeat=ln):
                    add_case(list(orders), [(r, None) for r in seq], 'enum')
                    n_enum += 1
                    for pos in range(ln):
                        for kind in 'bs':
                            for k in range(size):
                                reqs = [(r, (kind, k) if i == pos else None) for i, r in enumerate(seq)]
                                add_case(list(orders), reqs, 'enum-fault')
                                n_enum += 1
    # 2. random: sets of 1-4 migrations with gaps, longer sequences, several faults, resume-by-repeat
    for _ in range(ctx.budget(1500, 60000)):
        size = rng.randint(1, 4)
        orders = rng.sample([1, 2, 3, 4, 5, 7], size)
        kinds = [('U', None), ('D', None)] + [(d, n) for d in 'UD' for n in orders + [6, 0]]      # (0: a number no migration has)
        reqs = []
        for _ in range(rng.randint(1, 6)):
            r = pick(rng, kinds)
            f = None
            if rng.random() < 0.35:
                f = (pick(rng, 'bs'), rng.randint(0, size - 1))
            reqs.append((r, f))
            if f is not None and rng.random() < 0.6:
                reqs.append((r, None))          # resume by repeating the request
        add_case(orders, reqs, 'rand')
    model = ctx.driver.run(lines) if ctx.driver else [None] * len(lines)
    for line, (orders, reqs, outs, tag), m in zip(lines, meta, model):
        if m == 'bad-op':
            raise Broken('driver rejected: %s' % line[:300])
        out.evaluations += 1
        out.count(tag)
        desc = {'set': 'recording', 'orders': orders, 'requests': [req_tok(r, f) for r, f in reqs]}
        prob = direct_oracle(orders, reqs, outs)
        if prob:
            f = Failure('oracle', desc, outs, m, prob, 'Vakt.C18.gated_and_ordered / version_never_past_failed', line=line)
            f.signature = 'oracle:recording'
            out.failures.append(f)
        elif m is not None and m.split(' | ') != outs:
            f = Failure('disagreement', desc, outs, m.split(' | '), 'recording set vs the model of the migration runner',
                        'Vakt.C18 (Migration.request)', line=line)
            f.signature = 'model:recording'
            out.failures.append(f)
        if len(reqs) >= 2 or any(f for _, f in reqs):
            out.nontriv(line)
            if len(out.samples) < 3 and tag == 'rand' and any(o.startswith('R') for o in outs):
                out.samples.append({'orders': orders, 'requests': desc['requests'], 'impl': outs, 'model': m})
    out.traces = len(lines)
    _sql_and_mongo(ctx, out, rng)
    out.exhaustive = True
    out.extra['exhaustive_slice'] = ('recording set: every declaration order of sets {1..n}, n <= %d, every request sequence '
                                     'over {up, down, up(k), down(k)} up to length 3 (2 for n = 3), unfaulted and with one '
                                     'body/save fault in every step position of every request: %d runs' % (maxset, n_enum))
    out.rule = ('complete small scope (see exhaustive_slice) + random sets of 1-4 migrations with gaps, 1-6 requests, '
                'faults in bodies and in save_applied_number, resume-by-repeat; outputs per request: raised?, recorded '
                'version, schema, invocation trace; plus the SQL set on SQLite (two set objects on one database, faults in '
                'create_all and in the version write) and the Mongo set on the fake client; the Mongo set at version 3 over 1-5 stored policies in the 1.2.0 layout with a client error at the j-th re-save of step 4 (raise and version 3, or step complete; the repeated request completes it); non-trivial = >=2 requests or a fault')
    out.rule += '; by-number requests include 0 (a number no migration has); the SQL set runs on a database file and the recorded version and the tables are read through another connection after every request'
    return out


def _sql_and_mongo(ctx, out, rng):
    from sqlalchemy import inspect
    from vakt.storage.sql.model import Base
    import vakt.storage.sql.migrations as sqlmig
    import tempfile, shutil, os
    tmpd = tempfile.mkdtemp(prefix='vakt-c18-')
    for it in range(ctx.budget(40, 1000)):
        # a database file: the version "recorded in the database" is what ANOTHER connection reads after the request
        url = 'sqlite:///' + os.path.join(tmpd, 'm%d.sqlite' % it)
        engine = stores.make_engine(url)
        from sqlalchemy.orm import sessionmaker, scoped_session
        from vakt.storage.sql import SQLStorage

        def read_elsewhere():
            e2 = stores.make_engine(url)
            try:
                ms2 = SQLMigrationSet(SQLStorage(scoped_session(sessionmaker(bind=e2))))
                v = ms2.last_applied()
                ms2.storage.session.remove()
                return v, 'vakt_policies' in inspect(e2).get_table_names()
            finally:
                e2.dispose()

        def mk():
            return SQLMigrationSet(SQLStorage(scoped_session(sessionmaker(bind=engine))))
        sets = {'A': mk(), 'B': mk()}
        version, tables = 0, False
        hist = []
        for _ in range(rng.randint(2, 7)):
            who = pick(rng, ['A', 'A', 'B', 'new'])
            ms = mk() if who == 'new' else sets[who]
            d, n = pick(rng, [('U', None), ('D', None), ('U', 1), ('D', 1), ('U', 2), ('D', 2)])
            fault = pick(rng, [None, None, None, 'body', 'save'])
            orig_up, orig_down = sqlmig.Migration0To1x3x0.up, sqlmig.Migration0To1x3x0.down
            orig_save = SQLMigrationSet.save_applied_number
            if fault == 'body':
                def boom(self):
                    raise Boom('body')
                sqlmig.Migration0To1x3x0.up = boom
                sqlmig.Migration0To1x3x0.down = boom
            elif fault == 'save':
                def boom2(self, number):
                    raise Boom('save')
                SQLMigrationSet.save_applied_number = boom2
            raised = False
            crashed = None
            try:
                (Migrator(ms).up if d == 'U' else Migrator(ms).down)(n)
            except Boom:
                raised = True
            except Exception as e:
                crashed = type(e).__name__
            finally:
                sqlmig.Migration0To1x3x0.up, sqlmig.Migration0To1x3x0.down = orig_up, orig_down
                SQLMigrationSet.save_applied_number = orig_save
            hist.append('%s:%s%s%s' % (who, d, '' if n is None else n, '' if not fault else '!' + fault))
            # expected by the property (set {1}): gate against the version RECORDED IN THE DATABASE
            gated = (n in (None, 1)) and ((d == 'U' and 1 > version) or (d == 'D' and 1 <= version))
            exp_raised = gated and fault is not None
            if gated:
                if fault != 'body':
                    tables = d == 'U'
                if fault is None:
                    version = 1 if d == 'U' else 0
            recorded, has_tables = read_elsewhere()
            out.evaluations += 1
            out.count('sql-set')
            if crashed or raised != exp_raised or recorded != version or has_tables != tables:
                f = Failure('oracle', {'set': 'sql', 'history': hist},
                            {'raised': raised, 'runner_raised': crashed, 'recorded_version': recorded,
                             'policy_tables_exist': has_tables}, None,
                            'expected raised=%s version=%s tables=%s (gating against the version recorded in the database)'
                            % (exp_raised, version, tables), 'Vakt.C18.gated_and_ordered / resume / idempotent')
                f.signature = 'oracle:sql'
                out.failures.append(f)
                break
        out.nontriv('sql ' + ' '.join(hist))
        for ms in sets.values():
            try:
                ms.storage.session.remove()
            except Exception:
                pass
        engine.dispose()
    shutil.rmtree(tmpd, ignore_errors=True)
    # Mongo set on the fake: whole-set and by-number requests, version and index set vs. the model's schema
    for _ in range(ctx.budget(25, 500)):
        client = FakeMongoClient(pick(rng, ['4.0.0', '4.4.0']))
        st = MongoStorage(client, 'db')
        ms = MongoMigrationSet(st)
        # by-number requests are kept contiguous (up(v+1) / down(v) / gated-out ones): a gap makes a later index drop
        # fail inside the step body, which is outside the model's assumption that bodies complete
        reqs, v = [], 0
        for _ in range(rng.randint(1, 5)):
            d, n = pick(rng, [('U', None), ('D', None)] + [(d, n) for d in 'UD' for n in (1, 2, 3, 4)])
            if n is not None:
                gated = (d == 'U' and n > v) or (d == 'D' and n <= v)
                if gated and not ((d == 'U' and n == v + 1) or (d == 'D' and n == v)):
                    continue
                if gated:
                    v = n if d == 'U' else n - 1
            else:
                v = 4 if d == 'U' else 0
            reqs.append(((d, n), None))
        if not reqs:
            reqs = [(('U', None), None)]
        line = 'MIG 4 1 2 3 4 %d %s' % (len(reqs), ' '.join(req_tok(r, f) for r, f in reqs))
        m = ctx.driver.run([line])[0] if ctx.driver else None
        hist, ok = [], True
        for i, ((d, n), _) in enumerate(reqs):
            try:
                (Migrator(ms).up if d == 'U' else Migrator(ms).down)(n)
                raised = False
            except Exception as e:
                raised = True
            hist.append('%s%s' % (d, '' if n is None else n))
            if m:
                parts = m.split(' | ')[i]
                mlast = int(parts.split('last=')[1].split(' ')[0])
                msch = [int(x) for x in parts.split('schema=')[1].split(' ')[0].split(',') if x]
                idx = set(st.collection.indexes)
                want_idx = {'_id_'}
                if 1 in msch:
                    want_idx |= {'actions_idx', 'subjects_idx', 'resources_idx'}
                if 3 in msch:
                    want_idx |= {'type_idx'}
                if 4 in msch:
                    want_idx |= {'actions_compiled_regex_idx', 'subjects_compiled_regex_idx', 'resources_compiled_regex_idx'}
                out.evaluations += 1
                out.count('mongo-set')
                # dropping an index that does not exist (down(k) without up(k) ... cannot happen: gated) - any raise is a finding
                if raised or ms.last_applied() != mlast or idx != want_idx:
                    f = Failure('disagreement', {'set': 'mongo', 'history': hist},
                                {'raised': raised, 'version': ms.last_applied(), 'indexes': sorted(idx)}, parts,
                                'Mongo migration set vs the model (version / indexes implied by the applied migrations)',
                                'Vakt.C18 (Migration.request)', line=line)
                    f.signature = 'model:mongo'
                    out.failures.append(f)
                    break
        out.nontriv('mongo ' + ' '.join(hist))
    _mongo_step_faults(ctx, out, rng)


def _mongo_step_faults(ctx, out, rng):
    """Mongo set, a client error inside the body of step 4 (the re-save of one of the stored policies fails): the request either
    raises and leaves the recorded version at 3, or it has completed the step; repeating the request completes it"""
    from vakt.policy import Policy
    from vakt.rules import Eq
    for _ in range(ctx.budget(10, 200)):
        client = FakeMongoClient(pick(rng, ['4.0.0', '4.4.0']))
        st = MongoStorage(client, 'db')
        ms = MongoMigrationSet(st)
        for k in (1, 2, 3):
            Migrator(ms).up(k)
        npol = rng.randint(1, 5)
        kinds = []
        for i in range(npol):
            if rng.random() < 0.75:
                st.add(Policy('p%d' % i, actions=['<get|put>', 'x'], subjects=['s<.*>'], resources=['r%d' % i], effect='allow'))
                kinds.append('string')
            else:
                st.add(Policy('p%d' % i, actions=[Eq('get')], subjects=[{'n': Eq(i)}], resources=[Eq('r')], effect='deny'))
                kinds.append('rule')
        compiled = [st.condition_field_compiled_name(f) for f in st.condition_fields]
        for d in st.collection.docs:                  # the 1.2.0 layout: no *_compiled_regex fields yet
            for c in compiled:
                d.pop(c, None)
        j = rng.randrange(npol)
        exc = pick(rng, [RuntimeError, OSError, ValueError, KeyError])('injected client fault')
        st.collection.fail_next = (('update_one', 'replace_one'), exc, j)       # whichever write the step re-saves a policy with
        req = pick(rng, [None, 4])
        hist = ['up(1)', 'up(2)', 'up(3)', 'add %s' % ','.join(kinds), 'write #%d of step 4 (update_one / replace_one) fails' % (j + 1), 'up(%s)' % ('' if req is None else req)]

        def complete():
            idx = set(st.collection.indexes)
            missing = [d['_id'] for d, kd in zip(st.collection.docs, kinds) if kd == 'string' and not all(c in d for c in compiled)]
            return ms.last_applied() == 4 and {c + '_idx' for c in compiled} <= idx and not missing, missing
        try:
            Migrator(ms).up(req)
            raised = False
        except Exception:
            raised = True
        fired = st.collection.fail_next is None
        st.collection.fail_next = None
        out.evaluations += 1
        out.count('mongo-step-fault:' + ('fired' if fired else 'not-reached'))
        ver = ms.last_applied()
        done, missing = complete()
        problem = None
        if raised and ver != 3:
            problem = 'the request raised inside step 4 and the recorded version is %r (3 steps completed)' % ver
        elif not raised and not done:
            problem = ('the request returned, the recorded version is %r, and step 4 has not completed: documents %r have no '
                       'compiled fields' % (ver, missing))
        if problem is None:
            try:
                Migrator(ms).up(req)
                done, missing = complete()
                if not done:
                    problem = 'after repeating the request: version %r, documents without compiled fields %r' % (ms.last_applied(), missing)
                else:
                    for i in range(npol):
                        if st.get('p%d' % i) is None:
                            problem = 'policy p%d cannot be read after the completed migration' % i
            except Exception as e:
                problem = 'repeating the request (no fault) raised %s' % type(e).__name__
        if problem:
            f = Failure('oracle', {'set': 'mongo', 'history': hist}, {'raised': raised, 'version': ver}, None, problem,
                        'Vakt.C18.version_never_past_failed / resume')
            f.signature = 'mongo-step-fault'
            out.failures.append(f)
            return
        out.nontriv('mongo-fault ' + ' '.join(hist))


def replay(ctx, rp):
    c = rp['case']
    if c.get('set') == 'recording':
        reqs = []
        for t in c['requests']:
            d, n, f = t.split(' ')
            reqs.append(((d, None if n == '-' else int(n)), None if f == '-' else (f[0], int(f[1:]))))
        outs = run_recording(c['orders'], reqs)
        m = ctx.driver.run([rp['line']])[0] if ctx.driver else None
        return {'impl': outs, 'model': m, 'oracle': direct_oracle(c['orders'], reqs, outs),
                'still_fails': direct_oracle(c['orders'], reqs, outs) is not None or (m is not None and m.split(' | ') != outs)}
    return {'still_fails': None, 'note': 're-run the check with the recorded seed'}
