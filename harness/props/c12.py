"""C12 - the enfolding storage cache stays coherent with its backend."""
import proto
from common import capped, Failure, Outcome, Broken, listing_diff_is_order_only
from gen import pick
import stores
import polcase
from props.c08 import gen_policy, classify, UIDS, uids_for, tok
from vakt.cache import EnfoldCache
from vakt.storage.memory import MemoryStorage
from vakt.guard import Guard, Inquiry
from vakt.checker import RegexChecker, RulesChecker

MODULE = 'Props.C12'
THEOREMS = ['Vakt.C12.enfold_inv', 'Vakt.C12.history_coherent', 'Vakt.C12.get_eq_backend',
            'Vakt.C12.retrieveAll_eq_backend', 'Vakt.C12.failure_propagates_unchanged',
            'Vakt.C12.mutation_returns_backend_value', 'Vakt.C12.populated_read_no_backend_touch',
            'Vakt.C12.populate_any_batch', 'Vakt.C12.feed_fresh']
# obligations over what was translated from /repo/vakt/cache.py in this run: EnfoldCache.add / update / delete / get / get_all /
# populate - every call of self.storage / self.cache made explicit as an effect on a world value holding the two stores - end in the
# pair of stores, return or raise what, and call the backend exactly when the model's Enfold.step says (lean/Gen/EquivEnfold.lean)
EXTRA_BUILD = ['+Gen.EquivEnfold']
GEN_IMPORTS = ['Gen.EquivEnfold']
GEN_THEOREMS = ['Vakt.GenEquiv.gen_enfold_add', 'Vakt.GenEquiv.gen_enfold_update', 'Vakt.GenEquiv.gen_enfold_delete',
                'Vakt.GenEquiv.gen_enfold_get', 'Vakt.GenEquiv.gen_enfold_get_all', 'Vakt.GenEquiv.gen_enfold_populate',
                'Vakt.GenEquiv.gen_enfold_retrieve_all']
FLOOR = {'quick': 100, 'thorough': 1500}
ASSUMPTIONS = ['Redis and MongoDB backends are in-process fakes of the client calls (no servers here)']
BACKENDS = ['memory', 'sqlite', 'redis-json', 'mongo']


class Injected(Exception):
    pass


class Spy:
    """proxy around the backend storage: counts calls, can fail the k-th mutation, returns marker values"""
    MUT = ('add', 'update', 'delete')

    def __init__(self, inner):
        self.inner = inner
        self.calls = 0
        self.mut_calls = 0
        self.fail_at = None

    def _mut(self, name, *a):
        self.calls += 1
        self.mut_calls += 1
        if self.fail_at is not None and self.mut_calls == self.fail_at:
            raise Injected('backend failure at mutation %d' % self.mut_calls)
        r = getattr(self.inner, name)(*a)
        return ('backend-says', name, r)

    def add(self, p):
        return self._mut('add', p)

    def update(self, p):
        return self._mut('update', p)

    def delete(self, u):
        return self._mut('delete', u)

    def get(self, u):
        self.calls += 1
        return self.inner.get(u)

    def get_all(self, l, o):
        self.calls += 1
        return self.inner.get_all(l, o)

    def retrieve_all(self, *a, **k):
        self.calls += 1
        return self.inner.retrieve_all(*a, **k)

    def find_for_inquiry(self, q, c=None):
        self.calls += 1
        return self.inner.find_for_inquiry(q, c)


def dump(st, pid_of):
    try:
        return sorted('%s:%d' % (tok(p.uid), pid_of(p)) for p in capped(st.retrieve_all(50)))
    except Exception as e:
        return ['dump-failed:%s' % type(e).__name__]


def run_history(kind, rng, nops, fail_at, out, script=None):
    sorted_, eager, rejects = (kind in ('sqlite', 'mongo')), kind in ('mongo', 'redis-json'), kind in ('sqlite', 'mongo')
    backend = stores.make(kind)
    keys, pool = {}, []

    def pid_of(p):
        k = polcase.policy_key(p)
        if k not in keys:
            keys[k] = len(pool)
            pool.append(k)
        return keys[k]

    UIDS = uids_for(kind)
    if script is None:
        script = {'init': [], 'populate_at_ctor': rng.random() < 0.5, 'step': pick(rng, [1, 2, 3, 1000]), 'ops': [],
                  'pre': [pick(rng, [('get', pick(rng, UIDS)), ('get', 'no-such-uid'), ('all', 2, 0), ('retr', 2)])
                          for _ in range(rng.randint(1, 3))] if rng.random() < 0.4 else []}
        tag = 0
        for u in rng.sample(UIDS, rng.randint(0, 3)):
            tag += 1
            pol, bad = gen_policy(rng, u, tag)
            while bad:
                pol, bad = gen_policy(rng, u, tag)
            script['init'].append((u, pol))
        for _ in range(nops):
            r = rng.random()
            u = pick(rng, UIDS)
            tag += 1
            if r < 0.75:
                if r < 0.35:
                    script['ops'].append(('add',) + gen_policy(rng, u, tag))
                elif r < 0.6:
                    script['ops'].append(('upd',) + gen_policy(rng, u, tag))
                else:
                    script['ops'].append(('del', u))
                # read every uid back through the enfolding cache after each mutation
                for uu in UIDS:
                    script['ops'].append(('get', uu))
                script['ops'].append(('retr', pick(rng, [1, 2, 50])))
            elif r < 0.85:
                script['ops'].append(('get', u))
            elif r < 0.93:
                script['ops'].append(('all',) + pick(rng, [(2, 0), (2, 2), (0, 0), (5, 0), (-1, 0), (1, 4)]))
            else:
                script['ops'].append(('retr', pick(rng, [1, 2, 50])))
    for u, p in script['init']:
        backend.add(p)
    spy = Spy(backend)
    cache = MemoryStorage()
    ec = EnfoldCache(spy, cache=cache, populate=False)
    ec.populate_step_size = script['step']
    mops = ['pop %d' % script['step']]
    problems = []
    human = ['init=%s' % [u for u, _ in script['init']]]
    # reads through the not yet populated cache (the documented populate=False mode): answered like the backend alone,
    # and they must not get in the way of the population that follows
    for op in script.get('pre', []):
        human.append('before populate: %s%r' % (op[0], op[1:]))
        try:
            if op[0] == 'get':
                p, pb = ec.get(op[1]), backend.get(op[1])
                if (p is None) != (pb is None) or (p is not None and polcase.policy_key(p) != polcase.policy_key(pb)):
                    problems.append('get(%r) through the unpopulated cache differs from the backend' % (op[1],))
            elif op[0] == 'all':
                got = sorted(repr(polcase.policy_key(p)) for p in capped(ec.get_all(op[1], op[2])))
                want = sorted(repr(polcase.policy_key(p)) for p in capped(backend.get_all(op[1], op[2])))
                if got != want:
                    problems.append('get_all through the unpopulated cache differs from the backend')
            else:
                got = sorted(repr(polcase.policy_key(p)) for p in capped(ec.retrieve_all(op[1])))
                want = sorted(repr(polcase.policy_key(p)) for p in capped(backend.retrieve_all(op[1])))
                if got != want:
                    problems.append('retrieve_all through the unpopulated cache differs from the backend')
        except Exception as e:
            problems.append('%s%r through the unpopulated cache raised %s' % (op[0], op[1:], type(e).__name__))
    try:
        ec.populate()
    except Exception as e:
        problems.append('populate() raised %s: %s' % (type(e).__name__, str(e)[:120]))
    if not problems and dump(backend, pid_of) != dump(cache, pid_of):
        problems.append('after populate() the cache store %s differs from the backend %s'
                        % (dump(cache, pid_of), dump(backend, pid_of)))
    spy.calls = 0
    outs = ['done T']
    human.append('populate(step=%s)' % script['step'])
    spy.fail_at = fail_at
    spy.mut_calls = 0
    for op in (script['ops'] if not problems else []):
        before = spy.calls
        b_dump0, c_dump0 = dump(backend, pid_of), dump(cache, pid_of)
        injected = False
        try:
            if op[0] == 'add':
                ok = not (op[2] and rejects)
                will_fail = fail_at is not None and spy.mut_calls + 1 == fail_at
                mops.append('fault' if will_fail else 'add %s %d %s' % (tok(op[1].uid), pid_of(op[1]), 'T' if ok else 'F'))
                human.append('add %s%s' % (op[1].uid, ' (malformed)' if op[2] else ''))
                r = ec.add(op[1])
                o = 'done'
                if not (isinstance(r, tuple) and r[0] == 'backend-says'):
                    problems.append('add returned %r, not the backend\'s value' % (r,))
            elif op[0] == 'upd':
                ok = not (op[2] and rejects)
                will_fail = fail_at is not None and spy.mut_calls + 1 == fail_at
                # an injected failure hits before the backend looks the uid up: eager semantics for that op
                mops.append('fault' if will_fail else 'upd %s %d %s' % (tok(op[1].uid), pid_of(op[1]), 'T' if ok else 'F'))
                human.append('update %s%s' % (op[1].uid, ' (malformed)' if op[2] else ''))
                r = ec.update(op[1])
                o = 'done'
                if not (isinstance(r, tuple) and r[0] == 'backend-says'):
                    problems.append('update returned %r, not the backend\'s value' % (r,))
            elif op[0] == 'del':
                will_fail = fail_at is not None and spy.mut_calls + 1 == fail_at
                mops.append('fault' if will_fail else 'del %s' % tok(op[1]))
                human.append('delete %s' % (op[1],))
                r = ec.delete(op[1])
                o = 'done'
                if not (isinstance(r, tuple) and r[0] == 'backend-says'):
                    problems.append('delete returned %r, not the backend\'s value' % (r,))
            elif op[0] == 'get':
                mops.append('get %s' % tok(op[1]))
                human.append('get %s' % (op[1],))
                p = ec.get(op[1])
                o = 'pol -' if p is None else 'pol %d' % pid_of(p)
                pb = backend.get(op[1])
                ob = 'pol -' if pb is None else 'pol %d' % pid_of(pb)
                if o != ob:
                    problems.append('get(%r) through the cache gives %s, the backend alone gives %s' % (op[1], o, ob))
            elif op[0] == 'all':
                mops.append('all %d %d' % (op[1], op[2]))
                human.append('get_all%r' % (op[1:],))
                o = 'pols ' + ','.join('%s:%d' % (tok(p.uid), pid_of(p)) for p in capped(ec.get_all(op[1], op[2])))
            else:
                mops.append('retr %d' % op[1])
                human.append('retrieve_all(%d)' % op[1])
                o = 'pols ' + ','.join('%s:%d' % (tok(p.uid), pid_of(p)) for p in capped(ec.retrieve_all(op[1])))
        except Injected:
            o = 'rejected'
            injected = True
        except Exception as e:
            o = classify(e)
        touched = spy.calls > before
        outs.append('%s %s' % (o, 'T' if touched else 'F'))
        b_dump, c_dump = dump(backend, pid_of), dump(cache, pid_of)
        if b_dump != c_dump:
            problems.append('after %s the two stores differ: cache %s backend %s' % (human[-1], c_dump, b_dump))
        if (injected or o in ('rejected', 'exists')) and (b_dump != b_dump0 or c_dump != c_dump0):
            problems.append('%s failed (%s) but a store changed: cache %s -> %s, backend %s -> %s' % (
                human[-1], o, c_dump0, c_dump, b_dump0, b_dump))
        # candidate search: a populated cache that offers candidates answers without touching the backend
        if not problems and not injected:
            fq = Inquiry(action='get', subject='sx', resource='r')
            c0 = spy.calls
            try:
                via = capped(ec.find_for_inquiry(fq, RegexChecker()))
                own = capped(cache.find_for_inquiry(fq, RegexChecker()))
                if own and spy.calls > c0:
                    problems.append('find_for_inquiry touched the backend although the populated cache offers %d '
                                    'candidate(s)' % len(own))
                elif own and sorted(str(p.uid) for p in via) != sorted(str(p.uid) for p in own):
                    problems.append('find_for_inquiry through the enfolding cache gives %s, its cache store %s'
                                    % (sorted(str(p.uid) for p in via), sorted(str(p.uid) for p in own)))
            except Exception as e:
                problems.append('find_for_inquiry raised %s' % type(e).__name__)
            spy.calls = c0
        if problems:
            break
    # decisions through the cache equal decisions over the backend alone
    for q, ch in ((Inquiry(action='get', subject='sx', resource='r'), RegexChecker()),
                  (Inquiry(action='get', subject={'n': 'a'}, resource=2, context={'k': 1}), RulesChecker())):
        if Guard(ec, ch).is_allowed(q) is not Guard(backend, ch).is_allowed(q):
            problems.append('decision through the enfolding cache differs from the decision over the backend')
    line = 'ENFOLD %s %s %d %s %d %s' % ('T' if sorted_ else 'F', 'T' if eager else 'F', len(script['init']),
                                         ' '.join('%s %d' % (tok(u), pid_of(p)) for u, p in script['init']),
                                         len(mops), ' '.join(mops))
    line = ' '.join(line.split())
    return line, outs, {'backend': kind, 'fail_at_mutation': fail_at, 'history': human}, problems, script


def run(ctx):
    out = Outcome()
    rng = ctx.rng
    per_kind = ctx.budget(10, 50)
    nops = 10 if ctx.tier == 'quick' else 25
    lines, meta = [], []
    for kind in BACKENDS:
        for _ in range(per_kind):
            line, outs, desc, problems, script = run_history(kind, rng, rng.randint(3, nops), None, out)
            lines.append(line)
            meta.append((outs, desc, problems))
            nmut = len([o for o in script['ops'] if o[0] in ('add', 'upd', 'del')])
            # the same history with a backend failure injected at every mutation position
            for k in range(1, nmut + 1):
                line, outs, desc, problems, _ = run_history(kind, rng, 0, k, out, script=script)
                lines.append(line)
                meta.append((outs, desc, problems))
    model = ctx.driver.run(lines) if ctx.driver else [None] * len(lines)
    for line, (outs, desc, problems), m in zip(lines, meta, model):
        if m == 'bad-op':
            raise Broken('driver rejected: %s' % line[:300])
        out.evaluations += len(outs)
        out.traces += 1
        out.count('backend:' + desc['backend'])
        out.count('injected' if desc['fail_at_mutation'] else 'clean')
        if problems:
            f = Failure('oracle', desc, outs[-8:], None, problems[0],
                        'Vakt.C12.enfold_inv / failure_propagates_unchanged / mutation_returns_backend_value', line=line)
            f.signature = 'oracle:' + desc['backend']
            out.failures.append(f)
        elif m is not None:
            mo = m.split(' || ')[0].split(' | ')
            if mo != outs:
                i = next((j for j, (a, b) in enumerate(zip(outs, mo)) if a != b), min(len(outs), len(mo)))
                # what the property prescribes: the policies returned, and that a read the populated cache can answer does
                # not touch the backend.  Not prescribed: the listing order of a backend (which policy lands on which
                # page), and touching the backend less often than the model predicts
                strong = len(outs) != len(mo)
                for a, b in zip(outs, mo):
                    if a == b:
                        continue
                    (ba, fa), (bb, fb) = a.rsplit(' ', 1), b.rsplit(' ', 1)
                    if ba != bb and not listing_diff_is_order_only(ba, bb):
                        strong = True
                    if ba == bb and fa == 'T' and fb == 'F':
                        strong = True
                f = Failure('disagreement', dict(desc, first_difference={'op_index': i, 'impl': outs[i] if i < len(outs) else None,
                                                                        'model': mo[i] if i < len(mo) else None}),
                            outs[max(0, i - 2):i + 1], mo[max(0, i - 2):i + 1],
                            'output / backend-touched flag differs from the model of EnfoldCache at operation %d' % i,
                            'Vakt.C12 (Enfold.step)', line=line, size=i)
                f.signature = 'model:' + desc['backend']
                f.weak = not strong
                out.failures.append(f)
        out.nontriv(line)
        if len(out.samples) < 3 and desc['fail_at_mutation']:
            out.samples.append({'backend': desc['backend'], 'fail_at_mutation': desc['fail_at_mutation'],
                                'history': desc['history'][:10], 'outputs(out touched)': outs[:10]})
    out.rule = ('backends Memory / SQLite / fake Redis / fake Mongo behind a call-counting, fault-injecting proxy, cache = '
                'MemoryStorage; pre-existing policies, populate() with step 1/2/3/1000; histories of 3-%d operations; each '
                'history is replayed once per mutation with a backend failure injected at exactly that mutation; after every '
                'step both stores are dumped and compared, outputs and the backend-touched flag are compared with the model, '
                'mutation return values must be the backend\'s, decisions through the cache equal decisions over the backend'
                % nops)
    return out


def replay(ctx, rp):
    m = ctx.driver.run([rp['line']])[0] if ctx.driver and rp.get('line') else None
    return {'model': m, 'still_fails': None, 'note': 're-run the check with the recorded seed to rebuild this history'}
