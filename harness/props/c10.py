"""C10 - policy type always reflects its elements; invalid definitions are rejected."""
import proto
from common import Failure, Outcome, Broken
from gen import pick, gen_str
from vakt.policy import Policy, TYPE_STRING_BASED, TYPE_RULE_BASED
from vakt.exceptions import PolicyCreationError
from vakt.effects import DENY_ACCESS
from vakt.rules.base import Rule
from vakt.rules import Eq, Any

MODULE = 'Props.C10'
THEOREMS = ['Vakt.C10.empty_inv', 'Vakt.C10.setattr_inv', 'Vakt.C10.setattr_reject_unchanged',
            'Vakt.C10.set_type_ignored', 'Vakt.C10.mixed_rejected', 'Vakt.C10.illtyped_rejected',
            'Vakt.C10.context_nondict_rejected', 'Vakt.C10.iterator_counts_as_empty', 'Vakt.C10.type_meaning', 'Vakt.C10.history_inv', 'Vakt.C10.ctor_inv']
# Policy._calculate_type, translated from /repo/vakt/policy.py in this run (harness/pytolean.py -> lean/Gen/Policy.lean), is the
# model's calcType over the kinds of the elements of the three definition fields (lean/Gen/EquivPolicy.lean)
EXTRA_BUILD = ['+Gen.EquivPolicy']
GEN_IMPORTS = ['Gen.EquivPolicy']
GEN_THEOREMS = ['Vakt.GenEquiv.gen_calculate_type', 'Vakt.GenEquiv.gen_check_field_type', 'Vakt.GenEquiv.gen_check_field_type_model',
                'Vakt.GenEquiv.gen_setattr', 'Vakt.GenEquiv.gen_init', 'Vakt.GenEquiv.translatedPolicy_covers']
FLOOR = {'quick': 500, 'thorough': 10000}
FIELDS = ['subjects', 'resources', 'actions']


def kind_of(e):
    if isinstance(e, str):
        return 's'
    if isinstance(e, (dict, Rule)):
        return 'r'
    return 'o'


ITER_KINDS = {}       # id(one-shot iterator) -> kinds of the elements it was created over (reset per case)


def one_shot(rng, es):
    """a one-shot iterator over the elements: a generator, iter(..) or map(..)"""
    es = list(es)
    it = pick(rng, [lambda: (e for e in es), lambda: iter(es), lambda: map(lambda e: e, es)])()
    ITER_KINDS[id(it)] = 'I' + ''.join(kind_of(e) for e in es)
    return it


def fv_of(v):
    if id(v) in ITER_KINDS:
        return ITER_KINDS[id(v)]
    try:
        return 'K' + ''.join(kind_of(e) for e in v)
    except TypeError:
        return 'Q'


def proto_rule(rng):
    import proto
    return proto.const_rule(rng.random() < 0.5)


def gen_field_value(rng):
    r = rng.random()
    def elems(kind, n):
        out = []
        for _ in range(n):
            if kind == 's':
                out.append(gen_str(rng, 3))
            elif kind == 'r':
                import collections
                out.append(pick(rng, [Eq(1), Any(), {'a': Eq(2)}, {},
                                      # attribute dictionaries of a dict subclass (an OrderedDict read from a config file ...)
                                      collections.OrderedDict(a=Eq(2)), collections.defaultdict(list, {'a': Eq(3)}),
                                      # a rule of a user-defined class
                                      proto_rule(rng)]))
            else:
                out.append(pick(rng, [5, None, 1.5, ('t',), ['l'], b'b']))
        return out
    n = pick(rng, [0, 0, 1, 1, 2, 3])
    if r < 0.35:
        es = elems('s', n)
    elif r < 0.7:
        es = elems('r', n)
    elif r < 0.8:
        es = elems('s', 1) + elems('r', 1)
        rng.shuffle(es)
    elif r < 0.9:
        es = elems(pick(rng, ['s', 'r']), n) + elems('o', 1)
        rng.shuffle(es)
    else:
        return pick(rng, [5, None, 'abc', '', {'k': Eq(1)}, {}, 1.5, True, ('a', 'b'), (Eq(1),), ()])
    if rng.random() < 0.08:
        return one_shot(rng, es)
    return tuple(es) if rng.random() < 0.4 else es


def gen_assign(rng):
    r = rng.random()
    if r < 0.6:
        return pick(rng, FIELDS), gen_field_value(rng)
    if r < 0.72:
        return 'type', pick(rng, [1, 2, None, 'x', 0, [Eq(1)]])
    if r < 0.84:
        return 'context', pick(rng, [{}, {'k': Eq(1)}, None, [], 'ctx', 5, ()])
    return pick(rng, ['uid', 'effect', 'description', 'foo']), pick(rng, [1, 'x', None, 'allow', '', [1]])


def implied_type(p):
    elems = []
    for f in FIELDS:
        elems.extend(list(getattr(p, f, ())))
    if all(isinstance(e, str) for e in elems):
        return TYPE_STRING_BASED
    if all(isinstance(e, (dict, Rule)) for e in elems):
        return TYPE_RULE_BASED
    return 'mixed'


def snapshot(p, pool):
    """attribute -> index of the pool object it holds (identity), type excluded"""
    out = {}
    for k, v in vars(p).items():
        if k == 'type':
            continue
        idx = [i for i, o in enumerate(pool) if o is v]
        out[k] = idx[0] if idx else -1
    return out


def show_state(typ, snap):
    return '%s;%s' % (typ, ','.join('%s:%d' % (k, snap[k]) for k in sorted(snap)))


def _augmented_assignment(ctx, out, rng):
    """`p.field += [e]` and `p.field = p.field` after an in-place change: an attribute assignment whose value is the very
    object the attribute already holds.  It is validated like any other: accepted iff the elements now are all strings or
    all rules / attribute dictionaries, and afterwards the type is the one the elements imply."""
    for _ in range(ctx.budget(60, 2000)):
        kinds = pick(rng, ['empty', 'str', 'rule'])
        mk = {'empty': lambda: [], 'str': lambda: ['a'], 'rule': lambda: [Eq(1)]}[kinds]
        try:
            p = Policy(pick(rng, [1, 'u']), subjects=mk(), resources=mk(), actions=mk())
        except Exception:
            continue
        hist = ['Policy(subjects=%r, resources=%r, actions=%r)' % (p.subjects, p.resources, p.actions)]
        for _ in range(rng.randint(1, 4)):
            fld = pick(rng, FIELDS)
            e = pick(rng, ['x', Eq(2), {'k': Eq(1)}, 5])
            how = pick(rng, ['+=', 'append-then-reassign'])
            before_mixed = implied_type(p) == 'mixed'
            try:
                if how == '+=':
                    cur = getattr(p, fld)
                    cur += [e]
                    setattr(p, fld, cur)             # what `p.<fld> += [e]` does
                else:
                    getattr(p, fld).append(e)
                    setattr(p, fld, getattr(p, fld))
                st = 'accepted'
            except PolicyCreationError:
                st = 'rejected'
            except Exception as ex:
                st = 'raised %s' % type(ex).__name__
            hist.append('%s %s %r -> %s' % (fld, how, e, st))
            out.evaluations += 1
            out.count('augmented-assignment:' + st.split(' ')[0])
            want = implied_type(p)
            prob = None
            if st == 'accepted' and (want == 'mixed' or any(not isinstance(x, (str, dict, Rule)) for x in getattr(p, fld))):
                prob = 'the assignment was accepted although the elements now are mixed or ill-typed'
            elif st == 'accepted' and p.type != want:
                prob = 'after the accepted assignment the type is %r, the elements imply %r' % (p.type, want)
            elif st == 'rejected' and want != 'mixed' and not before_mixed and \
                    all(isinstance(x, (str, dict, Rule)) for x in getattr(p, fld)):
                prob = 'a coherent definition was rejected'
            elif st.startswith('raised'):
                prob = 'the assignment raised something else than PolicyCreationError'
            if prob:
                f = Failure('oracle', {'history': hist}, st, None, prob, 'Vakt.C10.history_inv / type_meaning', size=len(hist))
                f.signature = 'augmented-assignment'
                out.failures.append(f)
                return
            if st != 'accepted':
                break                     # (the list was changed in place before the assignment was refused: start afresh)
        out.nontriv('aug ' + ' | '.join(hist))


def run(ctx):
    out = Outcome()
    rng = ctx.rng
    n = ctx.budget(3000, 100000)
    lines, meta = [], []
    maxlen = 8 if ctx.tier == 'quick' else 25
    for _ in range(n):
        pool = []
        ITER_KINDS.clear()

        def reg(v):
            for i, o in enumerate(pool):
                if o is v:
                    return i
            pool.append(v)
            return len(pool) - 1
        # constructor arguments, in the order __init__ assigns them
        uid = pick(rng, [1, 'u', None])
        subj, res, act = gen_field_value(rng), gen_field_value(rng), gen_field_value(rng)
        if rng.random() < 0.75:
            # mostly coherent constructor arguments
            k = pick(rng, ['s', 'r'])
            def coh():
                v = gen_field_value(rng)
                for _ in range(6):
                    if fv_of(v)[0] == 'K' and set(fv_of(v)[1:]) <= {k}:
                        return v
                    v = gen_field_value(rng)
                return []
            subj, res, act = coh(), coh(), coh()
        eff = pick(rng, ['allow', 'deny', None, '', 'ALLOW'])
        ctxv = pick(rng, [None, {}, {'k': Eq(1)}, [], 'x'])
        desc = pick(rng, [None, 'd'])
        eff_stored = eff or DENY_ACCESS
        ctx_stored = {} if ctxv is None else ctxv
        ctor = [('uid', uid), ('subjects', subj), ('effect', eff_stored), ('resources', res), ('actions', act),
                ('context', ctx_stored), ('description', desc), ('type', None)]
        ctor_ids = [(nm, reg(v), v) for nm, v in ctor]
        steps = [gen_assign(rng) for _ in range(rng.randint(0, maxlen))]
        step_ids = [(nm, reg(v), v) for nm, v in steps]

        def enc(nm, vid, v):
            return '%s %d %s %s' % (nm, vid, fv_of(v), 'T' if isinstance(v, dict) else 'F')
        line = 'POBJ %d %s %d %s' % (len(ctor_ids), ' '.join(enc(*a) for a in ctor_ids), len(step_ids),
                                     ' '.join(enc(*a) for a in step_ids))
        line = ' '.join(line.split())
        desc_case = {'ctor': repr([(nm, v) for nm, _, v in ctor_ids]), 'steps': repr([(nm, v) for nm, _, v in step_ids])}
        # real object
        try:
            p = Policy(uid, subjects=subj, effect=eff, resources=res, actions=act, context=ctxv, description=desc)
        except PolicyCreationError:
            impl = 'ctor-raise creation'
            p = None
        except TypeError:
            impl = 'ctor-raise typeerror'
            p = None
        except Exception as e:
            impl = 'ctor-raise other:%s' % type(e).__name__
            p = None
        out.evaluations += 1
        problems = []
        if p is not None:
            # the constructor stored our objects (effect / context are normalised copies of what we predicted)
            if ctxv is None:
                pool[ctor_ids[5][1]] = p.context          # the constructor made its own fresh dict
            parts = ['ok ' + show_state(p.type, snapshot(p, pool))]
            if p.type != implied_type(p):
                problems.append('after construction type %r, elements imply %r' % (p.type, implied_type(p)))
            for nm, vid, v in step_ids:
                before_vars = dict(vars(p))
                try:
                    setattr(p, nm, v)
                    st = 'O'
                except PolicyCreationError:
                    st = 'E creation'
                except TypeError:
                    st = 'E typeerror'
                except Exception as e:
                    st = 'E other:%s' % type(e).__name__
                after_vars = dict(vars(p))
                if st != 'O':
                    if set(before_vars) != set(after_vars) or any(before_vars[k] is not after_vars[k] for k in before_vars):
                        problems.append('rejected assignment %s=%r changed the policy: %r -> %r' % (
                            nm, v, {k: before_vars[k] for k in before_vars if k not in after_vars or before_vars[k] is not after_vars[k]},
                            {k: after_vars.get(k) for k in before_vars if k not in after_vars or before_vars[k] is not after_vars[k]}))
                if p.type != implied_type(p):
                    problems.append('after %s=%r (%s) type is %r, elements imply %r' % (nm, v, st, p.type, implied_type(p)))
                parts.append('%s %s' % (st, show_state(p.type, snapshot(p, pool))))
            impl = ' | '.join(parts)
        lines.append(line)
        meta.append((desc_case, impl, problems, len(step_ids)))
    _augmented_assignment(ctx, out, rng)
    model = ctx.driver.run(lines) if ctx.driver else [None] * len(lines)
    for line, (desc_case, impl, problems, nsteps), m in zip(lines, meta, model):
        if m == 'bad-op':
            raise Broken('driver rejected: %s' % line[:300])
        out.count('ctor:' + ('ok' if impl.startswith('ok') else impl))
        for pr in problems[:1]:
            f = Failure('oracle', desc_case, impl[:600], m, pr, 'Vakt.C10.history_inv / setattr_reject_unchanged', line=line)
            f.signature = 'oracle'
            out.failures.append(f)
        if not problems and m is not None and m != impl:
            f = Failure('disagreement', desc_case, impl[:800], m[:800], 'model of Policy.__setattr__ over this history',
                        'Vakt.C10.setattr_inv', line=line)
            f.signature = 'model'
            out.failures.append(f)
        if impl.startswith('ok') and nsteps >= 1:
            out.nontriv(line)
            out.traces += 1
            if len(out.samples) < 3 and ' E ' in impl and nsteps >= 3:
                out.samples.append({'ctor': desc_case['ctor'][:300], 'steps': desc_case['steps'][:400], 'impl': impl[:300],
                                    'model': m[:300] if m else m})
    out.rule = ('constructor arguments over string / rule / dict / ill-typed elements in lists, tuples, strings, dicts and '
                'non-iterables (half coherent, half arbitrary), then 0-%d assignments to definition fields, context, type '
                'and other attributes; after every step: exception class, policy.type, and which object each attribute '
                'holds (by identity) compared with the model; direct oracle: type == type implied by the current '
                'elements and a rejected assignment changes nothing; non-trivial = constructed and >=1 assignment' % maxlen)
    out.rule += '; plus augmented assignments and re-assignments of the same list object (accepted iff the elements now are coherent, then the type is the implied one)'
    return out


def replay(ctx, rp):
    m = ctx.driver.run([rp['line']])[0] if ctx.driver and rp.get('line') else None
    return {'model': m, 'impl_recorded': rp.get('impl'), 'still_fails': None,
            'note': 're-run the check with the recorded seed to rebuild the objects of this history'}
