"""C01 - deny-overrides decision with default deny.

Model: Guard.decide (generic in the checker) - theorems in Props/C01.lean.  Correspondence: the same
generated store is asked through the real Guard in three insertion orders and through `vaktdrv`;
the direct oracle recomputes the matching set with four separate calls per policy."""
import proto
from common import Failure, Outcome, Broken
from gen import pick
import polcase

MODULE = 'Props.C01'
THEOREMS = ['Vakt.C01.decide_iff', 'Vakt.C01.decide_no_match', 'Vakt.C01.decide_veto', 'Vakt.C01.decide_raise',
            'Vakt.C01.decide_perm', 'Vakt.C01.decide_uid_irrelevant', 'Vakt.C01.decide_dup',
            'Vakt.C01.allow_exact_constant', 'Vakt.C01.guard_decide_iff']
# Guard.check_context_restriction / check_policies_allow / is_allowed_check, translated from /repo/vakt/guard.py in this
# run (harness/pytolean.py -> lean/Gen/Guard.lean), are the model's ctxOk / decideCore / isAllowed (lean/Gen/EquivGuard.lean)
EXTRA_BUILD = ['+Gen.EquivGuard']
GEN_IMPORTS = ['Gen.EquivGuard']
GEN_THEOREMS = ['Vakt.GenEquiv.gen_check_context_restriction', 'Vakt.GenEquiv.gen_match',
                'Vakt.GenEquiv.gen_check_policies_allow', 'Vakt.GenEquiv.gen_check_policies_allow_lazy',
                'Vakt.GenEquiv.gen_is_allowed_check', 'Vakt.GenEquiv.translatedGuard_covers']
FLOOR = {'quick': 150, 'thorough': 3000}
ASSUMPTIONS = ['policy elements whose tagged segments fall outside the modelled regex subset are judged by the '
               'direct oracle only (counted as unmodelled)']


def _run(ctx):
    out = Outcome()
    rng = ctx.rng
    n = ctx.budget(3000, 150000)
    cases = []
    for _ in range(n):
        case = polcase.gen_store_case(rng)
        try:
            objs, inq = polcase.build_case(case)
        except Exception:
            out.count('unconstructible')
            continue
        idx = list(range(len(objs)))
        perm = idx[:]
        rng.shuffle(perm)
        try:
            line = polcase.decide_line(case, objs, inq)
        except proto.ProtoError:
            out.count('unencodable')
            continue
        cases.append((case, objs, inq, perm, line))
    model = ctx.driver.run([c[4] for c in cases]) if ctx.driver else [None] * len(cases)
    if ctx.driver:
        ctx.driver.echo_check('pol', [polcase.pol_line(p, o) for c in cases[:150] for p, o in zip(c[0]['policies'], c[1])])
        ctx.driver.echo_check('inq', [proto.enc_inquiry_obj(c[2]) for c in cases[:300]])
    for (case, objs, inq, perm, line), m in zip(cases, model):
        out.evaluations += 1
        k = case['k']
        a0 = polcase.real_decision(k, objs, inq)
        a1 = polcase.real_decision(k, objs, inq, order=list(reversed(range(len(objs)))))
        a2 = polcase.real_decision(k, objs, inq, order=perm)
        matches = polcase.direct_matches(k, objs, inq)
        want = polcase.oracle_decision(objs, matches)
        mm = polcase.parse_decide(m)
        desc = {'checker': k, 'policies': [repr(p) for p in case['policies']], 'inquiry': repr(case['inquiry']),
                'matches': matches, 'effects': [repr(o.effect) for o in objs]}
        out.count('checker:' + k)
        out.count('answer:%s' % a0)
        if mm['kind'] == 'bad-op':
            raise Broken('driver rejected a generated line: %s' % line[:300])
        if mm['kind'] == 'unmodelled':
            out.unmodelled += 1
        hit = [o for o, x in zip(objs, matches) if x is True]
        effs = set(repr(o.effect) for o in hit)
        junk = any(o.effect not in ('allow', 'deny') for o in hit)
        nontrivial = len(effs) >= 2 or junk or any(o.context for o in hit)
        if 'raise' in matches:
            out.count('some-policy-raises')
        if len(effs) >= 2:
            out.count('mixed-effects-match')
        if junk:
            out.count('junk-effect-match')
        fail = None
        if not (a0 is a1 is a2) :
            fail = Failure('oracle', desc, {'orders': [a0, a1, a2]}, m, 'answer depends on insertion order',
                           'Vakt.C01.decide_perm', line=line)
            fail.signature = 'order:' + k
        elif a0 is not want:
            fail = Failure('oracle', desc, a0, m, 'direct oracle (matching set by 4 separate calls; non-empty and all '
                           'effects == allow) says %s' % want, 'Vakt.C01.decide_iff / decide_veto', line=line)
            fail.signature = 'oracle:' + k
        elif mm['kind'] == 'ok' and mm['answer'] is not a0:
            fail = Failure('disagreement', desc, a0, m, 'direct oracle says %s' % want, 'Vakt.C01.guard_decide_iff',
                           line=line)
            fail.signature = 'model:' + k
        if fail:
            out.failures.append(fail)
        if nontrivial and mm['kind'] != 'unmodelled':
            out.nontriv(line)
            if len(out.samples) < 4:
                out.samples.append({'line': line[:600], 'impl': a0, 'model': m[:80] if m else m, 'oracle': want,
                                    'matches': matches, 'effects': [repr(o.effect) for o in objs]})
    _mutation_during_decision(ctx, out, rng)
    out.rule = ('inquiry drawn first, 1-6 policies aimed at it (string-based, rule-based or mixed store; junk effects; '
                'context rules; custom tags), asked in 3 insertion orders; non-trivial = matching policies with >=2 '
                'different effects, or a junk effect on a matching policy, or a matching policy with context rules')
    return out


class _MutatingChecker:
    """delegates to a real checker; at its k-th fits call it deletes one stored policy and adds another one"""
    def __init__(self, real, k, action):
        self.real, self.k, self.action, self.calls = real, k, action, 0

    def fits(self, policy, field, what, inquiry=None):
        self.calls += 1
        if self.calls == self.k:
            self.action()
        return self.real.fits(policy, field, what, inquiry)


def _mutation_during_decision(ctx, out, rng):
    """the store changes while a decision is in flight (here: from inside the decision itself, single-threaded):
    a matching non-allow policy that is stored during the whole decision must still veto, and an allow answer needs
    a matching allow policy stored at some point of it.  Concurrent schedules are C14's subject."""
    from vakt.guard import Guard
    from vakt.storage.memory import MemoryStorage
    for _ in range(ctx.budget(250, 8000)):
        case = polcase.gen_store_case(rng, npol=pick(rng, [3, 4, 5, 6]))
        try:
            objs, inq = polcase.build_case(case)
        except Exception:
            continue
        k = case['k']
        extra = objs[-1]
        stored = objs[:-1]
        st = MemoryStorage()
        for o in stored:
            st.add(o)
        victim = rng.randrange(len(stored))

        def action(st=st, victim=stored[victim], extra=extra):
            st.delete(victim.uid)
            st.add(extra)
        ch = _MutatingChecker(polcase.make_checker(k), rng.randint(1, 4), action)
        try:
            a = Guard(st, ch).is_allowed(inq)
        except Exception as e:
            a = 'escaped:' + type(e).__name__
        matches = polcase.direct_matches(k, objs, inq)
        stable_veto = any(m is True and o.effect != 'allow' for i, (o, m) in enumerate(zip(stored, matches))
                          if i != victim)
        some_allow = any(m is True and o.effect == 'allow' for o, m in zip(objs, matches))
        out.evaluations += 1
        out.count('mutation-during-decision:%s' % a)
        why = None
        if a is True and stable_veto:
            why = 'a matching non-allow policy was stored during the whole decision, yet access was granted'
        elif a is True and not some_allow:
            why = 'access granted although no matching allow policy was stored at any point'
        elif a is False and 'raise' not in matches and ch.calls >= ch.k and not stable_veto and \
                polcase.oracle_decision(stored, matches[:-1]) is True and \
                polcase.oracle_decision([o for i, o in enumerate(objs) if i != victim],
                                        [m for i, m in enumerate(matches) if i != victim]) is True:
            why = 'access is granted by the policy set before the change and by the set after it, yet it was denied'
        elif a not in (True, False):
            why = 'exception escaped'
        if why:
            f = Failure('oracle', {'checker': k, 'policies': [repr(p) for p in case['policies']],
                                   'inquiry': repr(case['inquiry']), 'deleted_index': victim,
                                   'added_index': len(objs) - 1, 'at_fits_call': ch.k, 'matches': matches}, a, None, why,
                        'Vakt.C01.decide_veto / decide_iff')
            f.signature = 'mutation-during-decision'
            out.failures.append(f)


def run(ctx):
    # a third of the string inquiry values are instances of a str subclass (an Enum-with-str-mixin member, a tagged
    # string type): they are equal to, and must be matched like, their text
    proto.EXOTIC_STR[0] = True
    try:
        return _run(ctx)
    finally:
        proto.EXOTIC_STR[0] = False


def replay(ctx, rp):
    case = rp['case']
    pols = [eval(p) for p in case['policies']]
    c = {'k': case['checker'], 'policies': pols, 'inquiry': eval(case['inquiry'])}
    objs, inq = polcase.build_case(c)
    a0 = polcase.real_decision(c['k'], objs, inq)
    matches = polcase.direct_matches(c['k'], objs, inq)
    want = polcase.oracle_decision(objs, matches)
    line = polcase.decide_line(c, objs, inq)
    m = ctx.driver.run([line])[0] if ctx.driver else None
    mm = polcase.parse_decide(m)
    return {'impl': a0, 'oracle': want, 'model': m, 'matches': matches,
            'still_fails': a0 is not want or (mm['kind'] == 'ok' and mm['answer'] is not a0)}
