"""C03 - regex policy language: literal text, tagged segments, whole-string match, cache independence."""
import itertools
import re

import proto
from common import Failure, Outcome, Broken
from gen import pick, gen_str, mutate_str, regex_for, CHARS
import polcase
from vakt.checker import RegexChecker
from vakt.parser import compile_regex
from vakt.exceptions import InvalidPatternError

MODULE = 'Props.C03'
THEOREMS = ['Vakt.C03.scan_render', 'Vakt.C03.scan_complete', 'Vakt.C03.pieces_grammar', 'Vakt.C03.decomp_unique',
            'Vakt.C03.unbalanced_never', 'Vakt.C03.untagged_eq', 'Vakt.C03.elem_split',
            'Vakt.C03.compile_cache_transparent', 'Vakt.C03.cache_history_independent', 'Vakt.C03.index_form_eq_scanner',
            'Vakt.Re.accepts_iff']
# RegexChecker.fits and parser.get_tag_indices, translated from /repo in this run (harness/pytolean.py -> lean/Gen/Checkers.lean,
# lean/Gen/Parser.lean), are the model's regexFits / tagIndices (lean/Gen/EquivRegexChecker.lean, lean/Gen/EquivParser.lean)
EXTRA_BUILD = ['+Gen.EquivRegexChecker', '+Gen.EquivParser', '+Gen.EquivCompile']
GEN_IMPORTS = ['Gen.EquivRegexChecker', 'Gen.EquivParser', 'Gen.EquivCompile']
GEN_THEOREMS = ['Vakt.GenEquiv.gen_RegexChecker_fits', 'Vakt.GenEquiv.translatedRegexChecker_covers',
                'Vakt.GenEquiv.gen_get_tag_indices', 'Vakt.GenEquiv.translatedParser_covers',
                # compile_regex itself: the slicing loop over the tag indices, each segment compiled on its own, the assembled pattern
                'Vakt.GenEquiv.gen_compile_regex', 'Vakt.GenEquiv.gen_compile_regex_scan']
FLOOR = {'quick': 3000, 'thorough': 50000}
ASSUMPTIONS = ['segments outside the modelled regex subset (anchors, look-around, back-references, flags, possessive '
               'quantifiers) are judged by the direct oracle only',
               "CPython's re agrees with the model's denotational semantics on the subset: checked differentially, not proved"]


# ------------------------------------------------------------------ model-free oracle

def py_pieces(e, st, et):
    """independent restatement of the grammar Lit (Seg Lit)*; None if unbalanced"""
    out, cur, level = [], '', 0
    for ch in e:
        if ch == st:
            if level == 0:
                out.append(('lit', cur))
                cur = ''
            else:
                cur += ch
            level += 1
        elif ch == et:
            if level == 0:
                return None
            level -= 1
            if level == 0:
                out.append(('seg', cur))
                cur = ''
            else:
                cur += ch
        else:
            cur += ch
    if level != 0:
        return None
    out.append(('lit', cur))
    return out


def oracle_fits_elem(e, v, st, et):
    """True / False / 'invalid' (a segment is not a regular expression: outside the statement)"""
    if st not in e and et not in e:
        return e == v
    ps = py_pieces(e, st, et)
    if ps is None:
        return False
    parts = []
    for kind, text in ps:
        if kind == 'lit':
            parts.append(re.escape(text))
        else:
            try:
                re.compile(text)
            except (re.error, RecursionError, OverflowError):
                return 'invalid'
            parts.append('(?:' + text + ')')
    try:
        return re.fullmatch(''.join(parts), v) is not None
    except (re.error, RecursionError):
        return 'invalid'


def oracle_fits(elems, v, st, et):
    """field level, with the documented fail-closed quirks: an earlier unbalanced element ends the scan"""
    for e in elems:
        if not isinstance(e, str):
            continue
        if st not in e and et not in e:
            if e == v:
                return 'ok T'
            continue
        if py_pieces(e, st, et) is None:
            return 'ok F'
        r = oracle_fits_elem(e, v, st, et)
        if r == 'invalid':
            return 'raise'
        if r:
            return 'ok T'
    return 'ok F'


# ------------------------------------------------------------------ generation

def strip_tags(s, st, et):
    return s.replace(st, '').replace(et, '')


def gen_elem_value(rng, st='<', et='>'):
    """element built from pieces; value derived from the bases the pieces were built on"""
    nseg = pick(rng, [0, 1, 1, 1, 2, 2, 3, 4])
    elem, val = '', ''
    for i in range(nseg + 1):
        lit = strip_tags(gen_str(rng, 4), st, et) if rng.random() < 0.8 else ''
        lit_val = lit
        if nseg and rng.random() < 0.12:
            # literal text that would mean something else if it were read as a regular expression: a repetition count,
            # an alternation, a class, an optional character; the value is the text itself or what the misreading accepts
            lit, misread = pick(rng, [('pool{2}', 'pooll'), ('x{1,3}', 'xx'), ('a{,2}', 'a'), ('a|b', 'a'), ('[ab]', 'a'),
                                      ('ab?', 'a'), ('a.c', 'abc'), ('a+', 'aa'), ('(a)', 'a'), ('a*', ''), ('^a', 'a'),
                                      ('a$', 'a'), ('\\d', '7'), ('a{2}b', 'aab')])
            lit = strip_tags(lit, st, et)
            lit_val = lit if rng.random() < 0.5 else strip_tags(misread, st, et)
        elem += lit
        val += lit_val
        if i < nseg:
            base = strip_tags(gen_str(rng, 4), st, et)
            r = rng.random()
            if r < 0.75:
                seg = strip_tags(regex_for(rng, base), st, et).rstrip('$').lstrip('^')
            elif r < 0.85:
                seg = pick(rng, ['.*', '.+', '[a-z]+', r'\d+', '(a|b)*', '', '.', '[^/]+', r'\w*', '(?:x|y)', 'a{2,3}'])
                base = pick(rng, ['', 'a', 'ab', 'aa', '12', 'x', 'abc/def', 'aaa'])
            elif r < 0.92:
                # nested delimiters inside the segment (balanced)
                seg = pick(rng, ['[%s%s]' % (st, et), 'a%sb%sc' % (st, et), '(%s%s)?' % (st, et),
                                 '%s%s%s%s' % (st, st, et, et)]) if st != et else 'a'
                base = pick(rng, [st, et, 'a' + st + 'b' + et + 'c', '', st + et])
            else:
                seg = pick(rng, ['[', '*', '(', ')', '(?=a)', r'\1', 'a**', '^a', 'a$', '(?i)a', '+', '[z-a]', 'a{2,1}',
                                 '\\'])
            elem += st + seg + et
            val += base
    r = rng.random()
    if r < 0.45:
        pass
    elif r < 0.6:
        val = val + '\n'
    elif r < 0.7:
        val = '\n' + val if rng.random() < 0.3 else val + pick(rng, ['x', ' ', 'a'])
    elif r < 0.9:
        val = mutate_str(rng, val)
    else:
        val = gen_str(rng)
    r = rng.random()
    if r < 0.06:
        elem = pick(rng, [st + elem, elem + et, et + elem + st, elem + st, et, st, st + st + elem + et])
    return elem, val


def field_policy(elems, st, et):
    return {'uid': 1, 'effect': 'allow', 'desc': None, 'stag': st, 'etag': et, 'subjects': [], 'resources': [],
            'actions': [('S', e) for e in elems], 'context': []}


def _run(ctx):
    out = Outcome()
    rng = ctx.rng
    cases = []           # (elems, value, st, et, tag)
    # 1. complete enumeration of a small scope
    alpha = ['a', '<', '>', '.', '\n']
    nel, nval = (4, 3) if ctx.tier == 'quick' else (5, 4)
    els = [''.join(t) for n in range(0, nel + 1) for t in itertools.product(alpha, repeat=n)]
    vals = [''.join(t) for n in range(0, nval + 1) for t in itertools.product(alpha, repeat=n)]
    if ctx.tier == 'quick':
        vals = [v for v in vals if len(v) <= 2] + ['aaa', 'aa\n', '\naa', 'a.a', 'a>a', '>a<', 'a><', '<a>', '>>a', 'a<<']
    for e in els:
        for v in vals:
            cases.append(([e], v, '<', '>', 'enum'))
    n_enum = len(cases)
    # 2. random single-element and multi-element fields
    for _ in range(ctx.budget(5000, 250000)):
        st, et = pick(rng, polcase.TAGS)
        if '«' in (st, et) or st in '()|[]{}' and rng.random() < 0.5:
            st, et = '<', '>'
        e, v = gen_elem_value(rng, st, et)
        elems = [e]
        if rng.random() < 0.25:
            for _ in range(rng.randint(1, 2)):
                e2, _v = gen_elem_value(rng, st, et)
                elems.insert(rng.randint(0, len(elems)), e2)
        cases.append((elems, v, st, et, 'rand'))
    # 2b. segments whose shortest and longest matches differ by a trailing newline (alternation, optional and lazy
    #     quantifiers): whole-string matching must consider every way the segment can match
    for _ in range(ctx.budget(400, 8000)):
        st, et = '<', '>'
        lit = strip_tags(gen_str(rng, 3), st, et) if rng.random() < 0.6 else ''
        base = strip_tags(gen_str(rng, 3), st, et).replace('\n', '') or 'a'
        eb = re.escape(base)
        seg = pick(rng, [eb + '|' + eb + '\n', eb + '\n|' + eb, eb + r'\s??', eb + '\n??', '[^/]+?', '[^/]*?',
                         '(?:' + eb + '|' + eb + '\n)', eb + '(|\n)', r'\w+?\s*?', eb + '[\n]{0,1}?', '(?s).+?',
                         eb + '|' + eb + 'x', eb + 'x??', eb[:1] + '|' + eb])
        elem = lit + st + seg + et
        if rng.random() < 0.3:
            elem += st + pick(rng, ['|\n', '\n??', 'b|\n', r'\s*?']) + et
        v = lit + base + pick(rng, ['\n', '\n', '\n', '', '\n\n', 'x', 'x\n'])
        cases.append(([elem], v, st, et, 'rand'))
    qobj = proto.build_inquiry({'resource': '', 'action': '', 'subject': '', 'context': {}})
    qline = proto.enc_inquiry_obj(qobj)
    lines, objs = [], []
    pcache = {}
    for elems, v, st, et, tag in cases:
        key = (tuple(elems), st, et)
        if key not in pcache:
            pol = field_policy(elems, st, et)
            pobj = proto.build_policy(pol)
            pcache[key] = (pobj, polcase.pol_line(pol, pobj))
        pobj, pl = pcache[key]
        objs.append(pobj)
        lines.append('FITS KR %s a %s %s' % (pl, proto.enc_value(v), qline))
    model = ctx.driver.run(lines) if ctx.driver else [None] * len(lines)

    # checkers with different compile-cache capacities, shared across many lookups (history!)
    caps = [None, 0, 1, 2, 1024]
    shared = {c: RegexChecker(c) for c in caps}
    for i, ((elems, v, st, et, tag), pobj, line, m) in enumerate(zip(cases, objs, lines, model)):
        out.evaluations += 1
        answers = {}
        use = caps if (tag == 'rand' or i % 7 == 0) else [1024, 1]
        for c in use:
            try:
                a = shared[c].fits(pobj, 'actions', proto._exotic(v), qobj)
                answers[c] = 'ok T' if a else 'ok F'
            except Exception as ex:
                answers[c] = 'raise'
        impl = answers[1024]
        want = oracle_fits(elems, v, st, et)
        if m == 'bad-op':
            raise Broken('driver rejected: %s' % line[:300])
        if m == 'unmodelled':
            out.unmodelled += 1
        nseg = sum(len([p for p in (py_pieces(e, st, et) or []) if p[0] == 'seg']) for e in elems)
        out.count('%s:%s' % (tag, impl))
        out.count('segments:%d' % min(nseg, 4))
        desc = {'elements': elems, 'value': v, 'stag': st, 'etag': et}
        fail = None
        if len(set(answers.values())) > 1:
            fail = Failure('oracle', desc, answers, m, 'answers differ between compile-cache capacities / histories',
                           'Vakt.C03.compile_cache_transparent', line=line)
            fail.signature = 'cache'
        elif impl != want and not (want == 'raise' and impl == 'ok F'):
            fail = Failure('oracle', desc, impl, m, 'direct oracle (split into literals and fully matching segments) says '
                           + want, 'Vakt.C03.elem_split / unbalanced_never / untagged_eq', line=line)
            fail.signature = 'oracle'
        elif m not in (None, 'unmodelled') and m != impl:
            fail = Failure('disagreement', desc, impl, m, 'direct oracle says ' + want, 'Vakt.C03.elem_split', line=line)
            fail.signature = 'model'
        if fail:
            try:
                fail.case['compiled'] = [compile_regex(e, st, et).pattern for e in elems]
            except Exception as ex:
                fail.case['compiled'] = repr(ex)
            out.failures.append(fail)
        if m != 'unmodelled' and (nseg >= 1 or impl == 'ok T'):
            out.nontriv(line)
            if len(out.samples) < 4 and tag == 'rand' and nseg >= 2 and impl == 'ok T':
                out.samples.append({'elements': elems, 'value': v, 'tags': st + et, 'impl': impl, 'model': m,
                                    'oracle': want, 'compiled': compile_regex(elems[0], st, et).pattern
                                    if py_pieces(elems[0], st, et) is not None else None})
    # 2c. the index form: get_tag_indices against the model's tagIndices (Props.C03.index_form_eq_scanner ties it
    #     to the scanner).  get_tag_indices is internal: a difference is a broken correspondence, not a failing input
    try:
        from vakt.parser import get_tag_indices
    except Exception:
        get_tag_indices = None
        out.count('get_tag_indices:absent')
    if get_tag_indices is not None and ctx.driver:
        ilines, imeta = [], []
        seen = set()
        for elems, v, st, et, tag in cases:
            for e in elems:
                if (e, st, et) in seen or len(seen) >= ctx.budget(3000, 60000):
                    continue
                seen.add((e, st, et))
                try:
                    got = 'ok ' + ' '.join(str(x) for x in get_tag_indices(e, st, et))
                except InvalidPatternError:
                    got = 'unbalanced'
                except Exception as ex:
                    got = 'raised ' + type(ex).__name__
                ilines.append('TAGIDX %d %d %s' % (ord(st), ord(et), proto.enc_str(e)))
                imeta.append((e, st, et, got))
        for line, (e, st, et, got), m in zip(ilines, imeta, ctx.driver.run(ilines)):
            if m == 'bad-op':
                raise Broken('driver rejected: %s' % line[:300])
            out.traces += 1
            out.count('tagidx:' + got.split(' ')[0])
            if m.strip() != got.strip():
                f = Failure('disagreement', {'element': e, 'stag': st, 'etag': et}, got, m,
                            'get_tag_indices differs from the model of the index form', 'Vakt.C03.index_form_eq_scanner',
                            line=line)
                f.signature = 'model:tagidx'
                f.weak = True
                out.failures.append(f)
    # 3. one checker shared by policies with different tag pairs: the cache key must include the tags
    share_fail = _shared_checker_stream(ctx, out, rng)
    out.failures.extend(share_fail)
    out.exhaustive = True
    out.extra['exhaustive_slice'] = ('all %d elements of length <= %d over {a,<,>,.,\\n} x %d values: %d cases enumerated '
                                     'completely' % (len(els), nel, len(vals), n_enum))
    out.rule = ('complete small scope (see exhaustive_slice) + random elements built from 0-4 pieces with values derived '
                'from the piece bases (exact, +trailing newline, one-point mutations), nested delimiters, custom tag '
                'pairs, malformed and out-of-subset segments; every case asked through 5 shared checkers with cache '
                'capacities None,0,1,2,1024; non-trivial = >=1 tagged segment or a match')
    return out


def _shared_checker_stream(ctx, out, rng):
    fails = []
    qobj = proto.build_inquiry({'resource': '', 'action': '', 'subject': '', 'context': {}})
    for _ in range(ctx.budget(150, 5000)):
        cap = pick(rng, [None, 0, 1, 2, 1024])
        ch = RegexChecker(cap)
        pairs = rng.sample([('<', '>'), ('{', '}'), ('[', ']'), ('(', ')')], 2)
        base = pick(rng, ['a', 'ab', 'x1'])
        (s1, e1), (s2, e2) = pairs
        # the same element text means different things under the two tag pairs
        shape = rng.random()
        if shape < 0.5:
            elem = '%s%s.%s%s%s+%s' % (base, s1, e1, s2, 'z', e2)
            vals = [base + 'q' + s2 + 'z+' + e2, base + s1 + '.' + e1 + 'zz', base + 'qzz', elem, base]
        elif shape < 0.75:
            # unbalanced under the first pair, a well-formed segment under the second
            elem = '%s%s%sz+%s' % (base, s2, s1, e2)
            vals = [base + s1 + 'z', base + s1 + 'zz', base + 'z', elem, base + s2 + s1 + 'z+' + e2]
        else:
            # a malformed regular expression under the first pair, literal text inside a segment of the second
            elem = '%s%s[%s(%s%s]%s' % (base, s2, s1, e1, 'x', e2)
            vals = [base + s1, base + '(', base + 'x', base + e1, elem]
        seq = []
        for _ in range(rng.randint(3, 8)):
            st, et = pick(rng, pairs)
            v = pick(rng, vals)
            seq.append((st, et, v))
        for st, et, v in seq:
            out.evaluations += 1
            pobj = proto.build_policy(field_policy([elem], st, et))
            try:
                a = 'ok T' if ch.fits(pobj, 'actions', proto._exotic(v), qobj) else 'ok F'
            except Exception:
                a = 'raise'
            want = oracle_fits([elem], v, st, et)
            out.count('shared:' + a)
            if a != want and not (want == 'raise' and a == 'ok F'):
                f = Failure('oracle', {'elements': [elem], 'value': v, 'stag': st, 'etag': et, 'cache': cap,
                                       'history': seq}, a, None,
                            'one checker shared by policies with different tag pairs: direct oracle says ' + want,
                            'Vakt.C03.compile_cache_transparent')
                f.signature = 'shared-cache'
                fails.append(f)
            out.nontriv('shared %r %r %r %r' % (elem, st, v, cap))
    return fails


def run(ctx):
    # a third of the string inquiry values are instances of a str subclass (an Enum-with-str-mixin member, a tagged
    # string type): they are equal to, and must be matched like, their text
    proto.EXOTIC_STR[0] = True
    try:
        return _run(ctx)
    finally:
        proto.EXOTIC_STR[0] = False


def replay(ctx, rp):
    c = rp['case']
    elems, v, st, et = c['elements'], c['value'], c['stag'], c['etag']
    pobj = proto.build_policy(field_policy(elems, st, et))
    qobj = proto.build_inquiry({'resource': '', 'action': '', 'subject': '', 'context': {}})
    try:
        impl = 'ok T' if RegexChecker().fits(pobj, 'actions', v, qobj) else 'ok F'
    except Exception:
        impl = 'raise'
    want = oracle_fits(elems, v, st, et)
    m = ctx.driver.run([rp['line']])[0] if ctx.driver and rp.get('line') else None
    return {'impl': impl, 'oracle': want, 'model': m,
            'still_fails': (impl != want and not (want == 'raise' and impl == 'ok F')) or
                           (m not in (None, 'unmodelled') and m != impl)}
