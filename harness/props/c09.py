"""C09 - persisted policies keep their meaning."""
import json
import pickle
import re

import proto
from common import Failure, Outcome, Broken
from gen import pick, gen_str, gen_value, gen_atom, mutate_value
from genrules import gen_policy, gen_inquiry, gen_rule
import polcase
import stores
from vakt.policy import Policy
from vakt.guard import Guard, Inquiry
from vakt.exceptions import PolicyCreationError, InvalidPatternError
from vakt.rules.base import Rule
from vakt.rules import Eq, Any

MODULE = 'Props.C09'
THEOREMS = ['Vakt.C09.decode_no_uid_refused', 'Vakt.C09.decode_type_ignored', 'Vakt.C09.decode_missing_effect_deny',
            'Vakt.C09.decode_empty_effect_deny', 'Vakt.C09.decode_legacy_rules_to_context', 'Vakt.C09.decode_context_wins',
            'Vakt.C09.decode_unknown_field_refused', 'Vakt.C09.value_roundtrip', 'Vakt.C09.policy_roundtrip_partial',
            'Vakt.C09.rule_classes_distinct', 'Vakt.C09.rule_roundtrip', 'Vakt.C09.rule_meaning_preserved',
            'Vakt.C09.elem_roundtrip', 'Vakt.C09.policy_roundtrip', 'Vakt.C09.policy_meaning_preserved',
            'Vakt.C09.stored_type_irrelevant',
            'Vakt.C09.codec_probes_ok',
            'Vakt.C09.mongo_roundtrip', 'Vakt.C09.mongo_id_is_uid', 'Vakt.C09.mongo_update_roundtrip',
            'Vakt.C09.mongo_compile_failure', 'Vakt.C09.sql_roundtrip', 'Vakt.C09.sql_roundtrip_exact',
            'Vakt.C09.sql_meaning_preserved', 'Vakt.C09.sql_int_uid_comes_back_as_text', 'Vakt.C09.sql_compile_failure']
EXTRA_IMPORTS = ['Props.C09Codec', 'Props.C09Storage']
# obligations over what was translated from /repo/vakt/policy.py in this run: Policy.from_json - no uid: refused; `context` wins
# over the deprecated `rules`; a stored `type` is dropped before the constructor sees it - is the model's fromDoc
# (lean/Gen/EquivPolicyJson.lean)
EXTRA_BUILD = ['+Gen.EquivPolicyJson']
GEN_IMPORTS = ['Gen.EquivPolicyJson']
GEN_THEOREMS = ['Vakt.GenEquiv.gen_from_json', 'Vakt.GenEquiv.fromDocD_eq', 'Vakt.GenEquiv.translatedPolicyJson_covers']
FLOOR = {'quick': 300, 'thorough': 5000}
ASSUMPTIONS = ['the codec theorems (rule_roundtrip, policy_roundtrip) are about the JSON text jsonpickle writes, as modelled in '
               'RuleCodec and compared with the real text on every run; the Mongo document and the SQL row layers on top of '
               'that text (compiled-regex arrays, _id, $set update, typed child rows, Boolean effect, textual uid) are '
               'modelled in StorageCodec, proved to read back what was written, and compared with what the storages really '
               'keep (fake Mongo client, SQLite); pickle and the Redis fake are judged by the direct oracle only',
               'Policy subclasses with custom tags lose their class through SQL / Mongo / Redis-JSON by construction of '
               'those paths and are outside the domain']
PATHS = ['json', 'pickle', 'sqlite', 'redis-json', 'redis-pickle', 'mongo', 'mongo40',
         'sqlite+update', 'mongo+update', 'redis-json+update',
         # read back as a candidate of a search (find_for_inquiry with a checker that selects by the inquiry)
         'sqlite+find', 'sqlite-regex+find', 'mongo+find', 'mongo40+find', 'redis-json+find']


def json_safe_rule(r):
    """rules whose arguments survive JSON (no user doubles, hashable set members representable)"""
    t = r[0]
    if t in ('raise', 'const'):
        return False
    if t in ('and', 'or'):
        return all(json_safe_rule(x) for x in r[1])
    if t == 'not':
        return json_safe_rule(r[1])
    return True


def strip_unsafe(p):
    def fix_rule(r):
        return r if json_safe_rule(r) else ('any',)

    def fix_elem(e):
        if e[0] == 'R':
            return ('R', fix_rule(e[1]))
        if e[0] == 'A':
            return ('A', [(k, fix_rule(a) if a[0] != 'junk' else ('neither',)) for k, a in e[1]])
        return e
    q = dict(p)
    for f in ('subjects', 'resources', 'actions'):
        q[f] = [fix_elem(e) for e in p[f]]
    q['context'] = [(k, fix_rule(a) if a[0] != 'junk' else ('neither',)) for k, a in p['context']]
    q['stag'], q['etag'] = '<', '>'
    return q


def build_with_sharing(rng, p):
    """real Policy; with some probability the same rule instance / list object is used in several places"""
    obj = proto.build_policy(p)
    r = rng.random()
    if r < 0.25 and obj.context:
        shared = next(iter(obj.context.values()))
        kw = dict(subjects=list(obj.subjects), resources=list(obj.resources), actions=list(obj.actions))
        if obj.type == 2:
            kw['subjects'] = kw['subjects'] + [shared, {'again': shared}]
            ctx = dict(obj.context)
            ctx['again'] = shared
            obj = Policy(obj.uid, effect=obj.effect, description=obj.description, context=ctx, **kw)
        else:
            ctx = dict(obj.context)
            ctx['again'] = shared
            ctx['and again'] = shared
            obj = Policy(obj.uid, effect=obj.effect, description=obj.description, context=ctx, **kw)
    elif r < 0.35 and obj.subjects:
        lst = list(obj.subjects)
        obj = Policy(obj.uid, effect=obj.effect, description=obj.description, context=obj.context,
                     subjects=lst, resources=lst, actions=lst)
    elif r < 0.42:
        obj = Policy(obj.uid, effect=obj.effect, description=obj.description, context=obj.context,
                     subjects=tuple(obj.subjects), resources=tuple(obj.resources), actions=tuple(obj.actions))
    elif r < 0.52:
        # a context restriction of a user's own class that has `satisfied` but does not derive from vakt's Rule
        ctx = dict(obj.context)
        ctx[pick(rng, ['duck', 'ip', 'k'])] = proto.DuckRule(pick(rng, [1, 'x', None, [1, 2]]))
        obj = Policy(obj.uid, effect=obj.effect, description=obj.description, context=ctx,
                     subjects=list(obj.subjects), resources=list(obj.resources), actions=list(obj.actions))
    elif r < 0.6:
        # context keys made of characters that look like the ones some stores reserve (FULLWIDTH FULL STOP, FULLWIDTH DOLLAR
        # SIGN, a plain dollar sign inside the key): a key is text, it comes back code point by code point
        ctx = dict(obj.context)
        for key in rng.sample(['v\uff0e1', '\uff04set', 'a\uff0eb\uff0ec', 'x\uff04', '\uff0e', 'a$b', '\uff04\uff0e'], 2):
            ctx[key] = Eq(pick(rng, [1, 'x']))
        obj = Policy(obj.uid, effect=obj.effect, description=obj.description, context=ctx,
                     subjects=list(obj.subjects), resources=list(obj.resources), actions=list(obj.actions))
    return obj


def through(path, obj, q=None, rng=None):
    """write the policy and read it back through one persistence path"""
    if path.endswith('+find'):
        st = stores.make_base(path.split('+')[0])
        st.add(obj)
        k = pick(rng, ['KX', 'KF', 'KR']) if obj.type == 1 else 'KU'
        try:
            found = [p for p in st.find_for_inquiry(q, polcase.make_checker(k)) if p.uid == obj.uid or p.uid == str(obj.uid)]
        except Exception:
            found = []          # a search that fails is C07's subject (the recorded Mongo >= 4.2 finding), not a read-back
        # not among the candidates of this inquiry: nothing to compare on this path (C07 judges candidate sets)
        return found[0] if found else st.get(obj.uid)
    if path == 'json':
        return Policy.from_json(obj.to_json())
    if path == 'pickle':
        return pickle.loads(pickle.dumps(obj))
    if path.endswith('+update'):
        # the uid first holds a policy of the OTHER kind, then is updated to this one
        st = stores.make_base(path.split('+')[0])
        if obj.type == 1:
            first = Policy(obj.uid, subjects=[Eq('x')], actions=[{'a': Any()}], resources=[Any()], effect='deny',
                           context={'old': Eq(1)}, description='old')
        else:
            first = Policy(obj.uid, subjects=['old<.*>'], actions=['a'], resources=['r', 'r2'], effect='deny',
                           context={'old': Eq(1)}, description='old')
        st.add(first)
        st.update(obj)
        return st.get(obj.uid)
    st = stores.make_base(path)
    st.add(obj)
    return st.get(obj.uid)


def probes(rng, p):
    """inquiries derived from the policy: one aimed at it, several one-point mutations"""
    base = {'resource': gen_str(rng), 'action': gen_str(rng), 'subject': gen_str(rng), 'context': {}}
    out = []
    for _ in range(6):
        q = gen_inquiry(rng, dictish=(p['subjects'] and p['subjects'][0][0] != 'S'))
        out.append(q)
    return out


def aimed_case(rng):
    """(policy, probe inquiries) with the policy aimed at the first probe"""
    kind = pick(rng, ['str', 'rule', 'rule'])
    q0 = gen_inquiry(rng, dictish=None if kind == 'rule' else False)
    if kind == 'str':
        for f in ('resource', 'action', 'subject'):
            if not isinstance(q0[f], str):
                q0[f] = gen_str(rng)
    uid = pick(rng, ['p1', 'uid-1', 'Ü', 'a b', '1', 'p2', 'p3', 7, 42])
    if kind == 'str' and rng.random() < 0.12:
        # text that is not NFC-normalised (a combining mark, the OHM SIGN): stored and matched code point by code point
        from gen import NON_NFC
        q0[pick(rng, ['resource', 'action', 'subject'])] = pick(rng, NON_NFC) + pick(rng, ['', 'x', ':1'])
    p = strip_unsafe(gen_policy(rng, uid, q0, kind, hit=True))
    p['effect'] = pick(rng, ['allow', 'allow', 'deny', 'ALLOW', 'permit'])
    p['desc'] = pick(rng, [None, 'd', 'Описание', ''])
    if kind == 'rule' and rng.random() < 0.2:
        # a regular-expression rule aimed at a text of the inquiry, with `.` in place of one of its characters
        import re as _re
        ctxq = q0['context'] if isinstance(q0['context'], dict) else {}
        texts = [(k, v) for k, v in ctxq.items() if isinstance(v, str) and len(v) >= 2]
        if not texts:
            q0['context'] = dict(ctxq, note='ab:cd')
            texts = [('note', 'ab:cd')]
        key, text = pick(rng, texts)
        i = rng.randrange(len(text))
        pat = _re.escape(text[:i]) + pick(rng, ['.', '.', '.+', '.*', '[^x]']) + _re.escape(text[i + 1:]) + pick(rng, ['', '$'])
        p['context'] = [(k2, r2) for k2, r2 in p['context'] if k2 != key] + [(key, ('regex', pat))]
    if kind == 'rule' and rng.random() < 0.1:
        # a non-finite float as a rule argument ("no upper bound"): written as the JSON token Infinity and read back
        inf = float('inf')
        ctxq = dict(q0['context']) if isinstance(q0['context'], dict) else {}
        ctxq['zz_bound'] = pick(rng, [5, 10 ** 9, 2.5])
        q0['context'] = ctxq
        p['context'] = [(k2, r2) for k2, r2 in p['context'] if k2 != 'zz_bound'] + \
            [('zz_bound', pick(rng, [('le', inf), ('lt', inf), ('gt', -inf), ('ne', inf), ('not', ('ge', inf))]))]
    qs = [q0]
    for _ in range(6):
        m = dict(q0)
        f = pick(rng, ['resource', 'action', 'subject', 'context'])
        m[f] = mutate_value(rng, q0[f]) if f != 'context' else (mutate_value(rng, q0[f]) if isinstance(q0[f], dict) else {})
        qs.append(m)
    qs.append(gen_inquiry(rng))
    if "('regex'" in repr(p):
        # a regular-expression rule: values with a line break in place of one character (flags of a compiled pattern -
        # DOTALL, MULTILINE - decide what `.`, `^`, `$` do there, and must survive the round trip with the pattern)
        import re as _re
        pats = _re.findall(r"\('regex', '((?:[^'\\\\]|\\\\.)*)'", repr(p))
        wild = any(_re.search(r'(?<!\\\\)(?:\\\\\\\\)*[.^$]', x) for x in pats)
        qs.extend(_newline_probes(rng, q0, every=wild))
    return p, qs


def _newline_probes(rng, q0, n=4, every=False):
    """every=True (a pattern with `.`, `^` or `$`): the line break at every position of every text of the inquiry"""
    leaves = []
    for f in ('resource', 'action', 'subject', 'context'):
        v = q0[f]
        if isinstance(v, str) and v:
            leaves.append((f, None))
        elif isinstance(v, dict):
            leaves.extend((f, k) for k, x in v.items() if isinstance(x, str) and x)
    out = []
    if every:
        plan = [(f, k, i) for f, k in leaves for i in range(len(q0[f] if k is None else q0[f][k]))][:40]
    else:
        plan = []
        for _ in range(n if leaves else 0):
            f, k = pick(rng, leaves)
            plan.append((f, k, rng.randrange(len(q0[f] if k is None else q0[f][k]))))
    for f, k, i in plan:
        m = dict(q0)
        text = q0[f] if k is None else q0[f][k]
        new = text[:i] + '\n' + text[i + 1:]
        if k is None:
            m[f] = new
        else:
            m[f] = dict(q0[f])
            m[f][k] = new
        out.append(m)
    return out


def meaning(obj, qs_objs):
    """how the policy answers the probes under every checker: fits per field + context + decision"""
    res = []
    for k in ('KR', 'KX', 'KF', 'KU'):
        ch = polcase.make_checker(k)
        for q in qs_objs:
            row = []
            for fld, val in (('actions', q.action), ('subjects', q.subject), ('resources', q.resource)):
                try:
                    row.append(bool(ch.fits(obj, fld, val, q)))
                except Exception:
                    row.append('raise')
            try:
                row.append(bool(polcase.ctx_direct(obj, q)))
            except Exception:
                row.append('raise')
            res.append(tuple(row))
    return res


def run(ctx):
    out = Outcome()
    rng = ctx.rng
    n = ctx.budget(400, 15000)
    # corpus: the recorded witness of the known uid-type finding is re-executed on every run
    w = Policy(7, actions=['a'], subjects=['s'], resources=['r'], effect='allow')
    try:
        wb = through('sqlite', w)
    except Exception as e:
        wb = None
        f = Failure('oracle', {'path': 'sqlite', 'policy': "Policy(7, actions=['a'], subjects=['s'], resources=['r'], effect='allow')"},
                    '%s: %s' % (type(e).__name__, str(e)[:200]), None, 'writing / reading the policy back raised',
                    'Vakt.C09.policy_roundtrip')
        f.signature = 'raised:sqlite'
        out.failures.append(f)
    if wb is not None and not isinstance(wb, Policy):
        wb = None
    if wb is None:
        pass
    elif wb.uid != 7 or type(wb.uid) is not int:
        f = Failure('oracle', {'path': 'sqlite', 'policy': "Policy(7, actions=['a'], subjects=['s'], resources=['r'], effect='allow')"},
                    ['uid 7 -> %r' % (None if wb is None else wb.uid,)], None, 'uid type not preserved',
                    'Vakt.C09.policy_roundtrip_partial')
        f.signature = 'uid-type:sqlite' if wb is not None and wb.uid == '7' else 'meaning:sqlite'
        out.failures.append(f)
    for _ in range(n):
        p, qs = aimed_case(rng)
        try:
            obj = build_with_sharing(rng, p)
            qobjs = [proto.build_inquiry(q) for q in qs]
        except Exception:
            out.count('unconstructible')
            continue
        m0 = meaning(obj, qobjs)
        for path in PATHS:
            out.evaluations += 1
            out.count('path:' + path)
            desc = {'path': path, 'policy': repr(p), 'shared_objects': obj is not None}
            try:
                back = through(path, obj, qobjs[0], rng)
            except (InvalidPatternError, re.error):
                out.count('rejected-by-backend:' + path)      # a malformed element: SQL / Mongo refuse to store it (C08)
                continue
            except Exception as e:
                f = Failure('oracle', desc, '%s: %s' % (type(e).__name__, str(e)[:200]), None,
                            'writing / reading the policy back raised', 'Vakt.C09.policy_roundtrip_partial')
                f.signature = 'raised:' + path
                out.failures.append(f)
                continue
            if back is None or not isinstance(back, Policy):
                f = Failure('oracle', desc, repr(back)[:100], None, 'the stored policy cannot be read back (got %s)'
                            % type(back).__name__, 'Vakt.C09.policy_roundtrip')
                f.signature = 'lost:' + path
                out.failures.append(f)
                continue
            probs = []
            uid_only = False
            if back.uid != obj.uid or type(back.uid) is not type(obj.uid):
                probs.append('uid %r -> %r' % (obj.uid, back.uid))
                uid_only = not isinstance(obj.uid, str) and back.uid == str(obj.uid)
            canonical = obj.effect in ('allow', 'deny')
            if canonical and back.effect != obj.effect:
                probs.append('effect %r -> %r' % (obj.effect, back.effect))
            if (back.effect == 'allow') != (obj.effect == 'allow'):
                probs.append('allow-ness changed: effect %r -> %r' % (obj.effect, back.effect))
            if back.description != obj.description:
                probs.append('description %r -> %r' % (obj.description, back.description))
            if back.type != obj.type:
                probs.append('type %r -> %r' % (obj.type, back.type))
            if set(back.context) != set(obj.context):
                probs.append('context keys %r -> %r' % (sorted(obj.context), sorted(back.context)))
            if not probs:
                m1 = meaning(back, qobjs)
                if m1 != m0:
                    i = next(j for j, (a, b) in enumerate(zip(m0, m1)) if a != b)
                    k = ('KR', 'KX', 'KF', 'KU')[i // len(qobjs)]
                    probs.append('matches differently after the round trip: checker %s, probe %r: (actions, subjects, '
                                 'resources, context) %r -> %r' % (k, qs[i % len(qobjs)], m0[i], m1[i]))
            if probs:
                f = Failure('oracle', desc, probs, None, probs[0], 'Vakt.C09.policy_roundtrip_partial')
                base = path.split('+')[0]
                base = 'sqlite' if base.startswith('sqlite') else base      # one storage class, one uid column
                f.signature = ('uid-type:' if uid_only and len(probs) == 1 else 'meaning:') + base
                out.failures.append(f)
        # a policy object that is written, changed in place (no attribute assignment) and written again: what is read
        # back must be the policy as it stood at the second write
        if rng.random() < 0.5:
            _inplace_rewrite(out, rng, p, obj, qobjs, qs)
        out.nontriv(repr(p))
        if len(out.samples) < 3 and any(True in r for r in m0):
            out.samples.append({'policy': repr(p)[:400], 'probes': len(qs), 'paths': PATHS,
                                'matching_rows': sum(1 for r in m0 if all(x is True for x in r))})
    _bare_string_fields(ctx, out, rng)
    _decoding_clauses(ctx, out, rng)
    _codec_correspondence(ctx, out, rng)
    _storage_codec_correspondence(ctx, out, rng)
    out.rule = ('policies aimed at a probe inquiry (string- and rule-based, nested compositions, tuples, sets, regex rules, '
                'non-ASCII text, the same rule instance / list object used in several places, tuple-valued fields) pushed '
                'through JSON text, pickle, SQL rows on SQLite, fake-Redis with both serializers and fake-Mongo (4.0 / 4.4) '
                'and read back; uid, effect, description, type, context keys compared and the original and restored policy '
                'asked the same 8 derived probes under all four checkers (per-field fits + context); plus generated JSON '
                'documents with missing / extra / legacy fields decoded by Policy.from_json and by the model')
    out.rule += '; a tenth of the policies carry a context restriction of a user class that has satisfied() but does not derive from Rule; a stream of policies with a definition field given as one bare string (its characters are the elements); a twelfth of the policies have context keys containing U+FF0E / U+FF04 / an inner dollar sign'
    return out


def _inplace_rewrite(out, rng, p, obj, qobjs, qs):
    import copy
    path = pick(rng, ['json', 'sqlite', 'mongo', 'redis-json', 'redis-pickle', 'memory'])
    try:
        o2 = copy.deepcopy(obj)
    except Exception:
        return
    out.evaluations += 1
    out.count('inplace:' + path)
    desc = {'path': path + ' (write, change in place, write again)', 'policy': repr(p)}
    try:
        if path == 'json':
            o2.to_json()
        else:
            st = stores.make_base(path)
            st.add(o2)
        # the change: one more context restriction, and the first list-valued field loses its last element
        change = []
        o2.context['zz_added'] = Eq('never-equal-to-this')
        change.append("context['zz_added'] = Eq(..)")
        for fld in ('subjects', 'resources', 'actions'):
            v = getattr(o2, fld)
            if isinstance(v, list) and len(v) >= 2:
                v.pop()
                change.append('%s.pop()' % fld)
                break
        desc['change'] = change
        if path == 'json':
            back = Policy.from_json(o2.to_json())
        else:
            st.update(o2)
            back = st.get(o2.uid)
    except (InvalidPatternError, re.error):
        return
    except Exception as e:
        f = Failure('oracle', desc, '%s: %s' % (type(e).__name__, str(e)[:200]), None,
                    'writing / reading the policy back raised', 'Vakt.C09.policy_roundtrip')
        f.signature = 'raised-inplace:' + path
        out.failures.append(f)
        return
    if back is None or not isinstance(back, Policy):
        f = Failure('oracle', desc, repr(back)[:100], None, 'the stored policy cannot be read back', 'Vakt.C09.policy_roundtrip')
        f.signature = 'lost-inplace:' + path
        out.failures.append(f)
        return
    probs = []
    if set(back.context) != set(o2.context):
        probs.append('context keys %r -> %r' % (sorted(o2.context), sorted(back.context)))
    elif meaning(back, qobjs) != meaning(o2, qobjs):
        probs.append('matches differently from the policy as it stood at the second write')
    if probs:
        f = Failure('oracle', desc, probs, None, probs[0], 'Vakt.C09.policy_roundtrip (the document written is the policy at the time of writing)')
        f.signature = 'meaning-inplace:' + path
        out.failures.append(f)


def _jkey(x):
    return json.dumps(x, sort_keys=True, ensure_ascii=False)


def _sort_sets_json(x):
    """a decoded JSON document with the member list of every py/set in one canonical order"""
    if isinstance(x, dict):
        if set(x) == {'py/set'} and isinstance(x['py/set'], list):
            return {'py/set': sorted((_sort_sets_json(y) for y in x['py/set']), key=_jkey)}
        return {k: _sort_sets_json(v) for k, v in x.items()}
    if isinstance(x, list):
        return [_sort_sets_json(y) for y in x]
    return x


class _Dup(Exception):
    pass


def _sort_sets_spec(r):
    """the abstract rule with set-valued arguments in the same canonical order; _Dup if Python's set() would merge
    two of the members (1 / 1.0 / True): the model keeps a list and is not compared then"""
    import jsonpickle
    t = r[0]
    if t in ('in', 'nin', 'allin', 'allnin', 'anyin', 'anynin'):
        data = list(r[1])
        if len(set(data)) != len(data):
            raise _Dup()
        return (t, sorted(data, key=lambda v: _jkey(json.loads(jsonpickle.encode(v)))))
    if t in ('and', 'or'):
        return (t, [_sort_sets_spec(x) for x in r[1]])
    if t == 'not':
        return (t, _sort_sets_spec(r[1]))
    return r


def _sort_sets_policy(p):
    def elem(e):
        if e[0] == 'R':
            return ('R', _sort_sets_spec(e[1]))
        if e[0] == 'A':
            return ('A', [(k, _sort_sets_spec(a)) for k, a in e[1]])
        return e
    q = dict(p)
    for f in ('subjects', 'resources', 'actions'):
        q[f] = [elem(e) for e in p[f]]
    q['context'] = [(k, _sort_sets_spec(a)) for k, a in p['context']]
    return q


def _codec_correspondence(ctx, out, rng):
    """the model's rule / policy codec (RuleCodec.enc*, dec*) against what vakt really writes and reads:
    POLENC: model encoding of the policy == the JSON document Policy.to_json() writes (key order and set member
    order canonicalised, stored type ignored); POLDEC: the model's decoding of that real document == the policy;
    RULEENC / RULEDEC: the same for single deeply nested rules"""
    lines, meta = [], []
    for _ in range(ctx.budget(300, 8000)):
        if rng.random() < 0.6:
            p, _qs = aimed_case(rng)
            try:
                p = _sort_sets_policy(p)
                obj = proto.build_policy(p)
                doc = _sort_sets_json(json.loads(obj.to_json()))
                pl = polcase.pol_line(p, obj)
                d0 = dict(doc)
                d0['type'] = None
                lines += ['POLENC ' + pl, 'CANON ' + proto.enc_value(d0),
                          'POLDEC 60 62 ' + proto.enc_value(doc), 'ECHO pol ' + pl]
                meta.append(('policy', repr(p), _jkey(doc)[:600]))
            except (_Dup, proto.ProtoError, TypeError):
                out.count('codec:skipped')
            except Exception:
                out.count('codec:unconstructible')
        else:
            q = gen_inquiry(rng)
            r = gen_rule(rng, q[pick(rng, ['subject', 'action', 'resource'])], q, depth=pick(rng, [1, 2, 3, 4]))
            if not json_safe_rule(r):
                continue
            try:
                r = _sort_sets_spec(r)
                obj = proto.build_rule(r)
                doc = _sort_sets_json(json.loads(obj.to_json()))
                rl = proto.enc_rule(r)
                lines += ['RULEENC ' + rl, 'CANON ' + proto.enc_value(doc), 'RULEDEC ' + proto.enc_value(doc), 'ECHO rule ' + rl]
                meta.append(('rule', repr(r), _jkey(doc)[:600]))
            except (_Dup, proto.ProtoError, TypeError):
                out.count('codec:skipped')
            except Exception:
                out.count('codec:unconstructible')
    res = ctx.driver.run(lines) if ctx.driver else []
    for i, (kind, spec, doc) in enumerate(meta):
        if not res:
            break
        enc, canon, dec, echo = res[4 * i: 4 * i + 4]
        if 'bad-op' in (enc, canon, dec, echo):
            raise Broken('driver rejected a codec line: %s' % lines[4 * i + [enc, canon, dec, echo].index('bad-op')][:300])
        out.evaluations += 1
        out.count('codec:' + kind)
        if enc == 'unmodelled':
            out.unmodelled += 1
            continue
        out.traces += 1
        why = None
        if enc != canon:
            why = 'the model writes %s, vakt writes %s' % (enc[:300], canon[:300])
        elif dec == 'none' or dec.split(' ', 1)[1] != echo.split(' ', 2)[2]:
            why = 'the model reads the document vakt wrote as %s, the %s is %s' % (dec[:300], kind, echo[:300])
        if why:
            f = Failure('disagreement', {'kind': kind, 'spec': spec, 'document': doc}, doc, enc[:400], why,
                        'Vakt.C09.policy_roundtrip / rule_roundtrip (codec model vs jsonpickle)', line=lines[4 * i])
            f.signature = 'codec:' + kind
            f.weak = True           # the JSON text itself is not prescribed by the property, only what is read back
            out.failures.append(f)


def _sql_raw_row(st, uid):
    """the stored row and child rows of one policy, as plain data (JSON columns decoded once more: vakt stores JSON text)"""
    from vakt.storage.sql.model import PolicyModel
    st.session.expire_all()
    ms = [m for m in st.session.query(PolicyModel).all() if m.uid == uid or m.uid == str(uid)]
    if len(ms) != 1:
        return None
    m = ms[0]

    def child(rows, name):
        return [[None if getattr(x, name) is None else _sort_sets_json(json.loads(getattr(x, name))),
                 getattr(x, name + '_string'), getattr(x, name + '_regex')] for x in rows]
    return {'uid': m.uid, 'type': m.type, 'description': m.description, 'effect': bool(m.effect),
            'context': _sort_sets_json(json.loads(m.context)), 'subjects': child(m.subjects, 'subject'),
            'resources': child(m.resources, 'resource'), 'actions': child(m.actions, 'action')}


def _storage_codec_correspondence(ctx, out, rng):
    """the model's storage codecs (StorageCodec.mongoDoc / setAll / fromMongoDoc, toRow / toPolicy, compileText) against
    what MongoStorage and SQLStorage really keep: MONGODOC - the document after add; MONGOUPD - the document after add of
    another policy and update to this one ($set keeps what the old document had); MONGOREAD - the model's reading of
    that real document; SQLROW / SQLREAD - the same for the row and child rows; the *_compiled_regex / *_regex texts are
    part of the comparison.  A weak tie: the stored representation is not prescribed by the property."""
    lines, meta = [], []

    def canon_line(v):
        return 'CANON ' + proto.enc_value(v)

    for _ in range(ctx.budget(120, 3000)):
        p, _qs = aimed_case(rng)
        p0, _q0 = aimed_case(rng)
        p0['uid'] = p['uid']
        if rng.random() < 0.3:
            # a tagged element that does not compile: both storages must refuse the whole mutation
            fld = pick(rng, ['subjects', 'resources', 'actions'])
            if p[fld] and p[fld][0][0] == 'S':
                p[fld] = list(p[fld]) + [('S', pick(rng, ['a<b', 'x<(>y', '<a>>', '<[>', 'ok<.*>', '<a|b>-<\\d+>']))]
        try:
            p, p0 = _sort_sets_policy(p), _sort_sets_policy(p0)
            obj, obj0 = proto.build_policy(p), proto.build_policy(p0)
            pl, pl0 = polcase.pol_line(p, obj), polcase.pol_line(p0, obj0)
        except (_Dup, proto.ProtoError, TypeError):
            out.count('storage-codec:skipped')
            continue
        except Exception:
            out.count('storage-codec:unconstructible')
            continue
        norm = dict(p, uid=str(obj.uid) if isinstance(obj.uid, int) and not isinstance(obj.uid, bool) else obj.uid,
                    effect='allow' if obj.effect == 'allow' else 'deny')
        try:
            echo_same = 'ECHO pol ' + polcase.pol_line(p, obj)
            echo_norm = 'ECHO pol ' + proto.enc_policy(norm)
        except proto.ProtoError:
            continue
        # ---- Mongo
        for upd in (False, True):
            st = stores.make_base('mongo')
            try:
                if upd:
                    st.add(obj0)
                    st.update(obj)
                else:
                    st.add(obj)
                raw = st.collection.find_one({'_id': obj.uid})
                raw = None if raw is None else _sort_sets_json(raw)
                status = 'stored'
            except (InvalidPatternError, re.error):
                raw, status = None, 'refused'
            except Exception as e:
                raw, status = None, 'raised %s' % type(e).__name__
            try:
                if raw is not None:
                    lines += [('MONGOUPD %s %s' % (pl0, pl)) if upd else ('MONGODOC ' + pl), canon_line(raw),
                              'MONGOREAD 60 62 ' + proto.enc_value(raw), echo_same]
                else:
                    lines += [('MONGOUPD %s %s' % (pl0, pl)) if upd else ('MONGODOC ' + pl), 'ECHO val N', 'ECHO val N', 'ECHO val N']
                meta.append(('mongo-update' if upd else 'mongo', repr(p), status, _jkey(raw)[:500] if raw is not None else None))
            except proto.ProtoError:
                out.count('storage-codec:skipped')
        # ---- SQL
        st = stores.make_base('sqlite')
        try:
            st.add(obj)
            raw = _sql_raw_row(st, obj.uid)
            status = 'stored'
        except (InvalidPatternError, re.error):
            raw, status = None, 'refused'
        except Exception as e:
            raw, status = None, 'raised %s' % type(e).__name__
        try:
            if raw is not None:
                lines += ['SQLROW ' + pl, canon_line(raw), 'SQLREAD 60 62 ' + proto.enc_value(raw), echo_norm]
            else:
                lines += ['SQLROW ' + pl, 'ECHO val N', 'ECHO val N', 'ECHO val N']
            meta.append(('sql', repr(p), status, _jkey(raw)[:500] if raw is not None else None))
        except proto.ProtoError:
            out.count('storage-codec:skipped')
    res = ctx.driver.run(lines) if ctx.driver else []
    for i, (kind, spec, status, doc) in enumerate(meta):
        if not res:
            break
        enc, canon, dec, echo = res[4 * i: 4 * i + 4]
        if 'bad-op' in (enc, canon, dec, echo):
            raise Broken('driver rejected a storage codec line: %s' % lines[4 * i + [enc, canon, dec, echo].index('bad-op')][:300])
        out.evaluations += 1
        out.count('storage-codec:%s:%s' % (kind, status.split(' ')[0]))
        if enc == 'unmodelled':
            out.unmodelled += 1
            continue
        out.traces += 1
        why = None
        if status != 'stored':
            if enc != 'refused':
                why = 'vakt: the mutation %s; the model writes %s' % (status, enc[:300])
        elif enc == 'refused':
            why = 'the model refuses the policy (a tagged element does not compile); vakt stored %s' % (doc or '')[:300]
        elif enc != canon:
            why = 'the model keeps %s, vakt keeps %s' % (enc[:400], canon[:400])
        elif dec == 'none' or dec.split(' ', 1)[1] != echo.split(' ', 2)[2]:
            why = 'the model reads what vakt stored as %s, expected %s' % (dec[:300], echo[:300])
        if why:
            f = Failure('disagreement', {'kind': kind, 'spec': spec, 'stored': doc, 'status': status}, doc, enc[:400], why,
                        'Vakt.C09.mongo_roundtrip / mongo_update_roundtrip / sql_roundtrip (storage codec model vs the storages)',
                        line=lines[4 * i])
            f.signature = 'storage-codec:' + kind
            f.weak = True           # the stored representation is not prescribed by the property, only what is read back
            out.failures.append(f)


def _bare_string_fields(ctx, out, rng):
    """a definition field given as one bare string: the policy's elements are its characters (a string is a collection of
    one-character strings); whatever a persistence path does with it, the policy read back matches the same inquiries"""
    for _ in range(ctx.budget(6, 120)):
        text = ''.join(rng.sample('abxyzé*', rng.randint(1, 3)))
        fld = pick(rng, ['subjects', 'actions', 'resources'])
        kw = dict(subjects=['a', 'ab'], actions=['a', 'ab'], resources=['a', 'ab'])
        kw[fld] = text
        try:
            obj = Policy(pick(rng, ['u1', 'bare']), effect=pick(rng, ['allow', 'deny']), description='bare', **kw)
        except Exception:
            continue
        vals = sorted(set(list(text) + [text, '', 'a', 'ab']))
        from vakt.guard import Inquiry
        qobjs = [Inquiry(**dict(dict(subject='a', action='a', resource='a'), **{fld[:-1]: v})) for v in vals]
        m0 = meaning(obj, qobjs)
        for path in PATHS:
            if path.endswith('+find'):
                continue
            out.evaluations += 1
            out.count('bare-string-field:' + path)
            desc = {'path': path, 'policy': 'Policy(%s=%r, the other fields [\'a\', \'ab\'])' % (fld, text), 'probed_values': vals}
            try:
                back = through(path, obj, qobjs[0], rng)
            except Exception as e:
                f = Failure('oracle', desc, '%s: %s' % (type(e).__name__, str(e)[:200]), None,
                            'writing / reading the policy back raised', 'Vakt.C09.policy_roundtrip_partial')
                f.signature = 'raised:' + path
                out.failures.append(f)
                continue
            if back is None or not isinstance(back, Policy):
                continue
            m1 = meaning(back, qobjs)
            if m1 != m0:
                i = next(j for j, (a, b) in enumerate(zip(m0, m1)) if a != b)
                k = ('KR', 'KX', 'KF', 'KU')[i // len(qobjs)]
                f = Failure('oracle', desc, [m0[i], m1[i]], None,
                            'matches differently after the round trip: checker %s, value %r: (actions, subjects, resources, '
                            'context) %r -> %r' % (k, vals[i % len(qobjs)], m0[i], m1[i]), 'Vakt.C09.policy_roundtrip_partial')
                f.signature = 'meaning:' + path.split('+')[0]
                out.failures.append(f)
                return
        out.nontriv('bare %s %s' % (fld, text))


def _decoding_clauses(ctx, out, rng):
    lines, meta = [], []
    for _ in range(ctx.budget(600, 20000)):
        doc = {}
        if rng.random() < 0.9:
            doc['uid'] = pick(rng, ['u', 1, 'Ü', None, ''])
        for f in ('subjects', 'resources', 'actions'):
            if rng.random() < 0.7:
                doc[f] = [gen_str(rng, 3) for _ in range(rng.randint(0, 2))]
        r = rng.random()
        if r < 0.6:
            doc['effect'] = pick(rng, ['allow', 'deny', '', None, 'ALLOW', 0, 'permit'])
        if rng.random() < 0.5:
            doc['type'] = pick(rng, [1, 2, 7, None, 'x'])
        if rng.random() < 0.5:
            doc['context'] = pick(rng, [{}, {'k': {'py/object': 'vakt.rules.operator.Eq', 'val': 1}}, None])
        if rng.random() < 0.4:
            doc['rules'] = pick(rng, [{}, {'r': {'py/object': 'vakt.rules.logic.Any'}}, None])
        if rng.random() < 0.4:
            doc['description'] = pick(rng, ['d', None, ''])
        if rng.random() < 0.08:
            doc[pick(rng, ['foo', 'Type', 'uids'])] = 1
        text = json.dumps(doc)
        try:
            import warnings
            with warnings.catch_warnings():
                warnings.simplefilter('ignore')
                p = Policy.from_json(text)
            impl = 'ok uid=%s effect=%s type=%s ctx=%s desc=%s' % (
                proto.enc_value(p.uid), proto.enc_value(p.effect), p.type, ','.join(sorted(p.context)),
                proto.enc_value(p.description))
        except PolicyCreationError:
            impl = 'refused creation'
        except TypeError:
            impl = 'refused typeerror'
        except Exception as e:
            impl = 'refused other:%s' % type(e).__name__
        out.evaluations += 1
        out.count('doc:' + impl.split(' ')[0] + ' ' + (impl.split(' ')[1] if impl.startswith('refused') else ''))
        # direct oracle for the stated clauses
        prob = None
        if 'uid' not in doc and not impl.startswith('refused'):
            prob = 'a document without uid was accepted'
        elif impl.startswith('ok'):
            eff = impl.split('effect=')[1].split(' ')[0]
            if not doc.get('effect') and eff != proto.enc_value('deny'):
                prob = 'missing / empty effect decoded as %s' % eff
            want_type = 1
            if int(impl.split('type=')[1].split(' ')[0]) != want_type:
                prob = 'stored type overrode the computed one'
        if prob:
            f = Failure('oracle', {'document': text}, impl, None, prob,
                        'Vakt.C09.decode_no_uid_refused / decode_type_ignored / decode_missing_effect_deny')
            f.signature = 'decode-oracle'
            out.failures.append(f)
        model_doc = {k: (sorted(v) if k in ('context', 'rules') and isinstance(v, dict) else v) for k, v in doc.items()}
        try:
            lines.append('DECODE ' + proto.enc_value(model_doc))
            meta.append((text, impl))
        except proto.ProtoError:
            pass
    model = ctx.driver.run(lines) if ctx.driver else []
    for line, (text, impl), m in zip(lines, meta, model):
        if m == 'bad-op':
            raise Broken('driver rejected: %s' % line[:300])
        if m != impl:
            f = Failure('disagreement', {'document': text}, impl, m, 'Policy.from_json vs the model of its decoding logic',
                        'Vakt.C09 (fromDoc)', line=line)
            f.signature = 'decode-model'
            out.failures.append(f)
        out.nontriv(line)


def replay(ctx, rp):
    c = rp['case']
    if 'document' in c:
        try:
            p = Policy.from_json(c['document'])
            impl = 'ok type=%s effect=%r' % (p.type, p.effect)
        except Exception as e:
            impl = 'refused %s' % type(e).__name__
        return {'impl': impl, 'still_fails': None}
    p = eval(c['policy'])
    obj = proto.build_policy(p)
    try:
        back = through(c['path'], obj)
        return {'back': None if back is None else back.to_json(), 'still_fails': None}
    except Exception as e:
        return {'raised': repr(e), 'still_fails': True}
