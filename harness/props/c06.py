"""C06 - string checkers are exact/substring; checker and policy types never cross."""
import itertools

import proto
from common import Failure, Outcome, Broken
from gen import pick, gen_str, mutate_str
from genrules import gen_policy, gen_inquiry, gen_rule_elem
import polcase
from vakt.rules.base import Rule
from vakt.checker import StringExactChecker, StringFuzzyChecker, RegexChecker, RulesChecker

MODULE = 'Props.C06'
THEOREMS = ['Vakt.C06.exact_iff', 'Vakt.C06.fuzzy_iff', 'Vakt.C06.inner_spec', 'Vakt.C06.string_total',
            'Vakt.C06.rule_policy_never_string', 'Vakt.C06.string_policy_never_rules',
            'Vakt.C06.cross_type_denied']
# StringChecker.fits with the two comparisons, translated from /repo/vakt/checker.py in this run (harness/pytolean.py ->
# lean/Gen/Checkers.lean), is the model's exactFits / fuzzyFits (lean/Gen/EquivCheckers.lean; a separate build target)
EXTRA_BUILD = ['+Gen.EquivCheckers']
GEN_IMPORTS = ['Gen.EquivCheckers']
GEN_THEOREMS = ['Vakt.GenEquiv.gen_StringExactChecker_fits', 'Vakt.GenEquiv.gen_StringFuzzyChecker_fits',
                'Vakt.GenEquiv.tag_branch', 'Vakt.GenEquiv.translatedCheckers_covers']
FLOOR = {'quick': 2000, 'thorough': 20000}


def inner(e, st, et):
    if len(e) >= 1 and e[0] == st and e[-1] == et:
        return e[1:-1]
    return e


def want_fits(k, elems, v, st, et):
    strs = [e for e in elems if isinstance(e, str)]
    if k == 'KX':
        return any(inner(e, st, et) == v for e in strs)
    return any(inner(e, st, et).find(v) >= 0 for e in strs)


def field_policy(elems, st='<', et='>'):
    return {'uid': 1, 'effect': 'allow', 'desc': None, 'stag': st, 'etag': et, 'subjects': [],
            'resources': [], 'actions': elems, 'context': []}


def gen_field(rng):
    st, et = pick(rng, polcase.TAGS)
    if '«' in (st, et):
        st, et = '<', '>'
    v = gen_str(rng)
    if rng.random() < 0.15:
        v = pick(rng, ['', st, et, st + et, 'a\nb', '\n', 'get\nlist', 'a'])
    n = pick(rng, [1, 1, 2, 2, 3, 4])
    es = []
    for _ in range(n):
        r = rng.random()
        base = v if rng.random() < 0.6 else gen_str(rng)
        if r < 0.2:
            e = base
        elif r < 0.4:
            e = st + base + et
        elif r < 0.5:
            e = st + st + base + et + et
        elif r < 0.58:
            e = pick(rng, [st + base, base + et, st + base + et + et, st + st + base + et, st + et + base + st + et])
        elif r < 0.7:
            e = pick(rng, ['x', ' ', 'pre']) + base + pick(rng, ['', 'y', 's'])
        elif r < 0.8:
            e = mutate_str(rng, base)
        elif r < 0.88:
            e = pick(rng, ['', st, et, st + et, et + st, st + st, 'a'])
        elif r < 0.94 and '\n' in v:
            parts = v.split('\n')
            es.append(('S', parts[0]))
            e = parts[-1]
        else:
            e = gen_str(rng)
        es.append(('S', e))
    return pick(rng, ['KX', 'KF']), es, v, st, et


class StrRule(Rule, str):
    """a user rule class that also derives from str"""
    def __new__(cls, text):
        return str.__new__(cls, text)

    def __init__(self, text):
        pass

    def satisfied(self, what, inquiry=None):
        return False


def _run(ctx):
    out = Outcome()
    rng = ctx.rng
    cases = []   # (k, policy, value, st, et, tag)
    # 1. complete enumeration: elements and values of length <= 3 over {a, A, <, >}
    alpha = ['a', 'A', '<', '>']
    words = [''.join(t) for n in range(0, 4) for t in itertools.product(alpha, repeat=n)]
    if ctx.tier == 'quick':
        vals = [w for w in words if len(w) <= 2] + ['aAa', '<a>', 'a>a']
    else:
        vals = words
    for e in words:
        pol = field_policy([('S', e)])
        for v in vals:
            for k in ('KX', 'KF'):
                cases.append((k, pol, v, 'enum'))
    n_enum = len(cases)
    # 2. random multi-element fields with custom tags
    for _ in range(ctx.budget(3000, 100000)):
        k, es, v, st, et = gen_field(rng)
        cases.append((k, field_policy(es, st, et), v, 'rand'))
    lines, objs = [], []
    qobj = proto.build_inquiry({'resource': '', 'action': '', 'subject': '', 'context': {}})
    qline = proto.enc_inquiry_obj(qobj)
    pcache = {}
    for k, pol, v, tag in cases:
        key = repr(pol)
        if key not in pcache:
            pobj = proto.build_policy(pol)
            pcache[key] = (pobj, polcase.pol_line(pol, pobj))
        pobj, pl = pcache[key]
        objs.append(pobj)
        lines.append('FITS %s %s a %s %s' % (k, pl, proto.enc_value(v), qline))
    model = ctx.driver.run(lines) if ctx.driver else [None] * len(lines)
    chk = {'KX': StringExactChecker(), 'KF': StringFuzzyChecker()}
    for (k, pol, v, tag), pobj, line, m in zip(cases, objs, lines, model):
        out.evaluations += 1
        try:
            a = chk[k].fits(pobj, 'actions', proto._exotic(v), qobj)
            impl = 'ok T' if a else 'ok F'
            if type(a) is not bool:
                impl = 'nonbool %r' % (a,)
        except Exception as e:
            impl = 'raise'
        elems = [e[1] if e[0] == 'S' else object() for e in pol['actions']]
        want = 'ok T' if want_fits(k, elems, v, pol['stag'], pol['etag']) else 'ok F'
        if m == 'bad-op':
            raise Broken('driver rejected: %s' % line[:300])
        if m == 'unmodelled':
            out.unmodelled += 1
        desc = {'checker': k, 'policy': repr(pol), 'value': repr(v)}
        out.count('%s:%s' % (tag, impl))
        fail = None
        if impl != want:
            fail = Failure('oracle', desc, impl, m, 'direct oracle (inner text ==/substring, never raises) says ' + want,
                           'Vakt.C06.exact_iff / fuzzy_iff / string_total', line=line)
            fail.signature = 'oracle:' + k
        elif m not in (None, 'unmodelled') and m != impl:
            fail = Failure('disagreement', desc, impl, m, 'direct oracle says ' + want, 'Vakt.C06.exact_iff / fuzzy_iff',
                           line=line)
            fail.signature = 'model:' + k
        if fail:
            out.failures.append(fail)
        if m != 'unmodelled' and (impl == 'ok T' or any(c in ''.join(e for e in elems if isinstance(e, str))
                                                        for c in (pol['stag'], pol['etag']))):
            out.nontriv(line)
            if len(out.samples) < 3 and tag == 'rand' and impl == 'ok T':
                out.samples.append({'line': line[:400], 'impl': impl, 'model': m, 'oracle': want})
    # 3. type separation, at fits level and at Guard level
    sep = []
    for _ in range(ctx.budget(600, 20000)):
        q = gen_inquiry(rng, dictish=rng.random() < 0.5)
        if rng.random() < 0.3:
            q = {'resource': pick(rng, ['', 'a']), 'action': pick(rng, ['', 'a']), 'subject': pick(rng, ['', 'a']),
                 'context': {}}
        if rng.random() < 0.5:
            k = pick(rng, ['KR', 'KX', 'KF'])
            p = gen_policy(rng, 'p', q, 'rule', effect='allow', hit=True)
        else:
            k = 'KU'
            p = gen_policy(rng, 'p', q, 'str', effect='allow', hit=True)
        p['context'] = []
        if rng.random() < 0.3:
            p[pick(rng, ['subjects', 'resources', 'actions'])] = []
        sep.append({'k': k, 'policies': [p], 'inquiry': q})
    sep_lines, sep_built = [], []
    for c in sep:
        try:
            o, qo = polcase.build_case(c)
            sep_lines.append(polcase.decide_line(c, o, qo))
            sep_built.append((c, o, qo))
        except Exception:
            out.count('sep-unconstructible')
    sep_model = ctx.driver.run(sep_lines) if ctx.driver else [None] * len(sep_lines)
    for (c, o, qo), line, m in zip(sep_built, sep_lines, sep_model):
        out.evaluations += 1
        k = c['k']
        ch = polcase.make_checker(k)
        fits = []
        for fld, val in (('actions', qo.action), ('subjects', qo.subject), ('resources', qo.resource)):
            if not getattr(o[0], fld):
                continue
            try:
                fits.append(bool(ch.fits(o[0], fld, val, qo)))
            except Exception:
                fits.append('raise')
        dec = polcase.real_decision(k, o, qo)
        mm = polcase.parse_decide(m)
        desc = {'checker': k, 'policies': [repr(p) for p in c['policies']], 'inquiry': repr(c['inquiry']), 'fits': fits}
        out.count('sep:%s' % k)
        if True in fits or dec is not False:
            f = Failure('oracle', desc, {'fits': fits, 'decision': dec}, m,
                        'a policy of the other type matched (rule-based under a string/regex checker or string-based '
                        'under the rules checker)', 'Vakt.C06.rule_policy_never_string / string_policy_never_rules',
                        line=line)
            f.signature = 'cross:' + k
            out.failures.append(f)
        elif mm.get('kind') == 'ok' and mm['answer'] is not dec:
            f = Failure('disagreement', desc, dec, m, 'cross-type decision', 'Vakt.C06.cross_type_denied', line=line)
            f.signature = 'cross-model:' + k
            out.failures.append(f)
        out.nontriv(line)
    # 4. rule objects that are also strings (a Rule subclass with a str mixin): the policy is rule-defined (its type says
    #    so) and must not match under a string or regex checker, whatever text the objects carry
    from vakt.policy import Policy
    from vakt.storage.memory import MemoryStorage
    from vakt.guard import Guard, Inquiry
    for _ in range(ctx.budget(60, 1500)):
        v = pick(rng, ['get', 'a', 'x y', 'max'])
        spell = pick(rng, [v, '<%s>' % v, '<.*>', v + 'x'])
        try:
            pol = Policy('sr', actions=[StrRule(spell)], subjects=[StrRule(spell)], resources=[StrRule(spell)], effect='allow')
        except Exception:
            out.count('strrule-unconstructible')
            continue
        for k in ('KR', 'KX', 'KF'):
            ch = polcase.make_checker(k)
            out.evaluations += 1
            out.count('strrule:' + k)
            try:
                ft = bool(ch.fits(pol, 'actions', v))
            except Exception:
                ft = 'raise'
            st = MemoryStorage()
            st.add(pol)
            dec = Guard(st, ch).is_allowed(Inquiry(action=v, subject=v, resource=v))
            if ft is True or dec is not False:
                f = Failure('oracle', {'checker': k, 'policy': 'rule-defined policy (type %r) whose rule objects are also str '
                                       'instances spelling %r' % (pol.type, spell), 'value': v}, {'fits': ft, 'decision': dec},
                            None, 'a policy defined with rules matched under a string / regex checker',
                            'Vakt.C06.rule_policy_never_string')
                f.signature = 'cross-strrule:' + k
                out.failures.append(f)
    # 5. a plain string element that equals the value matches wherever it stands in the field - also behind elements of
    #    other kinds of string (instances of a str subclass), which the checkers pass over
    for _ in range(ctx.budget(60, 1500)):
        v = pick(rng, ['get', 'a', 'x y', 'max', ''])
        others = [proto.StrSub(pick(rng, ['zz', 'other', v + 'x', '<q>'])) for _ in range(rng.randint(1, 2))]
        field = others + [v] if rng.random() < 0.7 else [others[0], v] + others[1:]
        try:
            pol = Policy('mix', actions=list(field), subjects=list(field), resources=list(field), effect='allow')
        except Exception:
            out.count('mixed-str-unconstructible')
            continue
        for k in ('KR', 'KX', 'KF'):
            ch = polcase.make_checker(k)
            out.evaluations += 1
            out.count('mixed-str:' + k)
            try:
                ft = bool(ch.fits(pol, 'actions', v))
            except Exception:
                ft = 'raise'
            st = MemoryStorage()
            st.add(pol)
            dec = Guard(st, ch).is_allowed(Inquiry(action=v, subject=v, resource=v))
            if ft is not True or dec is not True:
                f = Failure('oracle', {'checker': k, 'field': [('%s(%r)' % (type(e).__name__, str(e))) for e in field],
                                       'value': v}, {'fits': ft, 'decision': dec}, None,
                            'the field holds a plain string element equal to the value, yet it does not match',
                            'Vakt.C06.exact_iff / fuzzy_iff')
                f.signature = 'mixed-str:' + k
                out.failures.append(f)
    out.exhaustive = True
    out.extra['exhaustive_slice'] = ('all %d elements of length <= 3 over {a,A,<,>} x %d values x {exact, fuzzy} = %d '
                                     'cases, enumerated completely' % (len(words), len(vals), n_enum))
    out.rule = ('complete enumeration of single-element fields (see exhaustive_slice) + random multi-element fields with '
                'custom tag pairs, wrapped / doubly wrapped / half-wrapped elements, values with newlines and empty '
                'values + cross-type policies at fits and Guard level; non-trivial = a match, or an element containing '
                'a tag character; distinct by protocol line')
    return out


def run(ctx):
    # a third of the string inquiry values are instances of a str subclass (an Enum-with-str-mixin member, a tagged
    # string type): they are equal to, and must be matched like, their text
    proto.EXOTIC_STR[0] = True
    try:
        return _run(ctx)
    finally:
        proto.EXOTIC_STR[0] = False


def replay(ctx, rp):
    c = rp['case']
    if 'value' in c:
        pol, v, k = eval(c['policy']), eval(c['value']), c['checker']
        pobj = proto.build_policy(pol)
        chk = {'KX': StringExactChecker(), 'KF': StringFuzzyChecker()}[k]
        try:
            impl = 'ok T' if chk.fits(pobj, 'actions', v) else 'ok F'
        except Exception:
            impl = 'raise'
        elems = [e[1] if e[0] == 'S' else object() for e in pol['actions']]
        want = 'ok T' if want_fits(k, elems, v, pol['stag'], pol['etag']) else 'ok F'
        m = ctx.driver.run([rp['line']])[0] if ctx.driver else None
        return {'impl': impl, 'oracle': want, 'model': m,
                'still_fails': impl != want or (m not in (None, 'unmodelled') and m != impl)}
    cc = {'k': c['checker'], 'policies': [eval(p) for p in c['policies']], 'inquiry': eval(c['inquiry'])}
    o, qo = polcase.build_case(cc)
    dec = polcase.real_decision(cc['k'], o, qo)
    return {'impl': dec, 'oracle': False, 'still_fails': dec is not False}
