"""C19 - Mongo data migrations preserve policy meaning and are reversible."""
import copy
import json
import logging
import sys
import types
import warnings

import proto
from common import Failure, Outcome, Broken
from gen import pick, gen_str
import polcase
from fakes.mongo_client import FakeMongoClient
from vakt.storage.mongo import (MongoStorage, MongoMigrationSet, Migration1x1x0To1x1x1, Migration1x1x1To1x2x0,
                                Migration1x2x0To1x4x0)
from vakt.storage.memory import MemoryStorage
from vakt.policy import Policy
from vakt.guard import Guard, Inquiry
from vakt.checker import RegexChecker
from vakt.rules.base import Rule
import vakt.rules as R

MODULE = 'Props.C19'
EXTRA_IMPORTS = ['Props.C19M4']
THEOREMS = ['Vakt.C19.never_dropped', 'Vakt.C19.irreversible_untouched_reported', 'Vakt.C19.rename_table_ok',
            'Vakt.C19.m3_irreversible_complete', 'Vakt.C19.m3_custom_kept', 'Vakt.C19.m3_rule_roundtrip',
            'Vakt.C19.m4down_spec', 'Vakt.C19.m2_rule_roundtrip', 'Vakt.C19.m4up_preserves_policy', 'Vakt.C19.m4down_m4up',
            'Vakt.C19.m4up_adds_compiled', 'Vakt.C19.m4up_failure',
            'Vakt.C19.probes_ok']
# obligations over what was translated from /repo/vakt/storage/mongo.py in this run: MongoMigration._each_doc - a document whose processor
# raises is collected as failed and not replaced, the error-level report is written exactly when some document failed, every other one is replaced under its uid by the processor's result (lean/Gen/EquivMongoMig.lean)
EXTRA_BUILD = ['+Gen.EquivMongoMig']
GEN_IMPORTS = ['Gen.EquivMongoMig']
GEN_THEOREMS = ['Vakt.GenEquiv.gen_each_doc', 'Vakt.GenEquiv.each_failed_eq', 'Vakt.GenEquiv.translatedMongoMig_covers']
FLOOR = {'quick': 80, 'thorough': 1500}
ASSUMPTIONS = ['MongoDB is the in-process fake client (documents deep-copied in and out, unique _id); real index operations '
               'and BSON corner cases are behind it',
               'migration 4 `up` re-saves every policy through MongoStorage (retrieve_all + update): modelled as reading the '
               'document with the storage-codec model and $set-ting the freshly prepared document onto it (Props/C19M4.lean); '
               'documents with rule classes outside the codec table (custom classes) are judged by the direct oracle only']

# a user-defined rule class living in an importable module, as a third-party rule would
_mod = types.ModuleType('myapp')
_sub = types.ModuleType('myapp.rules')


class Custom(Rule):
    def __init__(self, x=None, s=None):
        self.x = x
        if s is not None:
            self.s = s

    def satisfied(self, what, inquiry=None):
        return what == self.x


Custom.__module__ = 'myapp.rules'
_sub.Custom = Custom
_mod.rules = _sub
sys.modules.setdefault('myapp', _mod)
sys.modules.setdefault('myapp.rules', _sub)

OBJ = 'py/object'
LEGACY = {  # kind -> (legacy class path, current class path)
    'streq': ('vakt.rules.string.StringEqualRule', 'vakt.rules.string.Equal'),
    'pairs': ('vakt.rules.string.StringPairsEqualRule', 'vakt.rules.string.PairsEqual'),
    'cidr': ('vakt.rules.net.CIDRRule', 'vakt.rules.net.CIDR'),
    'subjeq': ('vakt.rules.inquiry.SubjectEqualRule', 'vakt.rules.inquiry.SubjectEqual'),
    'acteq': ('vakt.rules.inquiry.ActionEqualRule', 'vakt.rules.inquiry.ActionEqual'),
    'resin': ('vakt.rules.inquiry.ResourceInRule', 'vakt.rules.inquiry.ResourceIn'),
    'regex': ('vakt.rules.string.RegexMatchRule', 'vakt.rules.string.RegexMatch'),
}
LEGACY_NAMES = {v[0] for v in LEGACY.values()}
LEGACY_TARGETS = {v[1] for v in LEGACY.values()}


def gen_rule_spec(rng, era):
    """(kind, attrs) - era 'old': rules that existed up to 1.1.1 (+ custom); 'new': also later ones"""
    kinds = ['streq', 'streq', 'pairs', 'cidr', 'subjeq', 'acteq', 'resin', 'regex', 'custom', 'custom-set']
    if era == 'new':
        kinds += ['eq', 'in', 'and', 'starts', 'subjmatch', 'actmatch', 'resmatch', 'eq', 'subjmatch', 'deep']
    k = pick(rng, kinds)
    if k == 'streq':
        return k, {'val': gen_str(rng, 4), 'ci': rng.random() < 0.5}
    if k == 'cidr':
        return k, {'cidr': pick(rng, ['10.0.0.0/8', '192.168.0.0/16'])}
    if k == 'regex':
        return k, {'regex': {OBJ: 're.Pattern', 'pattern': pick(rng, ['a.b', '^x+$', 'get|put'])}}
    if k == 'custom':
        return k, {'x': pick(rng, [1, 'v', None, [1, 2]])}
    if k == 'custom-set':
        return k, {'x': 1, 's': {pick(rng, ['py/set', 'py/tuple']): [1, 2]}}
    if k == 'eq':
        return k, {'val': pick(rng, [1, 'a'])}
    if k == 'in':
        return k, {'data': {'py/set': [1, 'a']}}
    if k == 'and':
        return k, {'rules': {'py/tuple': [{OBJ: 'vakt.rules.operator.Eq', 'val': 1}]}}
    if k == 'starts':
        return k, {'val': 'a', 'ci': False}
    if k == 'deep':
        # a rule nested many levels deep (negations of negations ...): rewritten whole by every step that touches it
        inner = {OBJ: 'vakt.rules.operator.Eq', 'val': 1}
        for _ in range(pick(rng, [12, 20, 34, 44])):
            inner = {OBJ: 'vakt.rules.logic.Not', 'rule': inner}
        return k, {'rule': inner}
    if k in ('subjmatch', 'actmatch', 'resmatch'):
        return k, {'attribute': pick(rng, [None, 'name'])}
    return k, {}


NEW_CLASS = {'deep': 'vakt.rules.logic.Not', 'eq': 'vakt.rules.operator.Eq', 'in': 'vakt.rules.list.In', 'and': 'vakt.rules.logic.And',
             'starts': 'vakt.rules.string.StartsWith', 'subjmatch': 'vakt.rules.inquiry.SubjectMatch',
             'actmatch': 'vakt.rules.inquiry.ActionMatch', 'resmatch': 'vakt.rules.inquiry.ResourceMatch',
             'custom': 'myapp.rules.Custom', 'custom-set': 'myapp.rules.Custom'}


def class_of(kind, layout):
    if kind in LEGACY:
        return LEGACY[kind][0] if layout in (110, 111) else LEGACY[kind][1]
    return NEW_CLASS[kind]


def rule_doc(kind, attrs, layout):
    cls = class_of(kind, layout)
    if layout == 110:
        return json.dumps({'type': cls, 'contents': attrs}, sort_keys=True)
    d = {OBJ: cls}
    d.update(copy.deepcopy(attrs))
    return d


def gen_spec(rng, era):
    uid = pick(rng, ['p1', 'p2', 'p3', 'p4', 'p5', 'p6'])
    spec = {'uid': uid, 'description': pick(rng, [None, 'd']), 'effect': pick(rng, ['allow', 'deny']),
            'subjects': [pick(rng, ['max', '<.*>', 'ma<x|y>', '<m|n><a.*>'])], 'resources': [pick(rng, ['r', '<r.*>', '<r|s><x?>'])],
            'actions': [pick(rng, ['get', '<get|put>', '<g|p>e<t+>', '<g|p><et|ut>'])],
            'rules': [(pick(rng, ['k', 'ip', 'n']), ) + gen_rule_spec(rng, era) for _ in range(rng.randint(0, 2))],
            'type': 1}
    seen = set()
    spec['rules'] = [r for r in spec['rules'] if not (r[0] in seen or seen.add(r[0]))]
    if era == 'new' and rng.random() < 0.2:
        spec['type'] = 2
        spec['subjects'] = [{OBJ: 'vakt.rules.operator.Eq', 'val': 'max'}]
        spec['resources'] = [{OBJ: 'vakt.rules.logic.Any'}]
        spec['actions'] = [{OBJ: 'vakt.rules.operator.Eq', 'val': 'get'}]
    return spec


def doc_of(spec, layout):
    d = {'_id': spec['uid'], 'uid': spec['uid'], 'description': spec['description'], 'effect': spec['effect'],
         'subjects': copy.deepcopy(spec['subjects']), 'resources': copy.deepcopy(spec['resources']),
         'actions': copy.deepcopy(spec['actions'])}
    rules = {name: rule_doc(kind, attrs, layout) for name, kind, attrs in spec['rules']}
    if layout in (110, 111):
        d['rules'] = rules
    else:
        d['context'] = rules
        d['type'] = spec['type']
    return d


def constructed_rule(kind, attrs):
    """the rule a payload denotes, built by the constructor of its class (not decoded from a document)"""
    from vakt.rules import string as rs, net as rn, inquiry as ri, operator as ro, list as rl, logic as rg
    if kind == 'streq':
        return rs.Equal(attrs['val'], ci=attrs['ci'])
    if kind == 'pairs':
        return rs.PairsEqual()
    if kind == 'cidr':
        return rn.CIDR(attrs['cidr'])
    if kind == 'subjeq':
        return ri.SubjectEqual()
    if kind == 'acteq':
        return ri.ActionEqual()
    if kind == 'resin':
        return ri.ResourceIn()
    if kind == 'regex':
        return rs.RegexMatch(attrs['regex']['pattern'])
    if kind == 'eq':
        return ro.Eq(attrs['val'])
    if kind == 'in':
        return rl.In(1, 'a')
    if kind == 'and':
        return rg.And(ro.Eq(1))
    if kind == 'starts':
        return rs.StartsWith('a', ci=False)
    if kind == 'custom':
        return Custom(attrs['x'])
    if kind in ('subjmatch', 'actmatch', 'resmatch'):
        cls = {'subjmatch': ri.SubjectMatch, 'actmatch': ri.ActionMatch, 'resmatch': ri.ResourceMatch}[kind]
        return cls(attrs['attribute']) if attrs['attribute'] is not None else cls()
    return None


RULE_PROBES = ['10.1.1.1', '192.168.3.4', '8.8.8.8', 'x', 1, 'a', 'abc', 'max', 'Max', ['a', 'a'], ['a', 'b'], 'a.b', 'axb', 'get',
               'xx', None, 'v', [1, 2], {'name': 'max'}]


def rule_answers(rule, q):
    out = []
    for v in RULE_PROBES:
        try:
            out.append(bool(rule.satisfied(v, q)))
        except Exception as e:
            out.append('raise ' + type(e).__name__)
    return out


def representable(spec, layout):
    """can the policy be written in `layout` at all (by the eras of its rule classes and its type)"""
    if layout in (110, 111):
        if spec['type'] != 1:
            return False
        for _, kind, attrs in spec['rules']:
            if kind not in LEGACY and not kind.startswith('custom'):
                return False              # a vakt rule class that did not exist before 1.2.0
            if layout == 110 and kind == 'regex':
                return False              # compiled pattern could not be stored in 1.1.0
            if layout == 110 and kind == 'custom-set':
                return False              # non-primitive custom payload
    return True


def to_model_doc(doc):
    """strings that hold JSON rules (1.1.0) become ('tuple',[dict]) wrappers for the model"""
    d = copy.deepcopy(doc)
    if isinstance(d.get('rules'), dict):
        d['rules'] = {k: ((json.loads(v),) if isinstance(v, str) else v) for k, v in d['rules'].items()}
    return d


def _sort_sets(x):
    """the members of every py/set in one canonical order (a set is re-written in its iteration order, which depends on
    the string-hash seed of the process)"""
    if isinstance(x, dict):
        if set(x) == {'py/set'} and isinstance(x['py/set'], list):
            return {'py/set': sorted((_sort_sets(y) for y in x['py/set']), key=lambda v: json.dumps(v, sort_keys=True, default=repr))}
        return {k: _sort_sets(v) for k, v in x.items()}
    if isinstance(x, (list, tuple)):
        return [_sort_sets(y) for y in x]
    return x


def norm_doc(doc):
    """order-free comparable form; 1.1.0 rule strings compared as parsed JSON; compiled fields by presence"""
    d = _sort_sets(copy.deepcopy(doc))
    if isinstance(d.get('rules'), dict):
        d['rules'] = {k: (('json', json.loads(v)) if isinstance(v, str) else v) for k, v in d['rules'].items()}
    for f in ('actions_compiled_regex', 'subjects_compiled_regex', 'resources_compiled_regex'):
        if f in d:
            d[f] = 'present'
    d = _sort_sets(d)
    return json.dumps(d, sort_keys=True, default=lambda o: list(o) if isinstance(o, tuple) else repr(o))


def from_model_val(v):
    if isinstance(v, tuple) and len(v) == 1 and isinstance(v[0], dict):
        return ('json', v[0])
    return v


class LogCatch(logging.Handler):
    def __init__(self):
        super().__init__(level=logging.ERROR)
        self.msgs = []

    def emit(self, record):
        self.msgs.append(record.getMessage())


STEPS = {('up', 2): 'm2up', ('down', 2): 'm2down', ('up', 3): 'm3up', ('down', 3): 'm3down', ('down', 4): 'm4down',
         ('up', 4): 'm4up'}
LAYOUT_VERSION = {110: 1, 111: 2, 120: 3, 140: 4}


def run(ctx):
    out = Outcome()
    rng = ctx.rng
    n = ctx.budget(400, 6000)
    lines, meta = [], []
    mlog = logging.getLogger('vakt.storage.mongo')
    for _ in range(n):
        layout = pick(rng, [110, 111, 120, 140])
        era = 'old' if layout in (110, 111) else pick(rng, ['old', 'new'])
        specs, seen = [], set()
        for _ in range(rng.randint(1, 4)):
            s = gen_spec(rng, era)
            if s['uid'] in seen or not representable(s, layout):
                continue
            seen.add(s['uid'])
            specs.append(s)
        if not specs:
            continue
        client = FakeMongoClient(pick(rng, ['4.0.0', '4.4.0']))
        with warnings.catch_warnings():
            warnings.simplefilter('ignore')
            st = MongoStorage(client, 'db')
            ms = MongoMigrationSet(st)
            coll = st.collection
            if layout == 140:
                # written by the current storage itself
                for s in specs:
                    pol = Policy.from_json(json.dumps({k: v for k, v in doc_of(s, 120).items() if k != '_id'}))
                    st.add(pol)
            else:
                for s in specs:
                    coll.insert_one(doc_of(s, layout))
            # the indexes the earlier schema migrations would have created
            for f in ('actions', 'subjects', 'resources'):
                coll.create_index(f, name=f + '_idx')
            if LAYOUT_VERSION[layout] >= 3:
                coll.create_index('type', name='type_idx')
            if LAYOUT_VERSION[layout] >= 4:
                for f in ('actions', 'subjects', 'resources'):
                    coll.create_index(f + '_compiled_regex', name=f + '_compiled_regex_idx')
            ms.save_applied_number(LAYOUT_VERSION[layout])
            version = LAYOUT_VERSION[layout]
            hist = ['layout %d' % layout]
            originals = {d['_id']: norm_doc(d) for d in coll.docs}
            handler = LogCatch()
            mlog.addHandler(handler)
            old_level = mlog.level
            mlog.setLevel(logging.ERROR)
            try:
                problems = []
                for _ in range(rng.randint(1, 5)):
                    direction = pick(rng, ['up', 'down'])
                    if direction == 'up' and version < 4:
                        num = version + 1
                    elif direction == 'down' and version > 1:
                        num = version
                    else:
                        continue
                    before = {d['_id']: copy.deepcopy(d) for d in coll.docs}
                    handler.msgs = []
                    try:
                        (ms.up if direction == 'up' else ms.down)(num)
                        raised = None
                    except Exception as e:
                        raised = type(e).__name__
                    hist.append('%s(%d)%s' % (direction, num, '' if not raised else ' raised ' + raised))
                    after = {d['_id']: d for d in coll.docs}
                    out.evaluations += 1
                    out.count('step:%s%d' % (direction, num))
                    if raised:
                        # migration 4 up aborts when a leftover document cannot be read by the current storage
                        out.count('step-raised')
                        if set(after) != set(before):
                            problems.append('%s: documents were dropped by a failing step' % hist[-1])
                        break
                    version = num if direction == 'up' else num - 1
                    if set(after) != set(before):
                        problems.append('%s: the set of documents changed: %s -> %s' % (hist[-1], sorted(before), sorted(after)))
                        break
                    reported = ' '.join(handler.msgs)
                    for uid, b in before.items():
                        a = after[uid]
                        changed = norm_doc(a) != norm_doc(b)
                        spec = next(s for s in specs if s['uid'] == uid)
                        # direct oracle for the down steps: what cannot be represented below must stay and be reported
                        if direction == 'down' and num in (2, 3):
                            target = 110 if num == 2 else 111
                            in_src_layout = ('rules' in b) if num == 2 else ('context' in b and 'type' in b)
                            if in_src_layout and not representable(spec, target):
                                if changed:
                                    problems.append('%s: policy %s cannot be represented in the %d layout but was rewritten: %s'
                                                    % (hist[-1], uid, target, norm_doc(a)[:300]))
                                elif repr(uid) not in reported and str(uid) not in reported:
                                    problems.append('%s: policy %s was left as it is but not reported' % (hist[-1], uid))
                        key = (direction, num)
                        if key in STEPS:
                            try:
                                lines.append('MIGDOC %s %s' % (STEPS[key], proto.enc_value(to_model_doc(b))))
                                meta.append((dict(history=list(hist), uid=uid), norm_doc(a), norm_doc(b), changed))
                            except proto.ProtoError:
                                pass
                    if problems:
                        break
                # back at (or brought to) the newest layout: every policy readable, decisions as the policy denotes
                if not problems and version == 4:
                    for s in specs:
                        if any(k in ('custom-set',) for _, k, _ in s['rules']):
                            continue
                        try:
                            p = st.get(s['uid'])
                        except Exception as e:
                            problems.append('after %s policy %s cannot be read by the current storage: %s'
                                            % (hist, s['uid'], type(e).__name__))
                            break
                        denoted = Policy.from_json(json.dumps({k: v for k, v in doc_of(s, 120).items() if k != '_id'}))
                        if polcase.policy_key(p) != polcase.policy_key(denoted):
                            problems.append('after %s policy %s reads back as %s, it denotes %s'
                                            % (hist, s['uid'], p.to_json()[:200], denoted.to_json()[:200]))
                            break
                        # every context rule answers like the rule its payload denotes, built by its constructor
                        qp = Inquiry(action='get', subject={'name': 'max'}, resource='abc', context={})
                        for name, kind, attrs in s['rules']:
                            want_rule = constructed_rule(kind, attrs)
                            if want_rule is None or name not in p.context:
                                continue
                            got, want = rule_answers(p.context[name], qp), rule_answers(want_rule, qp)
                            out.count('context-rule-probed:' + kind)
                            if got != want:
                                i = next(j for j, (a, b) in enumerate(zip(got, want)) if a != b)
                                problems.append('after %s the context rule %r (%s) of policy %s answers %r for %r, the rule it '
                                                'denotes answers %r' % (hist, name, kind, s['uid'], got[i], RULE_PROBES[i], want[i]))
                                break
                        if problems:
                            break
                    if not problems and all(not any(k == 'custom-set' for _, k, _ in s['rules']) for s in specs):
                        q = Inquiry(action='get', subject='max', resource='r', context={'k': 'v', 'ip': '10.1.1.1', 'n': 1})
                        mem = MemoryStorage()
                        for s in specs:
                            mem.add(Policy.from_json(json.dumps({k: v for k, v in doc_of(s, 120).items() if k != '_id'})))
                        if Guard(st, RegexChecker()).is_allowed(q) is not Guard(mem, RegexChecker()).is_allowed(q):
                            problems.append('after %s the decision over the migrated collection differs from the decision '
                                            'over the policies the documents denote' % hist)
                # a full way down and up again restores the documents
                if not problems and version == LAYOUT_VERSION[layout] and len(hist) > 2:
                    for uid, o in originals.items():
                        now = norm_doc(next(d for d in coll.docs if d['_id'] == uid))
                        spec = next(s for s in specs if s['uid'] == uid)
                        if now != o and layout != 140:
                            problems.append('after %s document %s is %s, originally %s' % (hist, uid, now[:300], o[:300]))
                            break
            finally:
                mlog.removeHandler(handler)
                mlog.setLevel(old_level)
        desc = {'layout': layout, 'server': client.version, 'specs': [repr(s) for s in specs], 'history': hist}
        if problems:
            f = Failure('oracle', desc, None, None, problems[0],
                        'Vakt.C19.m3_irreversible_complete / irreversible_untouched_reported / m3_rule_roundtrip')
            f.signature = 'oracle:' + ('rewritten' if 'rewritten' in problems[0] else problems[0].split(':')[0][:20])
            out.failures.append(f)
        if len(hist) >= 2:
            out.nontriv(repr(desc))
            out.traces += 1
            if len(out.samples) < 3 and len(hist) >= 3:
                out.samples.append({'layout': layout, 'history': hist, 'policies': [s['uid'] for s in specs],
                                    'rules': [[(r[0], r[1]) for r in s['rules']] for s in specs]})
    model = ctx.driver.run(lines) if ctx.driver else []
    for line, (desc, after, before, changed), m in zip(lines, meta, model):
        if m == 'bad-op':
            raise Broken('driver rejected: %s' % line[:300])
        out.count('model:%s:%s' % (line.split(' ')[1], m.split(' ')[0]))
        if m == 'unmodelled':
            out.unmodelled += 1         # migration 4 up over a document the codec model does not cover (custom rule classes)
            continue
        if m.startswith('ok '):
            # decode the model's document and compare order-free
            want = _decode_model_doc(m[3:])
            ok = want == after
        else:
            ok = not changed        # the model's processor raised: the document must be untouched
        if not ok:
            f = Failure('disagreement', desc, after[:500], m[:500], 'document after the migration step vs the model processor '
                        '(a raise in the model means: left as it is)', 'Vakt.C19 (MongoMig processors)', line=line)
            f.signature = 'model:' + line.split(' ')[1]
            # the exact document text after a step is not prescribed (its meaning and reversibility are); that an
            # unrepresentable policy is left untouched is
            f.weak = m.startswith('ok ')
            out.failures.append(f)
    out.rule = ('collections of 1-4 generated legacy documents in the 1.1.0 (string-encoded rules), 1.1.1 (object rules), '
                '1.2.0 (typed, context) or current layout with built-in, renamed, custom and newer-only rule payloads, on the '
                'fake client reporting server 4.0 / 4.4; random walks of 1-5 single migration steps (2, 3, 4; up and down) '
                'through the real MigrationSet; after every step: no document dropped, each document compared with the '
                'model processor, unrepresentable policies untouched and reported; at the newest layout every policy is read '
                'back through MongoStorage and compared with the policy the document denotes, and a Guard decision over the '
                'collection with the decision over those policies; back at the starting layout documents equal the originals')
    return out


def _decode_model_doc(text):
    toks = text.split(' ')

    def val(i):
        t = toks[i]
        if t == 'N':
            return None, i + 1
        if t == 'T':
            return True, i + 1
        if t == 'F':
            return False, i + 1
        if t[0] == 'I':
            return int(t[1:]), i + 1
        if t[0] == 'D':
            a, b = t[1:].split('/')
            return int(a) / (2 ** int(b)), i + 1
        if t[0] == 'S':
            return ''.join(chr(int(c)) for c in t[1:].split(',') if c), i + 1
        if t[0] in 'LU':
            n = int(t[1:])
            i += 1
            xs = []
            for _ in range(n):
                x, i = val(i)
                xs.append(x)
            return (xs if t[0] == 'L' else tuple(xs)), i
        if t[0] == 'M':
            n = int(t[1:])
            i += 1
            d = {}
            for _ in range(n):
                k, i = val(i)
                x, i = val(i)
                d[k] = x
            return d, i
        raise ValueError(t)
    d, _ = val(0)
    if isinstance(d.get('rules'), dict):
        d['rules'] = {k: (('json', v[0]) if isinstance(v, tuple) and len(v) == 1 else v) for k, v in d['rules'].items()}
    for f in ('actions_compiled_regex', 'subjects_compiled_regex', 'resources_compiled_regex'):
        if f in d:
            d[f] = 'present'
    d = _sort_sets(d)
    return json.dumps(d, sort_keys=True, default=lambda o: list(o) if isinstance(o, tuple) else repr(o))


def replay(ctx, rp):
    return {'still_fails': None, 'note': 're-run the check with the recorded seed to rebuild this collection'}
