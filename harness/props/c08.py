"""C08 - every storage is a uid-keyed map; failed mutations change nothing."""
import sys
import proto
from common import capped, Failure, Outcome, Broken, listing_diff_is_order_only
from gen import pick
import stores
import polcase
from vakt.policy import Policy
from vakt.rules import Eq, Any, And, Greater, In
from vakt.exceptions import PolicyExistsError, InvalidPatternError

MODULE = 'Props.C08'
THEOREMS = ['Vakt.C08.add_existing_refused', 'Vakt.C08.add_fresh', 'Vakt.C08.update_absent_noop',
            'Vakt.C08.update_present', 'Vakt.C08.delete_spec', 'Vakt.C08.failed_mutation_noop', 'Vakt.C08.reads_pure',
            'Vakt.C08.distinct_preserved', 'Vakt.C08.get_is_lookup', 'Vakt.C08.getAll_edges', 'Vakt.C08.pages_tile',
            'Vakt.C08.pages_cover', 'Vakt.C08.retrieveAll_all', 'Vakt.C08.listing_perm', 'Vakt.C08.history_distinct',
            # the concrete storages (programs over their clients' primitives) refine the abstract map
            'Vakt.C08B.run_refines', 'Vakt.C08B.memory_refines', 'Vakt.C08B.redis_refines', 'Vakt.C08B.mongo_refines',
            'Vakt.C08B.sql_refines', 'Vakt.C08B.observable_refines', 'Vakt.C08B.observable_notifies',
            'Vakt.C08B.observable_notify_last', 'Vakt.C08B.redis_serializer_failure',
            'Vakt.C08B.redis_failed_mutation_noop', 'Vakt.C08B.mongo_retrieve_all']
EXTRA_IMPORTS = ['Props.C08Backends']
# obligations over what was translated from /repo/vakt/storage/memory.py (and Storage._check_limit_and_offset) in this run: each
# method of MemoryStorage, its dictionary made an explicit world value, leaves the dictionary and returns / raises what the concrete
# model memStep says (lean/Gen/EquivMemory.lean); memStep refines the abstract store (memory_refines); the generator
# Storage.retrieve_all that every storage inherits (while True, yield) is the model's retrLoop over whatever get_all the storage has
EXTRA_BUILD = ['+Gen.EquivMemory', '+Gen.EquivRedis', '+Gen.EquivMongo']
GEN_IMPORTS = ['Gen.EquivMemory', 'Gen.EquivRedis', 'Gen.EquivMongo']
GEN_THEOREMS = ['Vakt.GenEquiv.gen_memory_add', 'Vakt.GenEquiv.gen_memory_update', 'Vakt.GenEquiv.gen_memory_delete',
                'Vakt.GenEquiv.gen_memory_get', 'Vakt.GenEquiv.gen_memory_get_all', 'Vakt.GenEquiv.gen_memory_find',
                'Vakt.GenEquiv.gen_check_limit', 'Vakt.GenEquiv.gen_retrieve_all',
                # add / get / update / delete of the Redis and MongoDB storages: the client calls as effects = redisStep / mongoStep
                'Vakt.GenEquiv.gen_redis_add', 'Vakt.GenEquiv.gen_redis_get', 'Vakt.GenEquiv.gen_redis_update',
                'Vakt.GenEquiv.gen_redis_delete', 'Vakt.GenEquiv.gen_mongo_add', 'Vakt.GenEquiv.gen_mongo_get',
                'Vakt.GenEquiv.gen_mongo_update', 'Vakt.GenEquiv.gen_mongo_delete',
                # the paged listings and the private generators of the two storages = redisGetAll / mongoGetAll
                'Vakt.GenEquiv.gen_redis_get_all', 'Vakt.GenEquiv.gen_redis_find', 'Vakt.GenEquiv.gen_redis_feed',
                'Vakt.GenEquiv.gen_mongo_get_all', 'Vakt.GenEquiv.gen_mongo_feed',
                'Vakt.GenEquiv.translatedRedis_covers', 'Vakt.GenEquiv.translatedMongo_covers']
FLOOR = {'quick': 150, 'thorough': 2000}
ASSUMPTIONS = ['Redis and MongoDB are in-process fakes of the client calls vakt makes (no servers in this sandbox); SQL is '
               'the real SQLAlchemy on SQLite, connections with and without PRAGMA foreign_keys=ON',
               'uids are strings in this check; non-str uids through SQL/Redis are the C09 uid-type finding']
UIDS = ['a', 'b', 'c', '1', 'B', '']
KINDS = ['memory', 'sqlite', 'redis-json', 'redis-pickle', 'mongo',
         'enfold:memory', 'enfold:sqlite', 'enfold:redis-json', 'enfold:mongo',
         'observable:memory', 'observable:sqlite', 'observable:redis-pickle', 'observable:mongo']


TUPLE_UID = ('t', 2)


def uids_for(kind):
    """the uid universe of a history: plain strings everywhere, plus a tuple uid (a composite key) where the backend
    keeps Python objects as keys (the in-memory storage and wrappers over it)"""
    return UIDS + [TUPLE_UID] if kind.split(':')[-1] == 'memory' else UIDS


def tok(u):
    """protocol token of a uid (the model treats uids as opaque keys)"""
    return proto.enc_str(u if isinstance(u, str) else '\u03b6')       # one non-string uid in the universe: one spare letter


def cfg_of(kind):
    base = kind.split(':')[-1]
    wrapper = kind.split(':')[0] if ':' in kind else None
    sorted_ = base in ('sqlite', 'mongo') and wrapper != 'enfold'
    eager = base in ('mongo', 'redis-json', 'redis-pickle')
    rejects = base in ('sqlite', 'mongo')
    return sorted_, eager, rejects


def gen_policy(rng, uid, tag):
    """small policies; `bad` ones carry an unbalanced pattern that SQL / Mongo cannot convert"""
    r = rng.random()
    desc = 'v%d' % tag
    if rng.random() < 0.15:
        # the same policy but for the length of its element lists: one version's list is a prefix of the other's
        return Policy(uid, actions=['get', 'put', 'del'][:rng.randint(1, 3)], subjects=['s1', 's2'][:rng.randint(1, 2)],
                      resources=['r', 'r2', 'r3'][:rng.randint(1, 3)], effect='allow', description='fixed'), False
    if rng.random() < 0.25:
        # same scalar columns every time: successive versions under one uid differ in their elements only
        return Policy(uid, actions=[pick(rng, ['get', 'put', '<get|put>', 'del'])], subjects=[pick(rng, ['s1', 's<.*>', 's2'])],
                      resources=['r'], effect='allow', description='fixed'), False
    if rng.random() < 0.06:
        # an element longer than any column a relational schema declares for it (255 / 520 characters): SQLite keeps the whole
        # text, the document and key-value stores have no width at all; what was written is what is read
        long_ = pick(rng, ['g', 'ab', 'r/']) * rng.randint(130, 400)
        return Policy(uid, actions=[long_, 'get'], subjects=['s<.*>' if rng.random() < 0.5 else long_ + '<.*>'],
                      resources=['r'], effect=pick(rng, ['allow', 'deny']), description=desc), False
    if r < 0.35:
        return Policy(uid, actions=[pick(rng, ['get', '<get|put>', 'x'])], subjects=['s<.*>'], resources=['r'],
                      effect=pick(rng, ['allow', 'deny']), description=desc), False
    if r < 0.42:
        # a rule nested deeply (compositions inside compositions): stored and read back whole
        from vakt.rules import Not, Or
        deep = Eq(tag)
        for i in range(rng.randint(8, 40)):
            deep = pick(rng, [lambda x: Not(Not(x)), lambda x: And(x), lambda x: Or(x), lambda x: And(x, Any())])(deep)
        return Policy(uid, actions=[Any()], subjects=[Any()], resources=[Any()], context={'k': deep},
                      effect=pick(rng, ['allow', 'deny']), description=desc), False
    if r < 0.7:
        return Policy(uid, actions=[Eq('get')], subjects=[{'n': In('a', 'b')}, Any()], resources=[And(Greater(1), Eq(2))],
                      context={'k': Eq(tag)}, effect=pick(rng, ['allow', 'deny']), description=desc), False
    if r < 0.85:
        return Policy(uid, description=desc), False
    # valid first field, malformed later field: conversion fails half-way
    return Policy(uid, actions=['ok<a>'], subjects=[pick(rng, ['<<bad>', 'a>b<', '><', 'x<y><'])], resources=['r2'],
                  effect='allow', description=desc), True


def content_key(p):
    return polcase.policy_key(p)


def classify(exc):
    if isinstance(exc, PolicyExistsError):
        return 'exists'
    if isinstance(exc, InvalidPatternError):
        return 'rejected'
    if isinstance(exc, ValueError):
        return 'valueerror'
    return 'other:%s' % type(exc).__name__


def run_history(kind, rng, nmut, out):
    """returns (protocol line, impl outputs, description) or None"""
    sorted_, eager, rejects = cfg_of(kind)
    uids = uids_for(kind)
    big = kind.split(':')[-1] == 'memory'
    by_value = kind.split(':')[-1] in ('sqlite', 'redis-json', 'redis-pickle', 'mongo') and not kind.startswith('enfold')
    plain_sqlite = kind.split(':')[-1] == 'sqlite' and rng.random() < 0.4
    stores.SQLITE_FOREIGN_KEYS = not plain_sqlite       # a plain SQLite connection: foreign keys (ON DELETE CASCADE) not enforced
    try:
        st = stores.make(kind)
    finally:
        stores.SQLITE_FOREIGN_KEYS = True
    log = call_log(st)
    calls = []
    pool = []            # content id -> key
    keys = {}
    ops, outs, human = [], [], []

    def pid_of(p):
        k = content_key(p)
        if k not in keys:
            keys[k] = len(pool)
            pool.append(k)
        return keys[k]

    def show_pols(ps):
        return 'pols ' + ','.join('%s:%d' % (tok(p.uid), pid_of(p)) for p in ps)

    def do(op, *a):
        n0 = len(log)
        try:
            return do_(op, *a)
        finally:
            calls.append(log[n0:])

    def do_(op, *a):
        try:
            if op == 'add':
                st.add(a[0])
                return 'done'
            if op == 'upd':
                st.update(a[0])
                return 'done'
            if op == 'del':
                st.delete(a[0])
                return 'done'
            if op == 'get':
                p = st.get(a[0])
                r = 'pol -' if p is None else 'pol %d' % pid_of(p)
                if p is not None and by_value and rng.random() < 0.15:
                    # a reader changes the object it was handed: a backend that serializes hands out a fresh object for every
                    # read, so what is stored - and what later reads return - stays as it was
                    try:
                        p.description = 'changed by a reader'
                        out.count('reader-changed-returned-object')
                    except Exception:
                        pass
                return r
            if op == 'all':
                return show_pols(capped(st.get_all(a[0], a[1])))
            if op == 'retr':
                return show_pols(capped(st.retrieve_all(a[0])))
        except Exception as e:
            return classify(e)

    tag = 0
    offered = {}
    for _ in range(nmut):
        r = rng.random()
        u = pick(rng, uids)
        if r < 0.4:
            tag += 1
            if u in offered and rng.random() < 0.2:
                # the very object that was handed to add / update before (a retried call), not merely an equal one
                p, bad = offered[u]
                out.count('same-object-offered-again')
            else:
                p, bad = gen_policy(rng, u, tag)
            offered[u] = (p, bad)
            ok = not (bad and rejects)
            ops.append('add %s %d %s' % (tok(u), pid_of(p), 'T' if ok else 'F'))
            outs.append(do('add', p))
            human.append('add %s v%d%s' % (u, tag, ' (malformed)' if bad else ''))
        elif r < 0.7:
            tag += 1
            p, bad = gen_policy(rng, u, tag)
            offered[u] = (p, bad)
            ok = not (bad and rejects)
            ops.append('upd %s %d %s' % (tok(u), pid_of(p), 'T' if ok else 'F'))
            outs.append(do('upd', p))
            human.append('update %s v%d%s' % (u, tag, ' (malformed)' if bad else ''))
        elif r < 0.9:
            ops.append('del %s' % tok(u))
            outs.append(do('del', u))
            human.append('delete %s' % (u,))
        else:
            l, o = pick(rng, [(0, 0), (-1, 0), (1, -1), (0, 3), (3, 100)] +
                        ([(sys.maxsize, 1), (2 ** 70, 0), (1, 2 ** 64)] if big else []))
            ops.append('all %d %d' % (l, o))
            outs.append(do('all', l, o))
            human.append('get_all(%d,%d)' % (l, o))
            continue
        # read the whole store back three ways
        for uu in uids:
            ops.append('get %s' % tok(uu))
            outs.append(do('get', uu))
        for l, o in ((2, 0), (2, 2), (2, 4), (1, 1), (5, 0)):
            ops.append('all %d %d' % (l, o))
            outs.append(do('all', l, o))
        for b in (1, 2, 50):
            ops.append('retr %d' % b)
            outs.append(do('retr', b))
        if rng.random() < 0.1:
            b = pick(rng, [0, -1])
            ops.append('retr %d' % b)
            outs.append(do('retr', b))
    line = 'STORE %s %s %d %s' % ('T' if sorted_ else 'F', 'T' if eager else 'F', len(ops), ' '.join(ops))
    return line, outs, {'backend': kind + (' (plain connection: PRAGMA foreign_keys not set)' if plain_sqlite else ''),
                        'history': human, 'calls': calls, 'nops': len(ops), 'ops': ops}


BACKEND_MODEL = {'memory': 'memory', 'sqlite': 'sql', 'redis-json': 'redis', 'redis-pickle': 'redis', 'mongo': 'mongo',
                 'observable:memory': 'obs-memory', 'observable:sqlite': 'obs-sql', 'observable:redis-pickle': 'obs-redis',
                 'observable:mongo': 'obs-mongo'}
TRACED = ('redis', 'mongo', 'obs-redis', 'obs-mongo', 'obs-memory', 'obs-sql')


def call_log(st):
    """one list receiving, in order, the name of every client call the storage makes (fake Redis / fake Mongo
    collection) and 'notify' for every notification the observable wrapper sends"""
    log = []
    inner = getattr(st, 'storage', st)
    if hasattr(inner, 'client') and hasattr(inner.client, 'calls'):
        inner.client.calls = log
    if hasattr(inner, 'collection') and hasattr(inner.collection, 'calls'):
        inner.collection.calls = log
    if hasattr(st, 'add_listener') and hasattr(st, 'storage'):
        class _L:
            def update(self_):
                log.append('notify')
        st.add_listener(_L())
    return log


def canon_calls(op, calls, mk):
    """what is compared of a call trace: the client calls in order for a mutation or a get; for a listing the set of
    calls (one get_all per page - how many pages are asked for is the loop of retrieve_all, judged on its output)"""
    calls = [c for c in calls if c != 'notify' or mk.startswith('obs-')]
    if not (mk.endswith('redis') or mk.endswith('mongo')):
        calls = [c for c in calls if c == 'notify']
    if op.startswith(('all', 'retr')):
        return ','.join(sorted(set(calls)))
    return ','.join(calls)


def split_model(m):
    body = m.split(' || ')[0]
    return body.split(' | ') if body else []


def normalise(kind, out):
    """listing order of the fake Redis hash / enfold cache is insertion order (modelled); nothing to do"""
    return out


def run(ctx):
    out = Outcome()
    rng = ctx.rng
    per_kind = ctx.budget(25, 600)
    nmut = 12 if ctx.tier == 'quick' else 40
    lines, meta = [], []
    for kind in KINDS:
        for _ in range(per_kind):
            line, outs, desc = run_history(kind, rng, rng.randint(3, nmut), out)
            lines.append(line)
            meta.append((outs, desc))
            out.evaluations += len(outs)
            out.count('backend:' + kind)
    model = ctx.driver.run(lines) if ctx.driver else [None] * len(lines)
    blines = [('BACKEND %s %s' % (BACKEND_MODEL[d['backend']], l.split(' ', 3)[3]) if d['backend'] in BACKEND_MODEL else None)
              for l, (_, d) in zip(lines, meta)]
    bmodel = iter(ctx.driver.run([b for b in blines if b]) if ctx.driver else [])
    for line, bl, (outs, desc) in zip(lines, blines, meta):
        if bl is None or not ctx.driver:
            continue
        _concrete_model(out, line, bl, next(bmodel), outs, desc)
    for line, (outs, desc), m in zip(lines, meta, model):
        if m == 'bad-op':
            raise Broken('driver rejected: %s' % line[:300])
        out.traces += 1
        mo = split_model(m) if m else None
        # direct oracle on the implementation's own outputs: pages tile, retrieval == listing as multisets
        prob = direct_oracle(line, outs)
        if prob:
            f = Failure('oracle', desc, outs[:60], None, prob, 'Vakt.C08.pages_cover / retrieveAll_all / failed_mutation_noop',
                        line=line)
            f.signature = 'oracle:' + desc['backend']
            out.failures.append(f)
        elif mo is not None and mo != outs:
            i = next((j for j, (a, b) in enumerate(zip(outs, mo)) if a != b), min(len(outs), len(mo)))
            opsl = line.split(' ', 4)[4]
            f = Failure('disagreement', dict(desc, first_difference={'op_index': i, 'impl': outs[i] if i < len(outs) else None,
                                                                    'model': mo[i] if i < len(mo) else None}),
                        outs[max(0, i - 3):i + 1], mo[max(0, i - 3):i + 1],
                        'the abstract uid-keyed map gives a different output at operation %d' % i,
                        'Vakt.C08 (abstract store step)', line=line, size=i)
            f.signature = 'model:' + desc['backend']
            # the listing order of a backend (which policy lands on which page) is not prescribed: pages tiling the
            # collection and retrieval yielding everything exactly once are, and the direct oracle has judged those
            f.weak = len(outs) == len(mo) and all(a == b or listing_diff_is_order_only(a, b) for a, b in zip(outs, mo))
            out.failures.append(f)
        out.nontriv(line)
        if len(out.samples) < 4 and ('exists' in outs or 'rejected' in outs):
            out.samples.append({'backend': desc['backend'], 'history': desc['history'][:8], 'impl_outputs': outs[:14]})
    _large_collections(ctx, out, rng)
    _sql_statement_faults(ctx, out, rng)
    _uid_reused(ctx, out, rng)
    _listing_extremes(ctx, out, rng)
    out.rule = ('for each of %d backends/wrappers: histories of 3-%d mutations over uids %r and generated policies (string-'
                'based, rule-based with context, empty, and ones SQL/Mongo cannot convert because a later field is '
                'malformed), plus limit/offset/batch edge reads; after EVERY mutation the whole store is read back by get '
                'of each uid, five (limit, offset) pages and retrieve_all with batch 1, 2, 50; all outputs compared with '
                'the abstract map; evaluations = individual operations; every history is non-trivial (>=3 mutations)'
                % (len(KINDS), nmut, UIDS))
    out.rule += "; a fifth of the adds offer the very object handed to the previous add / update of that uid; for the serializing backends a reader changes the object a get handed out; SQL statement faults: the k-th statement of add / update / delete fails for every k (directly, behind the observable wrapper and the enfolding cache) and the storage's own later reads must show the stored set as it was"
    out.rule += '; 40% of the SQLite storages on plain connections (PRAGMA foreign_keys not set); a stream that re-uses one uid after delete / update on every backend and reads it back element for element; listings of uids of different types side by side (type-keeping backends) and of 1100 policies with pages / batches above a thousand'
    return out


def _concrete_model(out, line, bl, m, outs, desc):
    """the model of the concrete storage (Model/Backends.lean: the storage's methods as programs over its client's
    primitives, proved to refine the abstract map in Props/C08Backends.lean) against the implementation: outputs, and
    the client calls made by every operation"""
    if m == 'bad-op':
        raise Broken('driver rejected: %s' % bl[:300])
    mk = bl.split(' ', 2)[1]
    body = m.split(' || ')[0]
    per = body.split(' | ') if body else []
    mouts = [x.rsplit(' @', 1)[0] for x in per]
    mcalls = [x.rsplit(' @', 1)[1] if ' @' in x else '' for x in per]
    out.count('concrete-model:' + mk)
    d = dict(desc)
    d.pop('calls', None), d.pop('ops', None)
    if mouts != outs:
        i = next((j for j, (a, b) in enumerate(zip(outs, mouts)) if a != b), min(len(outs), len(mouts)))
        f = Failure('disagreement', dict(d, first_difference={'op_index': i, 'impl': outs[i] if i < len(outs) else None,
                                                              'model': mouts[i] if i < len(mouts) else None}),
                    outs[max(0, i - 3):i + 1], mouts[max(0, i - 3):i + 1],
                    'the model of the concrete storage gives a different output at operation %d' % i,
                    'Vakt.C08B (%s step)' % mk, line=bl, size=i)
        f.signature = 'concrete:' + desc['backend']
        f.weak = len(outs) == len(mouts) and all(a == b or listing_diff_is_order_only(a, b) for a, b in zip(outs, mouts))
        out.failures.append(f)
        return
    if mk not in TRACED:
        return
    ops = _split_ops(desc['ops'])
    for i, (op, ic, mc) in enumerate(zip(ops, desc['calls'], mcalls)):
        a, b = canon_calls(op, ic, mk), canon_calls(op, [c for c in mc.split(',') if c], mk)
        if a != b:
            f = Failure('disagreement', dict(d, first_difference={'op_index': i, 'op': op, 'impl_calls': a, 'model_calls': b}),
                        a, b, 'operation %d (%s) makes other client calls than the model of the storage' % (i, op.split(' ')[0]),
                        'Vakt.C08B (%s step, call trace)' % mk, line=bl, size=i)
            f.signature = 'calls:' + desc['backend']
            # which client calls a storage makes is not prescribed by the property - except that the observable wrapper
            # notifies exactly once after a mutation that returned and never otherwise (C11 states it; the oracle there)
            f.weak = True
            out.failures.append(f)
            return


def _split_ops(ops):
    return list(ops)


def _listing_extremes(ctx, out, rng):
    """listings at the edges: (a) uids of different types side by side (a string and an integer - no order between them) on the
    backends that keep the type; (b) a collection of more than a thousand policies listed with pages / batches larger than that:
    every policy exactly once, pages tile"""
    def fail(desc, got, why, sig):
        f = Failure('oracle', desc, got, None, why, 'Vakt.C08.pages_tile / retrieve_all_exactly_once')
        f.signature = sig
        out.failures.append(f)

    for kind in ('memory', 'redis-json', 'redis-pickle', 'mongo', 'observable:redis-pickle', 'enfold:mongo'):
        st = stores.make(kind)
        mixed = [Policy('1', actions=['a'], subjects=['s'], resources=['r']), Policy(2, actions=['a'], subjects=['s'], resources=['r']),
                 Policy('b', description='x'), Policy(10, description='y')]
        rng.shuffle(mixed)
        desc = {'backend': kind, 'history': ['add uid %r' % (p.uid,) for p in mixed] + ['get_all(10, 0)', 'retrieve_all(2)']}
        try:
            for p in mixed:
                st.add(p)
            page = [p.uid for p in st.get_all(10, 0)]
            every = [p.uid for p in st.retrieve_all(2)]
        except Exception as e:
            fail(desc, '%s: %s' % (type(e).__name__, str(e)[:160]), 'listing a collection whose uids are of different types raised',
                 'mixed-uid-types')
            return
        out.evaluations += 1
        out.count('mixed-uid-types:' + kind)
        want = sorted((repr(p.uid) for p in mixed))
        if sorted(map(repr, page)) != want or sorted(map(repr, every)) != want:
            fail(desc, {'get_all': page, 'retrieve_all': every}, 'every stored policy exactly once: %r' % want, 'mixed-uid-types')
            return
    n = 1100
    for kind in ['memory', 'redis-pickle', 'mongo'] + (['sqlite', 'redis-json'] if ctx.tier == 'thorough' else []):
        st = stores.make(kind)
        for i in range(n):
            st.add(Policy('p%04d' % i, actions=['a'], subjects=['s'], resources=['r%d' % i], effect='allow'))
        big = rng.randint(1001, 1600)
        desc = {'backend': kind, 'stored': n, 'page': big,
                'history': ['%d adds' % n, 'get_all(%d, 0)' % big, 'get_all(%d, %d)' % (big, big), 'retrieve_all(%d)' % big]}
        try:
            p1 = [p.uid for p in st.get_all(big, 0)]
            p2 = [p.uid for p in st.get_all(big, big)]
            every = [p.uid for p in st.retrieve_all(big)]
        except Exception as e:
            fail(desc, '%s: %s' % (type(e).__name__, str(e)[:160]), 'a page larger than a thousand raised', 'large-page')
            return
        out.evaluations += 1
        out.count('large-page:' + kind)
        if len(p1) != min(big, n) or len(set(p1 + p2)) != n or len(p1) + len(p2) != n or sorted(every) != sorted(set(every)) \
                or len(every) != n:
            fail(desc, {'first page': len(p1), 'second page': len(p2), 'distinct in both': len(set(p1 + p2)),
                        'retrieve_all yields': len(every), 'distinct': len(set(every))},
                 'a page of %d over %d policies holds %d, the next one the remaining %d; full retrieval yields each of the %d once'
                 % (big, n, min(big, n), n - min(big, n), n), 'large-page')
            return


def _uid_reused(ctx, out, rng):
    """a uid is a key and nothing more: a policy stored under a uid that held another policy before - deleted, or replaced by an update -
    is read back as the policy that was stored last, element for element.  Every backend; SQLite on connections with and without
    PRAGMA foreign_keys=ON (a plain connection does not enforce ON DELETE CASCADE)"""
    for _ in range(ctx.budget(6, 60)):
        for kind in KINDS:
            plain = kind.split(':')[-1] == 'sqlite' and rng.random() < 0.5
            stores.SQLITE_FOREIGN_KEYS = not plain
            try:
                st = stores.make(kind)
            finally:
                stores.SQLITE_FOREIGN_KEYS = True
            u = pick(rng, ['a', 'B', '1'])
            hist, last = [], None
            try:
                for step in range(rng.randint(2, 5)):
                    p, bad = gen_policy(rng, u, step)
                    if bad:
                        continue
                    if last is None:
                        st.add(p)
                        hist.append('add %s v%d' % (u, step))
                    elif rng.random() < 0.6:
                        st.delete(u)
                        st.add(p)
                        hist.extend(['delete %s' % u, 'add %s v%d' % (u, step)])
                    else:
                        st.update(p)
                        hist.append('update %s v%d' % (u, step))
                    last = p
                if last is None:
                    continue
                back = st.get(u)
                listed = [x for x in st.retrieve_all() if x.uid == u]
            except Exception as e:
                f = Failure('oracle', {'backend': kind + (' (plain connection)' if plain else ''), 'history': hist},
                            '%s: %s' % (type(e).__name__, str(e)[:160]), None, 'a legal history raised', 'Vakt.C08.refines_map')
                f.signature = 'uid-reused-raised'
                out.failures.append(f)
                return
            out.evaluations += 1
            out.count('uid-reused:' + kind.split(':')[-1] + ('-plain' if plain else ''))
            want = content_key(last)
            got = [content_key(x) for x in ([back] if back is not None else [])]
            got_l = [content_key(x) for x in listed]
            if got != [want] or got_l != [want]:
                f = Failure('oracle', {'backend': kind + (' (plain connection: PRAGMA foreign_keys not set)' if plain else ''),
                                       'history': hist + ['get %s' % u, 'retrieve_all()']},
                            {'get': [repr(back)[:300]], 'retrieve_all': [repr(x)[:300] for x in listed]}, None,
                            'the uid holds %r, stored last; what is read back differs' % (repr(last)[:300],),
                            'Vakt.C08.refines_map')
                f.signature = 'uid-reused'
                out.failures.append(f)
                return


def _sql_statement_faults(ctx, out, rng):
    """the k-th SQL statement sent by a mutation fails, for every k of every kind of mutation, directly and through the
    wrappers: the mutation raises, and the storage's own later reads - before and after another, successful mutation -
    show the stored set exactly as it was"""
    import sqlite3
    from sqlalchemy import event
    from vakt.policy import Policy
    for kind in ('sqlite', 'observable:sqlite', 'enfold:sqlite'):
        for op in ('add', 'update', 'delete'):
            total, k = None, 0
            while total is None or k < total:
                k += 1
                st = stores.make(kind)
                base = st
                while not hasattr(base, '_engine'):
                    base = getattr(base, 'storage', None) or getattr(base, 'back')
                old = Policy('u', actions=['get', 'del'], subjects=['s', 't'], resources=['r'], description='old')
                other = Policy('o', actions=['x'], subjects=['y'], resources=['<a|b>'], effect='deny', description='other')
                new = Policy('u', actions=['put'], subjects=['s2', '<a|b>'], resources=['r2', 'r3'], effect='deny',
                             description='new')
                fresh = Policy('n', actions=['a', 'b'], subjects=['c'], resources=['d', 'e'], description='n')
                later = Policy('z', actions=['x'], subjects=['y'], resources=['w'], description='later')
                st.add(old)
                st.add(other)
                arg = {'add': fresh, 'update': new, 'delete': 'u'}[op]

                def view():
                    try:
                        got = sorted((p.uid, content_key(p)) for p in capped(st.retrieve_all(2)))
                        one = [(u, None if q is None else content_key(q)) for u in ('u', 'o', 'n', 'z') for q in [st.get(u)]]
                        page = sorted((p.uid, content_key(p)) for p in capped(st.get_all(10, 0)))
                        return repr((got, one, page))
                    except Exception as e:
                        return 'unreadable: %s' % type(e).__name__
                before = view()
                count, armed = [0], [True]

                def on_exec(conn, cursor, statement, parameters, context, executemany, count=count, armed=armed, k=k):
                    if armed[0]:
                        count[0] += 1
                        if count[0] == k:
                            raise sqlite3.OperationalError('disk I/O error (injected at statement %d)' % k)
                event.listen(base._engine, 'before_cursor_execute', on_exec)
                try:
                    getattr(st, op)(arg)
                    outcome = 'returned'
                except Exception as e:
                    outcome = 'raised %s' % type(e).__name__
                armed[0] = False
                if total is None:
                    total = max(count[0], 1) if outcome == 'returned' else 12
                if outcome == 'returned':
                    if total == 12:
                        total = count[0]
                    continue
                out.evaluations += 1
                out.count('sql-statement-fault:%s:%s' % (kind, op))
                after = view()
                if after.startswith('unreadable: PendingRollbackError'):
                    # the session itself reports that the failed flush has to be rolled back before it is used again:
                    # the application that owns the session does so (the same convention as in C15's fault stream)
                    base.session.rollback()
                    out.count('sql-statement-fault:session-demanded-rollback')
                    after = view()
                desc = {'backend': kind, 'scenario': 'statement %d sent by %s() fails' % (k, op), 'outcome': outcome}
                prob = None
                if after != before:
                    prob = '%s() raised, but the storage now reads differently' % op
                    desc.update(read_before=before, read_after=after)
                else:
                    try:
                        st.add(later)
                        st.delete('z')
                    except Exception as e:
                        desc['later'] = 'raised %s' % type(e).__name__
                    after2 = view()
                    if after2 != before:
                        prob = ('%s() raised and changed nothing at first, but after a later add() and delete() of another '
                                'policy the storage reads differently' % op)
                        desc.update(read_before=before, read_after_later_mutation=after2)
                if prob:
                    f = Failure('oracle', desc, outcome, None, prob, 'Vakt.C08.failed_mutation_noop', size=k)
                    f.signature = 'sql-statement-fault:' + op
                    out.failures.append(f)
                    break


def _large_collections(ctx, out, rng):
    """collections larger than any internal page size (the enfolding cache populates in steps of 1000, retrieve_all
    defaults to 50): full retrieval yields every stored policy exactly once for every batch size, consecutive pages
    tile, and an enfolding cache created over the filled backend holds everything"""
    from vakt.policy import Policy
    from vakt.cache import EnfoldCache
    from vakt.storage.memory import MemoryStorage
    kinds = ['memory', 'observable:memory', 'redis-json'] + (['sqlite', 'mongo'] if ctx.tier == 'thorough' else [])
    for kind in kinds:
        n = pick(rng, [520, 1040, 1100, 2050])
        st = stores.make(kind)
        uids = ['u%05d' % i for i in range(n)]
        rng.shuffle(uids)
        for u in uids:
            st.add(Policy(u, actions=['a'], subjects=['s'], resources=['r'], description=u))
        targets = [(kind, st)]
        try:
            targets.append(('enfold-over-filled:' + kind, EnfoldCache(st, cache=MemoryStorage(), populate=True)))
        except Exception as e:
            f = Failure('oracle', {'backend': kind, 'stored': n}, repr(e), None, 'populating an enfolding cache over the '
                        'filled backend raised', 'Vakt.C08.retrieveAll_all')
            f.signature = 'large-populate-raised:' + kind
            out.failures.append(f)
        for name, s2 in targets:
            for batch in [1000, 501, 500, n, n + 1, n - 1, 50, 999, 1001, 333]:
                out.evaluations += 1
                out.count('large:' + name.split(':')[0])
                desc = {'backend': name, 'stored': n, 'batch': batch}
                try:
                    got = [p.uid for p in capped(s2.retrieve_all(batch), cap=3 * n + 10)]
                except Exception as e:
                    got = 'raised %s' % type(e).__name__
                if got == 'raised Runaway' or (isinstance(got, list) and sorted(got) != sorted(uids)):
                    miss = sorted(set(uids) - set(got))[:5] if isinstance(got, list) else None
                    f = Failure('oracle', desc, {'yielded': len(got) if isinstance(got, list) else got, 'missing': miss,
                                                 'duplicates': len(got) - len(set(got)) if isinstance(got, list) else None},
                                None, 'retrieve_all(%d) over %d stored policies does not yield every policy exactly once'
                                % (batch, n), 'Vakt.C08.retrieveAll_all', size=batch)
                    f.signature = 'large-retrieve:' + name.split(':')[0]
                    out.failures.append(f)
                    break
                elif not isinstance(got, list):
                    f = Failure('oracle', desc, got, None, 'retrieve_all raised', 'Vakt.C08.retrieveAll_all')
                    f.signature = 'large-retrieve-raised:' + name.split(':')[0]
                    out.failures.append(f)
                    break
            # consecutive pages tile the collection
            limit = pick(rng, [499, 500, 501, 1000, 1001, 7])
            pages, off = [], 0
            while off < n + limit:
                pg = [p.uid for p in capped(s2.get_all(limit, off), cap=limit + 5)]
                pages.extend(pg)
                off += limit
                if not pg:
                    break
            out.evaluations += 1
            if sorted(pages) != sorted(uids):
                f = Failure('oracle', {'backend': name, 'stored': n, 'limit': limit}, {'paged': len(pages)}, None,
                            'consecutive pages of %d do not tile the collection of %d' % (limit, n), 'Vakt.C08.pages_cover')
                f.signature = 'large-pages:' + name.split(':')[0]
                out.failures.append(f)
        out.nontriv('large %s %d' % (kind, n))


def direct_oracle(line, outs):
    toks = line.split(' ')
    ops = []
    i = 4
    while i < len(toks):
        t = toks[i]
        n = {'add': 4, 'upd': 4, 'del': 2, 'get': 2, 'all': 3, 'retr': 2}[t]
        ops.append(toks[i:i + n])
        i += n
    d = {}
    for op, o in zip(ops, outs):
        if o.startswith('other:'):
            return 'operation %r raised an unexpected exception: %s' % (' '.join(op), o)
        if op[0] == 'add':
            if o == 'done':
                if op[1] in d:
                    return 'add of an existing uid was accepted'
                d[op[1]] = op[2]
            elif o == 'exists' and op[1] not in d and op[3] == 'T':
                return 'add of a fresh uid refused with policy-exists'
        elif op[0] == 'upd':
            if o == 'done' and op[1] in d and op[3] == 'T':
                d[op[1]] = op[2]
        elif op[0] == 'del':
            d.pop(op[1], None)
        elif op[0] == 'get':
            want = 'pol %s' % d[op[1]] if op[1] in d else 'pol -'
            if o != want:
                return 'get %s returned %s, a plain dict says %s' % (op[1], o, want)
        elif op[0] == 'retr' and int(op[1]) > 0:
            got = sorted(x for x in o[5:].split(',') if x)
            want = sorted('%s:%s' % kv for kv in d.items())
            if got != want:
                return 'retrieve_all(%s) yielded %s, stored %s' % (op[1], got, want)
        elif op[0] == 'all':
            l, off = int(op[1]), int(op[2])
            if l < 0 or off < 0:
                if o != 'valueerror':
                    return 'negative limit/offset not rejected: %s' % o
            elif l == 0 and o != 'pols ':
                return 'limit 0 returned %s' % o
    return None


def replay(ctx, rp):
    m = ctx.driver.run([rp['line']])[0] if ctx.driver and rp.get('line') else None
    return {'model': m, 'still_fails': None, 'note': 're-run the check with the recorded seed to rebuild this history'}
