"""C15 - SQL mutations are committed when they return and atomic when they fail."""
import os
import shutil
import subprocess
import sys
import tempfile

from sqlalchemy.orm import sessionmaker, scoped_session

import proto
from common import capped, Failure, Outcome, Broken, REPO, HERE
from gen import pick
import polcase
import stores
from props.c08 import gen_policy, classify, UIDS
from vakt.storage.sql import SQLStorage
from vakt.storage.sql.model import Base

MODULE = 'Props.C15'
THEOREMS = ['Vakt.C15.op_committed_and_clean', 'Vakt.C15.run_clean', 'Vakt.C15.crash_anywhere',
            'Vakt.C15.other_session_sees', 'Vakt.C15.no_undo_of_returned']
# obligations over what was translated from /repo/vakt/storage/sql/__init__.py in this run: SQLStorage.add / update / delete (and get),
# the session calls made explicit as effects on (committed state, view, dirty), are the model's SqlSession.step - which failures are
# followed by a rollback, and that a mutation that returns has committed (lean/Gen/EquivSql.lean)
EXTRA_BUILD = ['+Gen.EquivSql']
GEN_IMPORTS = ['Gen.EquivSql']
GEN_THEOREMS = ['Vakt.GenEquiv.gen_sql_add', 'Vakt.GenEquiv.gen_sql_update', 'Vakt.GenEquiv.gen_sql_delete',
                'Vakt.GenEquiv.gen_sql_get', 'Vakt.GenEquiv.gen_sql_get_all', 'Vakt.GenEquiv.translatedSql_covers']
FLOOR = {'quick': 40, 'thorough': 500}
ASSUMPTIONS = ['SQLite + SQLAlchemy transaction semantics are trusted; durability against OS / power failure and other '
               'database engines are not exhibited',
               'the killed-writer crash (os._exit in a subprocess) runs in the thorough tier only']


def open_storage(path):
    engine = stores.make_engine('sqlite:///' + path)
    Base.metadata.create_all(engine)
    st = SQLStorage(scoped_session(sessionmaker(bind=engine)))
    st._engine = engine
    return st


def read_all(path, pid_of):
    """a fresh engine + session: what any other process sees now"""
    st = open_storage(path)
    try:
        return sorted('%s:%d' % (proto.enc_str(p.uid), pid_of(p)) for p in capped(st.retrieve_all(50)))
    except Exception as e:
        return ['unreadable:%s' % type(e).__name__]
    finally:
        st.session.remove()
        st._engine.dispose()


def _locked_database(ctx, out, rng):
    """another connection holds the write lock while a mutation commits: the mutation either raises (and changes nothing)
    or, if it returns normally, its effect is there for everybody else"""
    import sqlite3
    from sqlalchemy import create_engine, event
    from vakt.policy import Policy
    for op in ('add', 'update', 'delete') * ctx.budget(1, 6):
        d = tempfile.mkdtemp(prefix='vakt-c15-lock-')
        path = os.path.join(d, 'db.sqlite')
        try:
            engine = create_engine('sqlite:///' + path, connect_args={'timeout': 0.05})

            @event.listens_for(engine, 'connect')
            def _on_connect(dbapi_con, _rec):
                dbapi_con.execute('PRAGMA foreign_keys=ON')
            Base.metadata.create_all(engine)
            w = SQLStorage(scoped_session(sessionmaker(bind=engine)))
            old = Policy('u', actions=['get'], subjects=['s'], resources=['r'], effect='allow', description='old')
            new = Policy('u', actions=['put', 'get'], subjects=['s2'], resources=['r'], effect='deny', description='new')
            if op != 'add':
                w.add(old)
            if rng.random() < 0.5:
                w.get('u')                 # the writer's session has read before (a transaction may be open)
            keys = {}

            def pid_of(p):
                return keys.setdefault(polcase.policy_key(p), len(keys))
            before = read_all(path, pid_of)
            locker = sqlite3.connect(path, timeout=0, isolation_level=None)
            locker.execute('BEGIN IMMEDIATE')
            try:
                try:
                    getattr(w, op)('u' if op == 'delete' else new)
                    outcome = 'returned'
                except Exception as e:
                    outcome = 'raised %s' % type(e).__name__
            finally:
                locker.execute('ROLLBACK')
                locker.close()
            after = read_all(path, pid_of)
            want = {'add': ['%s:%d' % (proto.enc_str('u'), pid_of(new))], 'update': ['%s:%d' % (proto.enc_str('u'), pid_of(new))],
                    'delete': []}[op]
            out.evaluations += 1
            out.count('locked:%s:%s' % (op, outcome.split(' ')[0]))
            desc = {'scenario': 'another connection holds the write lock (BEGIN IMMEDIATE) while %s() runs' % op,
                    'outcome': outcome, 'seen_before': before, 'seen_after_the_lock_was_released': after}
            prob = None
            if outcome == 'returned' and after != want:
                prob = '%s() returned normally but another session does not see its effect' % op
            elif outcome != 'returned' and after != before:
                prob = '%s() raised yet the database changed' % op
            if prob:
                f = Failure('oracle', desc, outcome, None, prob, 'Vakt.C15.op_committed_and_clean / other_session_sees')
                f.signature = 'locked:' + op
                out.failures.append(f)
            w.session.remove()
            engine.dispose()
        finally:
            shutil.rmtree(d, ignore_errors=True)


def _statement_faults(ctx, out, rng):
    """the k-th SQL statement a mutation sends fails (an I/O error, a lost connection, a lock taken by somebody else
    between two statements), for every k: the mutation raises and nobody else sees any part of it - neither at once nor
    after a later operation of the same writer has committed"""
    import sqlite3
    from sqlalchemy import event
    from vakt.policy import Policy
    d = tempfile.mkdtemp(prefix='vakt-c15-stmt-')
    try:
        n = 0
        for op in ('add', 'update', 'delete'):
            total = None
            k = 0
            while total is None or k < total:
                k += 1
                n += 1
                path = os.path.join(d, 'db%d.sqlite' % n)
                w = open_storage(path)
                keys = {}

                def pid_of(p):
                    return keys.setdefault(polcase.policy_key(p), len(keys))
                old = Policy('u', actions=['get', 'del'], subjects=['s', 't'], resources=['r'], effect='allow', description='old')
                new = Policy('u', actions=['put', 'get'], subjects=['s2', '<a|b>'], resources=['r2', 'r3'], effect='deny',
                             description='new')
                fresh = Policy('n', actions=['a', 'b'], subjects=['c'], resources=['d', 'e'], description='n')
                later = Policy('z', actions=['x'], subjects=['y'], resources=['w'], description='later')
                w.add(old)
                arg = {'add': fresh, 'update': new, 'delete': 'u'}[op]
                before = read_all(path, pid_of)
                count = [0]
                armed = [True]

                def on_exec(conn, cursor, statement, parameters, context, executemany, count=count, armed=armed, k=k):
                    if not armed[0]:
                        return
                    count[0] += 1
                    if count[0] == k:
                        raise sqlite3.OperationalError('disk I/O error (injected at statement %d)' % k)
                event.listen(w._engine, 'before_cursor_execute', on_exec)
                try:
                    getattr(w, op)(arg)
                    outcome = 'returned'
                except Exception as e:
                    outcome = 'raised %s' % type(e).__name__
                armed[0] = False
                if total is None:
                    # the statements of an undisturbed run: measured once per operation on a throw-away database
                    w0 = open_storage(os.path.join(d, 'dry-%s.sqlite' % op))
                    w0.add(old)
                    c0 = [0]
                    event.listen(w0._engine, 'before_cursor_execute', lambda *a, c0=c0: c0.__setitem__(0, c0[0] + 1))
                    getattr(w0, op)(arg)
                    total = c0[0]
                    w0.session.remove()
                    w0._engine.dispose()
                after = read_all(path, pid_of)
                want = sorted('%s:%d' % (proto.enc_str(p.uid), pid_of(p)) for p in
                              {'add': [old, fresh], 'update': [new], 'delete': []}[op])
                out.evaluations += 1
                out.count('statement-fault:%s:%s' % (op, outcome.split(' ')[0]))
                desc = {'scenario': 'statement %d of about %d sent by %s() fails' % (k, total, op), 'outcome': outcome,
                        'seen_before': before, 'seen_after': after}
                prob = None
                if outcome == 'returned' and after != want:
                    prob = '%s() returned normally but another session does not see its effect' % op
                elif outcome != 'returned' and after != before:
                    prob = '%s() raised, yet another session sees a part of it' % op
                if prob is None and outcome != 'returned':
                    # a later operation of the same writer: whatever it commits, it is not a remainder of the failed one
                    later_out = 'returned'
                    for attempt in range(2):
                        try:
                            w.add(later)
                            later_out = 'returned'
                            break
                        except Exception as e:
                            later_out = 'raised %s' % type(e).__name__
                            try:
                                w.session.rollback()        # what an application does with a session that reports an error
                            except Exception:
                                pass
                    after2 = read_all(path, pid_of)
                    ok2 = [before, sorted(before + ['%s:%d' % (proto.enc_str('z'), pid_of(later))])]
                    desc['later_add'] = later_out
                    desc['seen_after_later_add'] = after2
                    if after2 not in ok2:
                        prob = 'a later add() of another policy made a part of the failed %s() visible' % op
                if prob:
                    f = Failure('oracle', desc, outcome, None, prob, 'Vakt.C15.crash_anywhere / op_committed_and_clean')
                    f.signature = 'statement-fault:' + op
                    out.failures.append(f)
                    w.session.remove()
                    w._engine.dispose()
                    break
                w.session.remove()
                w._engine.dispose()
    finally:
        shutil.rmtree(d, ignore_errors=True)


def _finalizer_placement(ctx, out, rng):
    """an abandoned, half-consumed listing (get_all / find_for_inquiry / retrieve_all) is finalised by the garbage
    collector at an arbitrary later moment - possibly in the middle of a mutation.  The moment is enumerated: the listing
    is put into a reference cycle and the collector's threshold is set so that the collection happens after t more
    container allocations, for a range of t.  Whatever the moment, a mutation that returns normally is committed whole."""
    import gc
    from vakt.policy import Policy
    from vakt.guard import Inquiry
    from vakt.checker import RegexChecker
    import sys
    old_thr = gc.get_threshold()
    thr = list(range(1, 40)) + list(range(40, 700, 7)) if ctx.tier == 'thorough' else sorted(rng.sample(range(1, 500), 12))
    # the second way of choosing the moment is exact: the collection is forced at the k-th function call made inside the
    # mutation (sys.setprofile counts Python and C calls); k is spread evenly, with jitter, over the calls of a dry run
    nprof = 400 if ctx.tier == 'thorough' else 60
    ts = [('thr', t) for t in thr] + [('prof', (i + rng.random()) / nprof) for i in range(nprof)]
    d = tempfile.mkdtemp(prefix='vakt-c15-gc-')
    calls_of = {}

    def run_counted(fn, at):
        """run fn() counting call events; at the `at`-th one collect garbage once; returns the number of events"""
        n = [0]

        def prof(frame, event, arg):
            if event in ('call', 'c_call'):
                n[0] += 1
                if n[0] == at:
                    sys.setprofile(None)
                    gc.collect()
                    sys.setprofile(prof)
        sys.setprofile(prof)
        try:
            fn()
        finally:
            sys.setprofile(None)
        return n[0]
    try:
        for n, (how, t) in enumerate(ts):
            path = os.path.join(d, 'db%d.sqlite' % n)
            w = open_storage(path)
            keys = {}

            def pid_of(p):
                return keys.setdefault(polcase.policy_key(p), len(keys))
            old = Policy('u', actions=['get'], subjects=['s'], resources=['r'], effect='allow', description='old')
            other = Policy('v', actions=['x'], subjects=['y'], resources=['z'], effect='deny', description='other')
            new = Policy('u', actions=['put', 'get'], subjects=['s2', 's3'], resources=['r2'], effect='deny', description='new')
            w.add(old)
            w.add(other)
            op = pick(rng, ['update', 'update', 'add', 'delete'])
            if how == 'prof' and op not in calls_of:
                # dry run on a throw-away database: how many calls does this mutation make?
                w0 = open_storage(os.path.join(d, 'dry%d.sqlite' % n))
                w0.add(old), w0.add(other)
                a0 = {'update': new, 'add': Policy('n', actions=['a'], subjects=['b'], resources=['c'], description='n'),
                      'delete': 'v'}[op]
                calls_of[op] = run_counted(lambda: getattr(w0, op)(a0), -1)
                w0.session.remove()
                w0._engine.dispose()
            arg = {'update': new, 'add': Policy('n', actions=['a'], subjects=['b'], resources=['c'], description='n'),
                   'delete': 'v'}[op]
            want = {'update': [new, other], 'add': [old, other, arg], 'delete': [old]}[op]
            gc.collect()
            gc.disable()
            try:
                kind = pick(rng, ['get_all', 'find', 'retrieve_all'])
                it = iter(w.get_all(5, 0) if kind == 'get_all' else
                          w.find_for_inquiry(Inquiry(action='get', subject='s', resource='r'), RegexChecker())
                          if kind == 'find' else w.retrieve_all(1))
                next(it, None)                    # half consumed ...
                cyc = [it]
                cyc.append(cyc)                   # ... and abandoned inside a reference cycle
                del it, cyc
                try:
                    if how == 'thr':
                        gc.set_threshold(t, 10 ** 6, 10 ** 6)
                        gc.enable()
                        getattr(w, op)(arg)
                    else:
                        run_counted(lambda: getattr(w, op)(arg), max(1, int(t * calls_of[op])))
                    outcome = 'returned'
                except Exception as e:
                    outcome = 'raised %s' % type(e).__name__
            finally:
                gc.set_threshold(*old_thr)
                gc.enable()
            seen = read_all(path, pid_of)
            wanted = sorted('%s:%d' % (proto.enc_str(p.uid), pid_of(p)) for p in want)
            out.evaluations += 1
            out.count('gc-placement:%s:%s' % (op, outcome.split(' ')[0]))
            if outcome == 'returned' and seen != wanted:
                f = Failure('oracle', {'scenario': 'a half-consumed %s listing is finalised by the garbage collector %s into %s()'
                                       % (kind, ('%d container allocations' % t) if how == 'thr' else
                                          ('at call %d of about %d' % (max(1, int(t * calls_of[op])), calls_of[op])), op),
                                       'outcome': outcome,
                                       'another_session_sees': seen, 'expected': wanted}, seen, None,
                            '%s() returned normally but another session sees neither the old nor the new state of the policy'
                            % op, 'Vakt.C15.op_committed_and_clean')
                f.signature = 'gc-placement:' + op
                out.failures.append(f)
                break
            w.session.remove()
            w._engine.dispose()
    finally:
        gc.set_threshold(*old_thr)
        gc.enable()
        shutil.rmtree(d, ignore_errors=True)


CHILD = r'''
import sys, pickle
sys.path.insert(0, %r); sys.path.insert(0, %r)
import os
from props.c15 import open_storage
path, blob = sys.argv[1], sys.argv[2]
ops = pickle.loads(bytes.fromhex(blob))
st = open_storage(path)
for op in ops:
    try:
        getattr(st, op[0])(op[1])
    except Exception:
        pass
os._exit(9)          # die without closing anything
'''


def run_history(ctx, rng, nops, out, kill=False):
    d = tempfile.mkdtemp(prefix='vakt-c15-')
    path = os.path.join(d, 'db.sqlite')
    keys, pool = {}, []

    def pid_of(p):
        k = polcase.policy_key(p)
        if k not in keys:
            keys[k] = len(pool)
            pool.append(k)
        return keys[k]
    try:
        w = open_storage(path)
        mops, human, problems = [], [], []
        impl_states, impl_outs = [], []
        tag = 0
        pending_child = []
        present = []
        for step in range(nops):
            r = rng.random()
            u = pick(rng, UIDS)
            if present and r >= 0.4 and rng.random() < 0.7:
                u = pick(rng, present)             # updates / deletes mostly hit stored uids
            tag += 1
            if r < 0.4:
                p, bad = gen_policy(rng, u, tag)
                op, arg = 'add', p
                mops.append('add %s %d %s' % (proto.enc_str(u), pid_of(p), 'F' if bad else 'T'))
                human.append('add %s%s' % (u, ' (malformed)' if bad else ''))
            elif r < 0.75:
                p, bad = gen_policy(rng, u, tag)
                op, arg = 'update', p
                mops.append('upd %s %d %s' % (proto.enc_str(u), pid_of(p), 'F' if bad else 'T'))
                human.append('update %s%s' % (u, ' (malformed)' if bad else ''))
            else:
                op, arg = 'delete', u
                mops.append('del %s' % proto.enc_str(u))
                human.append('delete %s' % u)
            if kill:
                pending_child.append((op, arg))
                o = None
            else:
                try:
                    getattr(w, op)(arg)
                    o = 'done'
                except Exception as e:
                    o = classify(e)
                impl_outs.append(o)
                if op == 'add' and o == 'done' and u not in present:
                    present.append(u)
                if op == 'delete' and u in present:
                    present.remove(u)
            mops.append('retr 50')
            if not kill:
                # sometimes the writer also reads through its own session (leaves an autobegun transaction open)
                if rng.random() < 0.3:
                    try:
                        w.get(pick(rng, UIDS))
                        list(w.get_all(2, 0))
                    except Exception as e:
                        problems.append('a read on the writer session raised %s' % type(e).__name__)
                # (1) another session / process observes the result at once
                impl_states.append(read_all(path, pid_of))
                # (2) a crash right here: the state must survive, nothing pending may surface later
                c = rng.random()
                if c < 0.25:
                    w.session.remove()                     # session discarded without commit
                    human.append('  crash: session discarded')
                elif c < 0.4:
                    w.session.remove()
                    w._engine.dispose()                    # engine disposed
                    w = open_storage(path)
                    human.append('  crash: engine disposed, new writer')
                if c < 0.4:
                    after = read_all(path, pid_of)
                    if after != impl_states[-1]:
                        problems.append('after the crash following %r the database shows %s, before it %s'
                                        % (human[-2], after, impl_states[-1]))
            if problems:
                break
        if kill:
            # the whole history is executed by a child process that dies with os._exit; only the final state is compared
            import pickle
            blob = pickle.dumps(pending_child).hex()
            subprocess.run([sys.executable, '-c', CHILD % (HERE, REPO), path, blob], timeout=120,
                           capture_output=True)
            impl_states = [read_all(path, pid_of)]
            # content ids assigned in the parent by building the same policies: make sure they are registered
            for _, a in pending_child:
                if not isinstance(a, str):
                    pid_of(a)
            impl_states = [read_all(path, pid_of)]
        line = 'STORE T F %d %s' % (len(mops), ' '.join(mops))
        return line, impl_outs, impl_states, {'history': human, 'killed_writer': kill}, problems
    finally:
        shutil.rmtree(d, ignore_errors=True)


def run(ctx):
    out = Outcome()
    rng = ctx.rng
    nh = ctx.budget(45, 800)
    maxops = 10 if ctx.tier == 'quick' else 30
    lines, meta = [], []
    for i in range(nh):
        kill = ctx.tier == 'thorough' and i % 10 == 0
        line, outs, states, desc, problems = run_history(ctx, rng, rng.randint(3, maxops), out, kill=kill)
        lines.append(line)
        meta.append((outs, states, desc, problems))
    model = ctx.driver.run(lines) if ctx.driver else [None] * len(lines)
    for line, (outs, states, desc, problems), m in zip(lines, meta, model):
        if m == 'bad-op':
            raise Broken('driver rejected: %s' % line[:300])
        out.traces += 1
        out.evaluations += len(outs) or 1
        out.count('killed-writer' if desc['killed_writer'] else 'in-process')
        mo = m.split(' || ')[0].split(' | ') if m else None
        if problems:
            f = Failure('oracle', desc, states[-2:], None, problems[0], 'Vakt.C15.crash_anywhere / op_committed_and_clean',
                        line=line)
            f.signature = 'oracle:crash'
            out.failures.append(f)
        elif mo is not None:
            m_outs = mo[0::2]
            m_states = [sorted(x for x in s[5:].split(',') if x) for s in mo[1::2]]
            if desc['killed_writer']:
                if states[0] != m_states[-1]:
                    f = Failure('disagreement', desc, states[0], m_states[-1],
                                'after the writing process was killed the database does not show exactly the effect of '
                                'the operations that had returned', 'Vakt.C15.crash_anywhere', line=line)
                    f.signature = 'model:killed'
                    out.failures.append(f)
            else:
                bad = None
                for i, (a, b) in enumerate(zip(outs, m_outs)):
                    if a != b:
                        bad = (i, 'outcome', a, b)
                        break
                    if states[i] != m_states[i]:
                        bad = (i, 'what a fresh session sees', states[i], m_states[i])
                        break
                if bad:
                    mut = [h for h in desc['history'] if not h.startswith('  ')]
                    f = Failure('disagreement', dict(desc, at_operation=mut[bad[0]] if bad[0] < len(mut) else bad[0]),
                                {bad[1]: bad[2]}, {bad[1]: bad[3]},
                                'after operation %d: %s differs from the committed state the property requires' % (bad[0], bad[1]),
                                'Vakt.C15.op_committed_and_clean / other_session_sees', line=line, size=bad[0])
                    f.signature = 'model:' + bad[1].split(' ')[0]
                    out.failures.append(f)
        out.nontriv(line)
        if len(out.samples) < 3 and any('crash' in h for h in desc['history']) and ('rejected' in outs or 'exists' in outs):
            out.samples.append({'history': desc['history'][:10], 'outcomes': outs[:8], 'fresh_session_sees': states[:4]})
    _locked_database(ctx, out, rng)
    _finalizer_placement(ctx, out, rng)
    _statement_faults(ctx, out, rng)
    out.rule = ('histories of 3-%d add / update / delete on a file-backed SQLite database through one long-lived writer '
                'session (duplicate adds, updates of absent uids, updates that fail half-way on a malformed later field, '
                'reads on the writer session in between); after EVERY operation a fresh engine + session reads the whole '
                'store and is compared with the committed state of the model; after every operation a crash is placed with '
                'probability 0.4 (session discarded without commit / engine disposed) and the database is re-read; thorough '
                'tier: every 10th history is executed by a child process that is killed with os._exit') % maxops
    return out


def replay(ctx, rp):
    m = ctx.driver.run([rp['line']])[0] if ctx.driver and rp.get('line') else None
    return {'model': m, 'still_fails': None, 'note': 're-run the check with the recorded seed to rebuild this history'}
