"""C16 - a decision is a pure function of the policy set and the inquiry."""
import copy

import proto
from common import Failure, Outcome, Broken, capped
import stores
from gen import pick, mutate_value, gen_str
from genrules import gen_inquiry
import polcase
from props.c05 import canon
from vakt.guard import Guard
from vakt.storage.memory import MemoryStorage
from vakt.checker import RegexChecker

MODULE = 'Props.C16'
THEOREMS = ['Vakt.C16.regexElem_eq_elemWith', 'Vakt.C16.fits_cache_transparent', 'Vakt.C16.history_independent',
            'Vakt.C16.ask_twice_same', 'Vakt.Lru.run_transparent']
FLOOR = {'quick': 200, 'thorough': 3000}


def tower_twin(rng, v):
    """an equal-under-== value of another numeric type somewhere inside v"""
    if isinstance(v, bool):
        return int(v)
    if isinstance(v, int):
        return float(v) if abs(v) < 2 ** 50 else v
    if isinstance(v, float) and v == int(v):
        return int(v)
    if isinstance(v, list) and v:
        i = rng.randrange(len(v))
        return v[:i] + [tower_twin(rng, v[i])] + v[i + 1:]
    if isinstance(v, dict) and v:
        k = pick(rng, list(v))
        d = dict(v)
        d[k] = tower_twin(rng, d[k])
        return d
    return v


def inquiry_pool(rng, q):
    pool = [q]
    for _ in range(3):
        m = dict(q)
        f = pick(rng, ['resource', 'action', 'subject'])
        m[f] = mutate_value(rng, q[f])
        pool.append(m)
    for f in ('resource', 'action', 'subject', 'context'):
        t = dict(q)
        t[f] = tower_twin(rng, q[f])
        if t[f] is not q[f]:
            pool.append(t)
    pool.append(gen_inquiry(rng))
    # a tuple-valued field (tuples and lists are different values for the rules; asking must leave the tuple a tuple)
    t = dict(q)
    f = pick(rng, ['resource', 'action', 'subject'])
    t[f] = tuple(q[f]) if isinstance(q[f], list) else pick(rng, [('read', 'write'), (1, 2), (q[f],) if not isinstance(q[f], (dict, list)) else ('x',)])
    pool.append(t)
    return pool


def plant_broken(rng, case):
    """a malformed element in front of, or behind, a matching one (the regex checker must stay fail-closed on every ask,
    and an ask that walked into the malformed element must leave nothing behind for an ask that matches the good one)"""
    for p in case['policies']:
        if rng.random() < 0.5:
            for fld in rng.sample(['subjects', 'resources', 'actions'], 3):
                if p[fld] and p[fld][0][0] == 'S':
                    bad = ('S', p['stag'] + p['stag'] + 'x' + p['etag'])
                    els = list(p[fld])
                    els.insert(pick(rng, [0, len(els), len(els), rng.randint(0, len(els))]), bad)
                    p[fld] = els
                    break


def plant_regex_ctx(rng, case):
    """a RegexMatch context rule over a numeric context value (its str() differs between 7, 7.0 and True)"""
    q = case['inquiry']
    if not isinstance(q['context'], dict):
        q['context'] = {}
    v = pick(rng, [7, 1, 0, 12])
    q['context']['n'] = v
    for p in case['policies']:
        if rng.random() < 0.7:
            p['context'] = [c for c in p['context'] if c[0] != 'n'] + [('n', ('regex', pick(rng, ['^%d$' % v, '%d$' % v, r'\d+$'])))]


def _state(st, skind, qobj):
    if skind == 'memory':
        return (canon([vars(o) for o in st.policies.values()]), canon(vars(qobj)), list(st.policies))
    pols = sorted(capped(st.retrieve_all()), key=lambda p: repr(p.uid))
    return ([polcase.policy_key(p) for p in pols], canon(vars(qobj)))


def fresh_answer(case, inq_abs, cache, skind='memory'):
    objs, _ = polcase.build_case(case)
    st = MemoryStorage() if skind == 'memory' else stores.make_base(skind)
    for o in objs:
        st.add(o)
    return Guard(st, polcase.make_checker(case['k'], cache)).is_allowed(proto.build_inquiry(inq_abs))


def _catalogues(ctx, out, rng):
    """policies that enumerate many elements per field (a catalogue of documents, a list of users), kept in a storage
    that builds new Policy objects for every search (SQLite / Mongo / Redis); one long-living guard is asked a few
    hundred inquiries in shuffled rounds: every answer equals the answer over the same policies in memory given by a
    fresh guard asked only that inquiry (anything remembered per policy object or per field would show up here)"""
    from vakt.policy import Policy
    from vakt.guard import Inquiry
    for rnd in range(ctx.budget(2, 12)):
        skind = pick(rng, ['sqlite', 'sqlite', 'mongo', 'redis-json'])
        k = pick(rng, ['KR', 'KR', 'KX', 'KF'])
        names = ['doc', 'img', 'vid', 'log', 'key']
        pols, resources, subjects, actions = [], [], ['alice', 'bob', 'eve', 'mallory', 'zed'], ['get', 'read', 'write', 'list']
        for i, nm in enumerate(rng.sample(names, rng.randint(3, 5))):
            n_el = rng.randint(8, 14)
            res = ['%s-%d' % (nm, j) for j in range(n_el)]
            if k == 'KR' and rng.random() < 0.6:
                res.insert(rng.randint(0, len(res)), '<%s-x[0-9]+>' % nm)
            resources += res[:3]
            subs = rng.sample(subjects, rng.randint(1, 3)) if rng.random() < 0.7 else \
                ['user-%d' % j for j in range(rng.randint(8, 11))] + rng.sample(subjects, 2)
            acts = rng.sample(actions, rng.randint(1, 3))
            if k == 'KR' and rng.random() < 0.4:
                acts = ['<%s>' % '|'.join(acts)]
            pols.append(dict(uid='c%d' % i, effect=pick(rng, ['allow', 'allow', 'allow', 'deny']), subjects=subs, actions=acts,
                             resources=res))
        resources += ['zzz', 'doc-x7', 'img-x12']

        def build():
            return [Policy(p['uid'], effect=p['effect'], subjects=list(p['subjects']), actions=list(p['actions']),
                           resources=list(p['resources'])) for p in pols]
        try:
            st = stores.make_base(skind)
            for o in build():
                st.add(o)
        except Exception:
            continue
        mem = MemoryStorage()
        for o in build():
            mem.add(o)
        inqs = [(s_, a_, r_) for s_ in subjects for a_ in actions for r_ in resources]
        rng.shuffle(inqs)
        inqs = inqs[:80]
        guard = Guard(st, polcase.make_checker(k, (pick(rng, [None, 0, 2, 1024]),)))
        asked = []
        for rep in range(3):
            order = list(inqs)
            rng.shuffle(order)
            for s_, a_, r_ in order:
                q = Inquiry(subject=s_, action=a_, resource=r_)
                a = guard.is_allowed(q)
                want = Guard(mem, polcase.make_checker(k)).is_allowed(Inquiry(subject=s_, action=a_, resource=r_))
                asked.append((s_, a_, r_))
                out.evaluations += 1
                if a is not want:
                    f = Failure('oracle', {'checker': k, 'storage': skind, 'policies': pols, 'asked_before': len(asked) - 1,
                                           'last_inquiries': asked[-6:]}, a, None,
                                'a fresh guard over the same policies in memory, asked only this inquiry, says %s' % want,
                                'Vakt.C16.history_independent')
                    f.signature = 'history-catalogue:' + k
                    out.failures.append(f)
                    return
        out.count('catalogue:%s:%s' % (skind, k))
        out.nontriv(repr(('catalogue', pols, skind, k)))


def run(ctx):
    out = Outcome()
    rng = ctx.rng
    n = ctx.budget(400, 15000)
    lines, meta = [], []
    _catalogues(ctx, out, rng)
    for _ in range(n):
        case = polcase.gen_store_case(rng)
        if case['k'] == 'KR':
            plant_broken(rng, case)
        if rng.random() < 0.25:
            plant_regex_ctx(rng, case)
        try:
            objs, _ = polcase.build_case(case)
        except Exception:
            continue
        k = case['k']
        cap = pick(rng, [None, 0, 1, 2, 1024])
        # the guard under test mostly sits on the in-memory store; in a fifth of the histories on another backend
        # (a search must leave nothing behind in the storage object either)
        skind = 'memory'
        st = MemoryStorage()
        # (policies with custom tag characters lose their class through those backends: outside their domain)
        if rng.random() < 0.25 and all(p.get('stag', '<') == '<' and p.get('etag', '>') == '>' for p in case['policies']):
            skind = pick(rng, ['sqlite', 'mongo', 'mongo40', 'redis-json'])
            try:
                alt = stores.make_base(skind)
                for o in objs:
                    alt.add(copy.deepcopy(o))
                st = alt
            except Exception:
                skind, st = 'memory', MemoryStorage()     # a malformed element the backend refuses: stay in memory
        if skind == 'memory':
            for o in objs:
                st.add(o)
        out.count('storage:' + skind)
        guard = Guard(st, polcase.make_checker(k, (cap,)))
        if rng.random() < 0.25:
            # the same through the decision cache (every ask hashes and compares the inquiry): still nothing may change
            from vakt.cache import create_cached_guard
            guard = create_cached_guard(st, polcase.make_checker(k, (cap,)), maxsize=pick(rng, [None, 1, 2, 64]))[0]
            out.count('guard:cached')
        pool = inquiry_pool(rng, case['inquiry'])
        seq = [pick(rng, pool) for _ in range(rng.randint(2, 30))]
        seq.append(seq[0])
        hist = []
        for qa in seq:
            try:
                qobj = proto.build_inquiry(qa)
            except Exception:
                continue
            before = _state(st, skind, qobj)
            a = guard.is_allowed(qobj)
            after = _state(st, skind, qobj)
            f0 = fresh_answer(case, qa, None)
            backend_specific = False
            hist.append((repr(qa), a))
            out.evaluations += 1
            desc = {'checker': k, 'cache': cap, 'storage': skind, 'policies': [repr(p) for p in case['policies']],
                    'history': [h[0] for h in hist], 'answers': [h[1] for h in hist]}
            if a is not f0 and skind != 'memory':
                # which candidates a backend's search returns is C07's subject (a recorded finding lives there: a search
                # that the server refuses); what C16 prescribes is that the history does not matter - so the judge is a
                # fresh guard over a fresh storage of the same kind, asked only this inquiry
                try:
                    f0 = fresh_answer(case, qa, None, skind)
                    out.count('judged-on-fresh-storage-of-the-same-kind')
                    backend_specific = a is f0       # (the stateless model below is a model of the in-memory answer)
                except Exception:
                    pass
            if a is not f0:
                f = Failure('oracle', desc, a, None, 'a fresh guard over a fresh copy, asked only this inquiry, says %s' % f0,
                            'Vakt.C16.history_independent')
                f.signature = 'history:' + k
                out.failures.append(f)
                break
            if before != after:
                f = Failure('oracle', desc, 'state changed', None, 'asking modified the stored policies or the inquiry',
                            'C16 preservation clause (decided by the correspondence: canonical dumps before/after)')
                f.signature = 'mutated:' + k
                out.failures.append(f)
                break
            try:
                if not backend_specific:
                    lines.append(polcase.decide_line(case, objs, qobj))
                    meta.append((desc, a))
            except proto.ProtoError:
                pass
        out.traces += 1
        if len(hist) >= 3:
            out.nontriv(repr((case['policies'], [h[0] for h in hist], cap)))
            if len(out.samples) < 3 and any(h[1] for h in hist):
                out.samples.append({'checker': k, 'cache': cap, 'n_policies': len(objs),
                                    'history': [(h[0][:80], h[1]) for h in hist[:6]]})
    model = ctx.driver.run(lines) if ctx.driver else [None] * len(lines)
    for line, (desc, a), m in zip(lines, meta, model):
        mm = polcase.parse_decide(m)
        if mm['kind'] == 'bad-op':
            raise Broken('driver rejected: %s' % line[:300])
        if mm['kind'] != 'ok':
            out.unmodelled += 1
        elif mm['answer'] is not a:
            f = Failure('disagreement', desc, a, m, 'the (stateless) model answers differently at this point of the history',
                        'Vakt.C16.history_independent', line=line)
            f.signature = 'model:' + desc['checker']
            out.failures.append(f)
    out.rule = ('a fixed generated policy set (malformed elements planted before matching ones for the regex checker), a '
                'pool of inquiries (the target, one-point mutations, numeric-tower twins 1/1.0/True, a random one), '
                'sequences of 3-31 asks with repeats through one guard with compile-cache capacity None/0/1/2/1024; each '
                'answer compared with a fresh guard over freshly built policies and with the stateless model; canonical '
                'dumps of store and inquiry before/after each ask; non-trivial = history of >=3 asks')
    return out


def replay(ctx, rp):
    c = rp['case']
    case = {'k': c['checker'], 'policies': [eval(p) for p in c['policies']], 'inquiry': eval(c['history'][-1])}
    objs, _ = polcase.build_case(case)
    skind = c.get('storage', 'memory')
    st = MemoryStorage() if skind == 'memory' else stores.make_base(skind)
    for o in objs:
        st.add(o)
    guard = Guard(st, polcase.make_checker(case['k'], (c['cache'],)))
    a = None
    for h in c['history']:
        a = guard.is_allowed(proto.build_inquiry(eval(h)))
    f0 = fresh_answer(case, eval(c['history'][-1]), None, skind)
    return {'answer_after_history': a, 'fresh_guard': f0, 'still_fails': a is not f0}
