"""C04 - rules checker: OR over elements, AND over attributes, errors never match."""
import proto
from common import Failure, Outcome, Broken
from gen import pick, gen_value, gen_atom, KEYS
from genrules import gen_rule, gen_rule_elem, gen_attr_elem, gen_inquiry, _true_rule
import polcase
from vakt.checker import RulesChecker

MODULE = 'Props.C04'
THEOREMS = ['Vakt.C04.rules_field_iff', 'Vakt.C04.rules_total', 'Vakt.C04.rules_pos_irrelevant',
            'Vakt.C04.attrs_ok_iff', 'Vakt.C04.never_match_cases']
# RulesChecker.fits (with _check_satisfied), translated from /repo/vakt/checker.py in this run, is the model's rulesFits
# (lean/Gen/EquivRulesChecker.lean; a separate build target)
EXTRA_BUILD = ['+Gen.EquivRulesChecker']
GEN_IMPORTS = ['Gen.EquivRulesChecker']
GEN_THEOREMS = ['Vakt.GenEquiv.gen_RulesChecker_fits', 'Vakt.GenEquiv.check_satisfied_eval',
                'Vakt.GenEquiv.translatedRulesChecker_covers']
FLOOR = {'quick': 300, 'thorough': 5000}
FIELDS = {'a': ('actions', 'action'), 's': ('subjects', 'subject'), 'r': ('resources', 'resource')}


class LazyDict(dict):
    """a dictionary whose attributes are computed on access (membership and item access go through the overridden
    methods; the underlying dict is empty)"""
    def __init__(self, backing):
        super().__init__()
        self._backing = dict(backing)

    def __contains__(self, k):
        return k in self._backing

    def __getitem__(self, k):
        return self._backing[k]


TRUTHY_TWINS = {True: [1, 'yes', [0], 2.5, (None,)], False: [0, '', None, [], 0.0]}


def elem_ok(e, what, inq):
    """direct restatement of 'this element matches' on the real objects"""
    if type(e) is dict:
        if not e or not isinstance(what, dict):
            return False
        for k, r in e.items():
            if k not in what:
                return False
            try:
                if not r.satisfied(what[k], inq):
                    return False
            except Exception:
                return False
        return True
    if callable(getattr(e, 'satisfied', None)):
        try:
            return bool(e.satisfied(what, inq))
        except Exception:
            return False
    return False


def gen_case(rng):
    inq = gen_inquiry(rng)
    f = pick(rng, ['a', 's', 'r'])
    what = inq[FIELDS[f][1]]
    if rng.random() < 0.25:
        what = gen_value(rng, 2)
        inq[FIELDS[f][1]] = what
    n = pick(rng, [0, 1, 1, 2, 2, 3, 4])
    es = []
    for _ in range(n):
        r = rng.random()
        if r < 0.45:
            es.append(gen_rule_elem(rng, what, inq))
        elif r < 0.6:
            es.append(('R', gen_rule(rng, what, inq, 2)))
        elif r < 0.7:
            es.append(('R', pick(rng, [('raise', pick(rng, proto.RAISE_NAMES)), ('gt', 'zz'), ('allin', [1]),
                                       ('neither',), ('const', False)])))
        elif r < 0.85:
            es.append(gen_attr_elem(rng, what if isinstance(what, dict) else {'name': 'a'}, inq, hit=False))
        elif r < 0.92:
            es.append(('A', []))
        else:
            es.append(('A', [(pick(rng, KEYS), ('junk', pick(rng, [1, 'x', None])))]))
    if isinstance(what, dict) and rng.random() < 0.12:
        # an attribute the value does NOT have, guarded by a rule that is satisfied by anything / nothing / falsy values,
        # next to attributes it has: a missing attribute never matches, whatever its rule is
        missing = pick(rng, [k for k in KEYS + ['zz', 'missing'] if k not in what] or ['zz'])
        kvs = [(k, _true_rule(rng, what[k], inq)) for k in list(what)[:rng.randint(0, 2)]]
        kvs.insert(rng.randint(0, len(kvs)), (missing, pick(rng, [('any',), ('any',), ('neither',), ('falsy',), ('eq', None),
                                                                  ('not', ('truthy',)), ('eq', 0), ('ne', 'x')])))
        es.insert(rng.randint(0, len(es)), ('A', kvs))
    if es and rng.random() < 0.5:
        # a matching element at a chosen position, non-matching ones around it
        i = rng.randrange(len(es))
        if isinstance(what, dict) and what and rng.random() < 0.6:
            es[i] = gen_attr_elem(rng, what, inq, hit=True)
        else:
            es[i] = ('R', _true_rule(rng, what, inq))
    pol = {'uid': 1, 'effect': 'allow', 'desc': None, 'stag': '<', 'etag': '>', 'subjects': [], 'resources': [],
           'actions': [], 'context': []}
    pol[FIELDS[f][0]] = es
    return pol, f, what, inq


def run(ctx):
    out = Outcome()
    rng = ctx.rng
    n = ctx.budget(4000, 200000)
    cases = []
    for _ in range(n):
        pol, f, what, inq = gen_case(rng)
        try:
            pobj = proto.build_policy(pol)
            if rng.random() < 0.12:
                # the same definition, but the element lists are filled in place after the policy was created empty
                # (no attribute assignment happens): what a field matches depends on the elements it holds
                full = pobj
                pobj = proto.build_policy(dict(pol, subjects=[], resources=[], actions=[]))
                for fld in ('subjects', 'resources', 'actions'):
                    getattr(pobj, fld).extend(getattr(full, fld))
            # a user rule may answer with any truthy / falsy object, not only with a bool
            for e in getattr(pobj, FIELDS[f][0]):
                for r in ([e] if isinstance(e, proto.ConstRule) else
                          [x for x in e.values() if isinstance(x, proto.ConstRule)] if type(e) is dict else []):
                    if type(r.answer) is bool and rng.random() < 0.6:
                        r.answer = pick(rng, TRUTHY_TWINS[r.answer])
            iobj = proto.build_inquiry(inq)
            what_real = getattr(iobj, FIELDS[f][1])
            line = 'FITS KU %s %s %s %s' % (polcase.pol_line(pol, pobj), f, proto.enc_value(what_real),
                                           proto.enc_inquiry_obj(iobj))
        except Exception:
            out.count('unconstructible')
            continue
        cases.append((pol, f, what_real, inq, pobj, iobj, line))
    model = ctx.driver.run([c[6] for c in cases]) if ctx.driver else [None] * len(cases)
    ch = RulesChecker()
    import collections
    for (pol, f, what, inq, pobj, iobj, line), m in zip(cases, model):
        out.evaluations += 1
        fname = FIELDS[f][0]
        plain = what
        if type(what) is dict and rng.random() < 0.2:
            # the same dictionary as a dict subclass that answers look-ups of missing keys (defaultdict / Counter):
            # an attribute it does not contain is still missing
            what = pick(rng, [lambda d: collections.defaultdict(lambda: None, d), lambda d: collections.defaultdict(int, d),
                              lambda d: collections.defaultdict(str, d), lambda d: collections.Counter(d),
                              lambda d: LazyDict(d)])(what)
            if isinstance(what, LazyDict) and not all(type(e) is dict for e in getattr(pobj, fname)):
                what = collections.defaultdict(lambda: None, plain)      # whole-value rules compare the dictionary itself
            out.count('dict-subclass-value')
        elif type(what) is dict and rng.random() < 0.15:
            # the same dictionary with one more attribute whose name is not a string (an integer id, a tuple, None):
            # extra attributes never matter to an attribute element, whatever their names are
            what = dict(what)
            what[pick(rng, [7, (1, 2), None, 2.5, frozenset([1]), True])] = pick(rng, [3, 'x', None])
            if not all(type(e) is dict for e in getattr(pobj, fname)):
                m = None              # a whole-value rule sees the extra attribute: judged by the direct oracle only
            out.count('non-string-attribute-name')
        try:
            a = ch.fits(pobj, fname, what, iobj)
            impl = 'ok T' if a else 'ok F'
            strict = type(a) is bool
        except Exception as e:
            impl = 'raise'
            strict = True
        mutated = what is not plain and not isinstance(what, LazyDict) and type(what) is not dict and dict(what) != plain
        offered = what
        what = plain
        elems = getattr(pobj, fname)
        # judged on the object that was offered: a rule applied to the whole value may look at its class or its text
        # (RegexMatch matches str(value), and the text of a defaultdict is not the text of a dict)
        oks = [elem_ok(e, offered, iobj) for e in elems]
        want = 'ok T' if any(oks) else 'ok F'
        desc = {'policy': repr(pol), 'field': f, 'what': repr(what), 'inquiry': repr(inq), 'elem_ok': oks}
        if m == 'bad-op':
            raise Broken('driver rejected: %s' % line[:300])
        if m == 'unmodelled':
            out.unmodelled += 1
        out.count('answer:' + impl)
        out.count('elems:%d' % len(elems))
        if any(oks):
            out.count('match-pos:%d' % oks.index(True))
        fail = None
        if mutated:
            fail = Failure('oracle', desc, impl, m, 'checking the field changed the inquiry value (a dict subclass with '
                           '__missing__ got new keys)', 'Vakt.C04.rules_field_iff (a missing attribute is not looked up)', line=line)
            fail.signature = 'value-mutated'
        elif impl != want:
            fail = Failure('oracle', desc, impl, m, 'direct oracle (OR over elements, AND over attributes, errors never '
                           'match) says ' + want, 'Vakt.C04.rules_field_iff / rules_total', line=line)
            fail.signature = 'oracle'
        elif m not in (None, 'unmodelled') and m != impl:
            fail = Failure('disagreement', desc, impl, m, 'direct oracle says ' + want, 'Vakt.C04.rules_field_iff',
                           line=line)
            fail.signature = 'model'
        if fail:
            out.failures.append(fail)
        nontrivial = len(elems) >= 2 or any(type(e) is dict and len(e) >= 1 for e in elems)
        if nontrivial and m != 'unmodelled':
            out.nontriv(line)
            if len(out.samples) < 4 and any(oks):
                out.samples.append({'line': line[:500], 'impl': impl, 'model': m, 'oracle': want, 'elem_ok': oks})
    out.rule = ('inquiry value drawn first; field of 0-4 elements mixing aimed rule trees, attribute dictionaries (with '
                'missing keys, junk entries, empty), raising rules; a matching element placed at a random position; '
                'non-trivial = >=2 elements or an attribute dictionary; distinct by protocol line')
    out.rule += '; a seventh of the dictionary values get one more attribute whose name is not a string (an integer, a tuple, None, a float, a frozenset)'
    return out


def replay(ctx, rp):
    c = rp['case']
    pol, f, what, inq = eval(c['policy']), c['field'], eval(c['what']), eval(c['inquiry'])
    pobj = proto.build_policy(pol)
    iobj = proto.build_inquiry(inq)
    try:
        a = RulesChecker().fits(pobj, FIELDS[f][0], what, iobj)
        impl = 'ok T' if a else 'ok F'
    except Exception:
        impl = 'raise'
    oks = [elem_ok(e, what, iobj) for e in getattr(pobj, FIELDS[f][0])]
    want = 'ok T' if any(oks) else 'ok F'
    m = ctx.driver.run([rp['line']])[0] if ctx.driver and rp.get('line') else None
    return {'impl': impl, 'oracle': want, 'model': m,
            'still_fails': impl != want or (m not in (None, 'unmodelled') and m != impl)}
