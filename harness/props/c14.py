"""C14 - concurrent decisions and in-memory mutations are linearizable."""
import collections
import copy
import logging

from common import capped, Failure, Outcome, Broken
from gen import pick
import itertools
from sched.scheduler import Scheduler, SchedLock, SharedDict, Stuck, instrument_locks, _REAL_LOCK, _REAL_RLOCK
from vakt.storage.memory import MemoryStorage
from vakt.policy import Policy
from vakt.guard import Guard, Inquiry
from vakt.checker import RegexChecker
from vakt.exceptions import PolicyExistsError
from vakt.cache import create_cached_guard

MODULE = 'Props.C14'
THEOREMS = ['Vakt.C14.lock_mutex', 'Vakt.C14.no_interleaving_error', 'Vakt.C14.add_once',
            'Vakt.C14.decision_linearizable', 'Vakt.C14.snapshot_is_store_version', 'Vakt.C14.cstep_inv',
            'Vakt.C14.generation_no_stale', 'Vakt.C14.stale_insert_possible']
FLOOR = {'quick': 200, 'thorough': 3000}
ASSUMPTIONS = ['granularity: control changes hands at every access to the storage dict, its lock and the decision cache '
               '(exhaustive enumeration up to the preemption bound) and, in the random deep schedules, additionally at every '
               'source line in vakt and every bytecode instruction in vakt/storage/memory.py (sys.settrace); GIL switch points '
               'inside C-implemented operations, free-threaded builds and memory-model effects cannot be exhibited',
               'functools.lru_cache is C code: the scheduler cannot preempt inside it, only around the wrapped call']

logging.getLogger('vakt').setLevel(logging.CRITICAL)
Q = Inquiry(action='get', subject='max', resource='book')


def pol(uid, effect='allow', subj='max'):
    return Policy(uid, actions=['get'], subjects=[subj], resources=['book'], effect=effect)


class World:
    """a MemoryStorage under a scheduler.  Where the storage keeps its policies in a plain dict attribute and a
    threading lock (the shipped layout) both are replaced by instrumented stand-ins, which gives yield points at every
    dict access; any other layout is run as it is (yield points at its locks and, in line mode, at every source line /
    bytecode).  Linearizability is judged on call intervals, independent of the instrumentation: every mutation call is
    wrapped and stamped with a logical clock at its start and at its return."""
    def __init__(self, sched, initial):
        self.sched = sched
        self.log = []
        self.fine = []               # dict-level versions (instrumented layout only; used by the trace replay)
        self.st = MemoryStorage()
        pol = getattr(self.st, 'policies', None)
        if type(pol) is dict:
            d = SharedDict(sched, self.log, self.fine)
            for p in initial:
                dict.__setitem__(d, p.uid, p)
            self.fine.append(dict(dict.items(d)))
            self.st.policies = d
        else:
            for p in initial:
                self.st.add(p)
        lk = getattr(self.st, 'lock', None)
        if isinstance(lk, (_REAL_LOCK, _REAL_RLOCK)):
            self.st.lock = SchedLock(sched, self.log, reentrant=isinstance(lk, _REAL_RLOCK))
        instrument_locks(sched, [self.st], self.log)
        self.initial = {p.uid: p for p in initial}
        self.clock = 0
        self.mutations = []          # [start, end, name, arg]
        for name in ('add', 'update', 'delete'):
            self._wrap(name)

    def _wrap(self, name):
        orig = getattr(self.st, name)

        def wrapped(arg, _orig=orig, _name=name):
            self.clock += 1
            rec = [self.clock, None, _name, arg]
            self.mutations.append(rec)
            try:
                return _orig(arg)
            finally:
                self.clock += 1
                rec[1] = self.clock
        setattr(self.st, name, wrapped)

    def tick(self):
        self.clock += 1
        return self.clock

    def snapshot(self):
        pol = getattr(self.st, 'policies', None)
        if isinstance(pol, dict):
            return dict(dict.items(pol))
        return {p.uid: p for p in capped(self.st.retrieve_all())}

    @staticmethod
    def _apply(state, m):
        _, _, name, arg = m
        s = dict(state)
        if name == 'add':
            if arg.uid not in s:
                s[arg.uid] = arg
        elif name == 'update':
            if arg.uid in s:
                s[arg.uid] = arg
        else:
            s.pop(arg, None)
        return s

    def states_between(self, ds, de):
        """every policy set some linearization of the mutation calls puts between the two instants: the calls that
        had returned before `ds` are applied (in any order), those overlapping [ds, de] in any order, any prefix"""
        INF = float('inf')
        done = [m for m in self.mutations if (m[1] or INF) < ds]
        over = [m for m in self.mutations if not ((m[1] or INF) < ds) and m[0] < de]
        out = []
        for dperm in itertools.permutations(done):
            base = dict(self.initial)
            for m in dperm:
                base = self._apply(base, m)
            INF2 = float('inf')

            def before(x, y):
                """call x had returned before call y started"""
                return (x[1] or INF2) < y[0]
            for r in range(len(over) + 1):
                for seq in itertools.permutations(over, r):
                    # a linearization respects the real-time order of the calls: no call is placed before one that had
                    # returned before it started, and none is left out while a later-started one is in
                    if any(before(seq[j], seq[i]) for i in range(len(seq)) for j in range(i + 1, len(seq))):
                        continue
                    if any(before(m, x) and m not in seq for x in seq for m in over):
                        continue
                    st = base
                    for m in seq:
                        st = self._apply(st, m)
                    if st not in out:
                        out.append(st)
        return out

    def decide_on(self, version):
        ms = MemoryStorage()
        for p in version.values():
            ms.add(copy.copy(p))
        return Guard(ms, RegexChecker()).is_allowed(Q)


def decision_body(world, guard, marks, name):
    def body():
        marks[name + ':start'] = world.tick()
        r = guard.is_allowed(Q)
        marks[name + ':end'] = world.tick()
        return r
    return body


# ---- scenarios: (name, initial policies, builder(world) -> (bodies, kinds, post_check))

def scenarios():
    S = []

    def sc(name, initial, make):
        S.append((name, initial, make))

    def dec_vs(mut_name, initial, mut):
        def make(w):
            g = Guard(w.st, RegexChecker())
            marks = {}
            return [decision_body(w, g, marks, 'd0'), lambda: mut(w.st)], ['decision', 'mutation'], marks
        sc('decision|' + mut_name, initial, make)

    dec_vs('add-allow', [pol('a')], lambda st: st.add(pol('b')))
    dec_vs('add-deny', [pol('a')], lambda st: st.add(pol('c', 'deny')))
    dec_vs('delete-allow', [pol('a'), pol('b')], lambda st: st.delete('a'))
    dec_vs('delete-deny', [pol('a'), pol('c', 'deny')], lambda st: st.delete('c'))
    dec_vs('update-to-deny', [pol('a')], lambda st: st.update(pol('a', 'deny')))
    dec_vs('add-first', [], lambda st: st.add(pol('a')))
    # a store larger than the page of 50 that the paged listings use: a matching allow policy first, the matching deny
    # policy at position 50, policies of somebody else in between - and one of those is deleted meanwhile
    big = [pol('p00')] + [pol('p%02d' % i, subj='somebody-else') for i in range(1, 50)] + [pol('p50', 'deny'), pol('p51')]
    dec_vs('delete-irrelevant-of-52', big, lambda st: st.delete('p01'))

    def make_two_adds(w):
        return [lambda: w.st.add(pol('x')), lambda: w.st.add(pol('x', 'deny'))], ['add', 'add'], {}
    sc('add|add-same-uid', [pol('a')], make_two_adds)

    def make_reads(w):
        return [lambda: [p.uid for p in w.st.get_all(5, 0)], lambda: w.st.add(pol('b')),
                lambda: w.st.delete('a')], ['read', 'mutation', 'mutation'], {}
    sc('get_all|add|delete', [pol('a')], make_reads)

    def make_retr(w):
        return [lambda: [p.uid for p in w.st.retrieve_all(1)], lambda: w.st.delete('a')], ['read', 'mutation'], {}
    sc('retrieve_all|delete', [pol('a'), pol('b')], make_retr)

    def make_three(w):
        g = Guard(w.st, RegexChecker())
        marks = {}
        return [decision_body(w, g, marks, 'd0'), lambda: w.st.add(pol('c', 'deny')), lambda: w.st.delete('c')], \
            ['decision', 'mutation', 'mutation'], marks
    sc('decision|add-deny|delete-deny', [pol('a')], make_three)

    def make_two_updates(w):
        g = Guard(w.st, RegexChecker())
        marks = {}
        return [decision_body(w, g, marks, 'd0'),
                lambda: (w.st.update(pol('a', 'deny')), w.st.update(pol('b')))], ['decision', 'mutation'], marks
    # every policy set that ever exists denies (b denies; then a and b deny; then a denies): a decision that combines the old
    # a with the new b would allow
    sc('decision|update-a-to-deny,update-b-to-allow', [pol('a'), pol('b', 'deny')], make_two_updates)

    def make_two_dec(w):
        g = Guard(w.st, RegexChecker())
        marks = {}
        return [decision_body(w, g, marks, 'd0'), decision_body(w, g, marks, 'd1'), lambda: w.st.update(pol('a', 'deny'))], \
            ['decision', 'decision', 'mutation'], marks
    sc('decision|decision|update-to-deny', [pol('a')], make_two_dec)
    return S


def cached_scenarios():
    C = []

    def mk(name, initial, mut):
        def make(w):
            guard, st, cache = create_cached_guard(w.st, RegexChecker(), maxsize=8)
            marks = {}
            return [decision_body(w, guard, marks, 'd0'), lambda: mut(st)], ['decision', 'mutation'], marks, guard
        C.append((name, initial, make))
    mk('cached:decision|delete-allow', [pol('a')], lambda st: st.delete('a'))
    mk('cached:decision|add-deny', [pol('a')], lambda st: st.add(pol('c', 'deny')))
    mk('cached:decision|update-to-deny', [pol('a')], lambda st: st.update(pol('a', 'deny')))
    # two mutations while one decision is in flight (an invalidation marker that wraps around would come back)
    mk('cached:decision|update-to-deny,add-allow', [pol('a')],
       lambda st: (st.update(pol('a', 'deny')), st.add(pol('b'))))
    mk('cached:decision|add-deny,add-allow', [pol('a')],
       lambda st: (st.add(pol('c', 'deny')), st.add(pol('b'))))
    return C


def line_scenarios():
    """explored with the delay-bounded schedules at source-line granularity (like the cached3 ones)"""
    C = []

    def make_rejected_assignment(w):
        g = Guard(w.st, RegexChecker())
        marks = {}
        stored = w.st.get('a')

        def assign():
            # an assignment the policy refuses (rule elements next to string elements): the stored policy never changes
            from vakt.rules import Eq
            from vakt.exceptions import PolicyCreationError
            try:
                stored.subjects = [Eq('max')]
            except PolicyCreationError:
                pass
        return [decision_body(w, g, marks, 'd0'), assign], ['decision', 'assignment'], marks
    C.append(('line3:decision|rejected-assignment-to-a-stored-policy', [pol('a')], make_rejected_assignment))

    def make_two_inquiries(w):
        # one guard (one checker object) asked on two threads about two different inquiries; the stored policy compares a value of
        # the inquiry with another value of the SAME inquiry.  The policy set never changes: each answer is a constant.
        from vakt.checker import RulesChecker
        g = Guard(w.st, RulesChecker())
        q_owner = Inquiry(action='read', resource={'owner': 'bob'}, subject={'name': 'bob'})
        q_other = Inquiry(action='read', resource={'owner': 'bob'}, subject={'name': 'mallory'})
        return [lambda: g.is_allowed(q_owner), lambda: g.is_allowed(q_other)], ['decision=True', 'decision=False'], {}
    from vakt.rules import Eq, Any
    from vakt.rules.inquiry import SubjectMatch
    own = Policy('own', actions=[Eq('read')], subjects=[Any()], resources=[{'owner': SubjectMatch('name')}], effect='allow')
    C.append(('line3:decision|decision-about-another-inquiry (shared rules checker)', [own], make_two_inquiries))
    return C


def cached3_scenarios():
    """two mutations through the cached guard's storage overlapping each other with a decision in between; the answer
    after the first mutation differs from the answer after both (explored with the delay-bounded schedules)"""
    C = []

    def mk(name, initial, mut_a, mut_b):
        def make(w):
            guard, st, cache = create_cached_guard(w.st, RegexChecker(), maxsize=8)
            marks = {}
            return [lambda: mut_a(st), decision_body(w, guard, marks, 'd1'), lambda: mut_b(st)], \
                ['mutation', 'decision', 'mutation'], marks, guard
        C.append((name, initial, make))
    mk('cached3:update-to-deny|decision|update-to-allow', [pol('a')],
       lambda st: st.update(pol('a', 'deny')), lambda st: st.update(pol('a')))
    mk('cached3:add-deny|decision|delete-deny', [pol('a')],
       lambda st: st.add(pol('c', 'deny')), lambda st: st.delete('c'))
    mk('cached3:delete-allow|decision|add-allow', [pol('a')],
       lambda st: st.delete('a'), lambda st: st.add(pol('b')))
    return C


def delay_schedules(name, initial, make):
    """delay-bounded exploration (round robin, one delay): from every start thread, the running thread is sent to the
    back of the queue at one yield point - every source line of the modules that touch shared state, every bytecode
    of memory.py, every instrumented access"""
    out = []
    n = len(make(World(Scheduler(), initial))[0])
    # (the line3 scenarios concern what happens inside policy.py, which the coarse mode leaves without yield points)
    coarse = not name.startswith('line3:')
    for start in range(n):
        try:
            base = run_one(name, initial, make, {0: start}, line_mode=True, cyclic=True, coarse=coarse)
        except Stuck:
            UNSCHEDULABLE.append((name, ((0, start),)))
            continue
        out.append((((0, start),),) + base)
        for (step, tid, label, runnable) in base[1].trace:
            later = [t for t in runnable if t > tid]
            others = [t for t in runnable if t != tid]
            if not others:
                continue
            nxt = later[0] if later else others[0]
            pre = ((0, start), (step, nxt))
            try:
                r = run_one(name, initial, make, dict(pre), line_mode=True, cyclic=True, coarse=coarse)
            except Stuck:
                UNSCHEDULABLE.append((name, pre))
                continue
            out.append((pre,) + r)
    return out


def run_one(name, initial, make, preemptions, line_mode=False, random_switch=None, cyclic=False, coarse=False):
    sched = Scheduler(preemptions, line_mode=line_mode, random_switch=random_switch, cyclic=cyclic, coarse=coarse)
    w = World(sched, [copy.copy(p) for p in initial])
    made = make(w)
    bodies, kinds, marks = made[0], made[1], made[2]
    cached_guard = made[3] if len(made) > 3 else None
    if cached_guard is not None:
        instrument_locks(sched, [cached_guard], w.log)       # a cache back-end may bring its own lock
    results = sched.run(bodies)
    problems = []
    for i, (r, k) in enumerate(zip(results, kinds)):
        if r[0] == 'sched':
            if 'Deadlock' in r[1]:
                problems.append('thread %d (%s): every thread is blocked on a lock (deadlock)' % (i, k))
                continue
            raise Stuck('scheduler trouble in %s: %s' % (name, r[1]))
        if r[0] == 'raise':
            if k == 'add' and r[1] == 'PolicyExistsError':
                continue
            problems.append('thread %d (%s) raised %s: %s' % (i, k, r[1], r[2]))
    if kinds == ['add', 'add']:
        oks = [r for r in results if r[0] == 'ok']
        if len(oks) != 1:
            problems.append('concurrent adds of one uid: %d succeeded' % len(oks))
    for i, k in enumerate(kinds):
        if k.startswith('decision=') and results[i][0] == 'ok':
            want = k == 'decision=True'
            if results[i][1] is not want:
                problems.append('decision %d answered %r; the policy set never changes and gives %r for this inquiry (the answer '
                                'to the inquiry asked on the other thread?)' % (i, results[i][1], want))
    for i, k in enumerate(kinds):
        if k == 'decision' and results[i][0] == 'ok':
            a = results[i][1]
            s, e = marks.get('d%d:start' % i), marks.get('d%d:end' % i)
            allowed = [w.decide_on(v) for v in w.states_between(s, e)]
            if a not in allowed:
                problems.append('decision %d answered %r; the policy sets between its start and end give %r'
                                % (i, a, allowed))
    if cached_guard is not None and not problems:
        later = cached_guard.is_allowed(Q)
        want = w.decide_on(w.snapshot())
        if later is not want:
            problems.append('after the mutation returned, a later inquiry on the cached guard answers %r; the current '
                            'policy set gives %r (served from a decision computed against the older set)' % (later, want))
    return results, sched, w, problems


UNSCHEDULABLE = []


def enumerate_schedules(name, initial, make, bound, limit, line_mode=False):
    """all schedules with at most `bound` preemptions at the instrumented yield points (DFS)"""
    seen = set()
    stack = collections.deque([()])       # breadth first: every schedule with fewer preemptions comes first
    out = []
    while stack and len(out) < limit:
        pre = stack.popleft()
        if pre in seen:
            continue
        seen.add(pre)
        try:
            results, sched, w, problems = run_one(name, initial, make, dict(pre), line_mode=line_mode)
        except Stuck:
            # a lock the scheduler cannot see (C code, a lock created where instrumentation does not reach) was held by
            # the preempted thread: this schedule cannot be run cooperatively; it is skipped and counted
            UNSCHEDULABLE.append((name, pre))
            continue
        out.append((pre, results, sched, w, problems))
        if len(pre) >= bound:
            continue
        last = max([s for s, _ in pre], default=-1)
        for (step, tid, label, runnable) in sched.trace:
            if step <= last:
                continue
            for other in runnable:
                if other != tid:
                    stack.append(tuple(sorted(pre + ((step, other),))))
        # which thread starts
        if not pre:
            for t in range(1, len(results)):
                stack.append(((0, t),))
    return out


def model_line(name, w, kinds):
    """the logged abstract actions, for the trace-conformance replay through the Lean model"""
    toks = []
    for ent in w.log:
        tid, act = ent[0], ent[1]
        if tid is None:
            continue
        if act in ('acquire', 'release'):
            toks.append('%d %s' % (tid, 'acq' if act == 'acquire' else 'rel'))
        elif act in ('contains', 'setitem', 'delitem', 'get'):
            toks.append('%d %s %s' % (tid, {'contains': 'has', 'setitem': 'put', 'delitem': 'del', 'get': 'get'}[act],
                                      ''.join('%02x' % ord(c) for c in str(ent[2]))))
        elif act == 'values':
            toks.append('%d view' % tid)
        elif act == 'iternext':
            toks.append('%d next' % tid)
        elif act == 'iter':
            toks.append('%d view' % tid)
    return 'CONC %d %d %s' % (len(kinds), len(toks), ' '.join(toks))


_WARM = []


def _warm():
    """CPython 3.12 delivers bytecode-level trace events for a code object only from the second traced run of a process
    on (the instrumentation is installed by the first); one throw-away traced run makes every schedule of this process
    see the same yield points"""
    if not _WARM:
        _WARM.append(1)
        name, initial, make = scenarios()[0]
        for _ in range(2):
            try:
                run_one(name, initial, make, {}, line_mode=True)
            except Stuck:
                pass
        name, initial, make = cached_scenarios()[0]
        try:
            run_one(name, initial, make, {}, line_mode=True)
        except Stuck:
            pass


def _enum_job(args):
    """one scenario, all schedules up to the bound; returns plain data (runs in a forked worker)"""
    idx, bound, limit = args
    name, initial, make = (scenarios() + cached_scenarios() + cached3_scenarios() + line_scenarios())[idx]
    _warm()
    del UNSCHEDULABLE[:]
    cached = name.startswith('cached:')
    res = {'name': name, 'runs': 0, 'failures': [], 'nontriv': [], 'lines': [], 'samples': [], 'stuck': None,
           'unschedulable': [], 'counts': {}}
    try:
        if name.startswith('cached3:') or name.startswith('line3:'):
            runs = delay_schedules(name, initial, make)
        else:
            # the cached guard's window lies between source lines (lru_cache stores after the wrapped call returns):
            # its schedules are enumerated at line / bytecode granularity
            runs = enumerate_schedules(name, initial, make, bound if not cached else min(bound, 2),
                                       limit if not cached else limit * 4, line_mode=cached)
    except Stuck as e:
        res['stuck'] = str(e)
        return res
    res['runs'] = len(runs)
    for pre, results, sched, w, problems in runs:
        desc = {'scenario': name, 'preemptions': [list(p) for p in pre],
                'results': [list(map(str, r)) for r in results],
                'actions': ['%s:%s' % (e[0], e[1]) for e in w.log][:60]}
        if problems:
            f = Failure('oracle', desc, desc['results'], None, problems[0],
                        'Vakt.C14.decision_linearizable / add_once / no_interleaving_error', size=len(pre))
            if (cached or name.startswith('cached3:')) and 'served from a decision computed against the older set' in problems[0]:
                f.signature = 'lru-stale-insert'
            else:
                f.signature = 'oracle:' + name
            res['failures'].append(f)
        if len(pre) >= 1:
            res['nontriv'].append('%s %r' % (name, pre))
        if not cached and not name.startswith('cached3:') and not name.startswith('line3:'):
            kinds = make(World(Scheduler(), initial))[1]
            res['lines'].append((model_line(name, w, kinds), desc, desc['results']))
        if len(res['samples']) < 1 and len(pre) == 2 and not problems:
            res['samples'].append({'scenario': name, 'preemptions (step -> thread)': [list(p) for p in pre],
                                   'results': desc['results'], 'shared actions (tid:action)': desc['actions'][:24]})
    res['unschedulable'] = list(UNSCHEDULABLE)
    return res


def _rand_job(args):
    """random deep schedules at source-line / bytecode granularity (forked worker)"""
    import random
    seed, n = args
    rng = random.Random(seed)
    sc = scenarios()
    _warm()
    del UNSCHEDULABLE[:]
    res = {'runs': 0, 'failures': [], 'nontriv': [], 'yield': 0, 'unschedulable': [], 'stuck': None}
    for _ in range(n):
        name, initial, make = pick(rng, sc)
        try:
            results, sched, w, problems = run_one(name, initial, make, {0: rng.randrange(2)}, line_mode=True,
                                                  random_switch=(rng, pick(rng, [0.02, 0.05, 0.2])))
        except Stuck:
            UNSCHEDULABLE.append((name, 'random'))
            continue
        res['runs'] += 1
        res['yield'] += sched.step
        if problems:
            f = Failure('oracle', {'scenario': name, 'mode': 'line/bytecode granularity, random switches',
                                   'switch_trace': [(s, t) for s, t, _, _ in sched.trace][:80],
                                   'results': [list(map(str, r)) for r in results]}, None, None, problems[0],
                        'Vakt.C14.decision_linearizable / no_interleaving_error')
            f.signature = 'oracle-random:' + name
            res['failures'].append(f)
        res['nontriv'].append('rand %s %d' % (name, sched.step))
    res['unschedulable'] = list(UNSCHEDULABLE)
    return res


def run(ctx):
    import multiprocessing
    out = Outcome()
    rng = ctx.rng
    bound = 2 if ctx.tier == 'quick' else 3
    limit = 800 if ctx.tier == 'quick' else 3000
    lines, meta = [], []
    nsc = len(scenarios() + cached_scenarios() + cached3_scenarios() + line_scenarios())
    nrand = ctx.budget(240, 12000)
    chunks = max(1, min(ctx.procs, nrand // 20))
    rjobs = [(rng.getrandbits(48), nrand // chunks + (1 if i < nrand % chunks else 0)) for i in range(chunks)]
    ejobs = [(i, bound, limit) for i in range(nsc)]
    # every schedule is run in a forked worker (one scenario or one chunk of random schedules each): the schedulers are
    # independent, the threads they drive live and die inside the worker
    if ctx.procs > 1:
        with multiprocessing.get_context('fork').Pool(min(ctx.procs, nsc + chunks)) as pool:
            eres = pool.map_async(_enum_job, ejobs, chunksize=1)
            rres = pool.map_async(_rand_job, rjobs, chunksize=1)
            eres, rres = eres.get(), rres.get()
    else:
        eres, rres = [_enum_job(j) for j in ejobs], [_rand_job(j) for j in rjobs]
    unsched = []
    for r in eres:
        if r['stuck']:
            raise Broken('scheduler stuck: %s' % r['stuck'])
        out.count('scenario:%s' % r['name'], r['runs'])
        out.evaluations += r['runs']
        out.traces += r['runs']
        out.failures.extend(r['failures'])
        for k in r['nontriv']:
            out.nontriv(k)
        for line, desc, results in r['lines']:
            lines.append(line)
            meta.append((desc, results))
        if len(out.samples) < 3:
            out.samples.extend(r['samples'])
        unsched.extend(r['unschedulable'])
    for r in rres:
        out.evaluations += r['runs']
        out.count('random-line-granularity', r['runs'])
        out.count('yield-points', r['yield'])
        out.failures.extend(r['failures'])
        for k in r['nontriv']:
            out.nontriv(k)
        unsched.extend(r['unschedulable'])
    if unsched:
        out.count('unschedulable', len(unsched))
        if len(unsched) > max(20, out.evaluations // 4):
            raise Broken('%d of %d schedules could not be run cooperatively (first: %r)'
                         % (len(unsched), out.evaluations + len(unsched), unsched[0]))
    model = ctx.driver.run(lines) if ctx.driver else []
    for line, (desc, results), m in zip(lines, meta, model):
        if m == 'bad-op':
            raise Broken('driver rejected: %s' % line[:300])
        if m != 'ok':
            f = Failure('disagreement', desc, desc['actions'], m, 'the logged sequence of shared-state actions is not an '
                        'execution of the model (lock discipline / action programs differ)', 'Vakt.C14.lock_mutex', line=line)
            f.signature = 'model:trace'
            f.weak = True      # the sequence of shared-state accesses is internal; the property is about outcomes
            out.failures.append(f)
    out.rule = ('%d scenarios (a decision against add / delete / update of allow and deny policies, two adds of one uid, '
                'listings against add and delete, three threads, two decisions and an update, the cached guard against '
                'mutations); for each ALL schedules with at most %d preemptions at the instrumented shared-state accesses '
                '(dict operations, iterator steps, lock acquire/release), plus random deep schedules switching at source-line '
                'granularity in vakt and bytecode granularity in memory.py; per run: no thread raises because of the '
                'interleaving, concurrent adds succeed once, each decision equals the decision on some policy-set version '
                'between its start and end, a later cached answer is not stale; the logged action sequence is replayed '
                'through the model' % (len(scenarios()) + len(cached_scenarios()), bound))
    out.rule += ('; among the scenarios: a store of 52 policies (larger than the page of the paged listings) with one policy deleted '
                 'meanwhile, two updates made one after the other by one thread, and - explored with the delay-bounded schedules at '
                 'the granularity of every source line of vakt - a refused assignment to a stored policy; linearizations respect the '
                 'real-time order of the mutation calls')
    out.rule += '; one guard asked on two threads about two different inquiries over a policy that relates two values of the same inquiry (line granularity over all of vakt)'
    return out


def replay(ctx, rp):
    c = rp['case']
    _warm()
    for name, initial, make in scenarios() + cached_scenarios() + cached3_scenarios() + line_scenarios():
        if name == c.get('scenario') and 'preemptions' in c:
            delay = name.startswith('cached3:') or name.startswith('line3:')
            results, sched, w, problems = run_one(name, initial, make, {int(a): int(b) for a, b in c['preemptions']},
                                                  line_mode=delay or name.startswith('cached:'), cyclic=delay,
                                                  coarse=delay and not name.startswith('line3:'))
            return {'results': [list(map(str, r)) for r in results], 'problems': problems, 'still_fails': bool(problems)}
    return {'still_fails': None, 'note': 'random deep schedule: re-run the check with the recorded seed'}
