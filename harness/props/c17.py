"""C17 - audit and decision logs tell the truth about each decision."""
import logging

import proto
from common import Failure, Outcome, Broken
from gen import pick
import polcase
from vakt.guard import Guard
from vakt.storage.memory import MemoryStorage
from vakt.audit import PoliciesNopMsg, PoliciesUidMsg, PoliciesDescriptionMsg, PoliciesCountMsg
from vakt.cache import create_cached_guard

MODULE = 'Props.C17'
THEOREMS = ['Vakt.C17.audit_effect_eq_answer', 'Vakt.C17.audit_candidates_eq_matching', 'Vakt.C17.audit_deciders',
            'Vakt.C17.exactly_one_audit_when_completed', 'Vakt.C17.no_audit_when_raised',
            'Vakt.C17.decision_log_once_and_agrees', 'Vakt.C17.render_count_nop', 'Vakt.C17.render_uid_desc',
            ]
# obligations over what was translated from /repo/vakt/guard.py in this run: check_policies_allow / is_allowed_check / is_allowed
# together with their audit_log.info(..., extra=...) calls and the decision-log call, as effects on a log value, are the model's
# isAllowedLogged (lean/Gen/EquivGuardAudit.lean)
EXTRA_BUILD = ['+Gen.EquivGuardAudit', '+Gen.EquivAuditMsg']
GEN_IMPORTS = ['Gen.EquivGuardAudit', 'Gen.EquivAuditMsg']
GEN_THEOREMS = ['Vakt.GenEquiv.gen_is_allowed_logged', 'Vakt.GenEquiv.gen_is_allowed_check_audit',
                'Vakt.GenEquiv.gen_check_policies_allow_audit', 'Vakt.GenEquiv.gen_check_policies_allow_audit_lazy',
                'Vakt.GenEquiv.translatedGuardAudit_covers',
                # the __str__ methods of the four message classes of vakt/audit.py are the model's renderMsg
                'Vakt.GenEquiv.gen_str_nop', 'Vakt.GenEquiv.gen_str_uid', 'Vakt.GenEquiv.gen_str_desc', 'Vakt.GenEquiv.gen_str_count',
                'Vakt.GenEquiv.translatedAuditMsgs_covers']
FLOOR = {'quick': 300, 'thorough': 5000}
MSG = {'nop': PoliciesNopMsg, 'uid': PoliciesUidMsg, 'desc': PoliciesDescriptionMsg, 'count': PoliciesCountMsg}


class Capture(logging.Handler):
    def __init__(self):
        super().__init__(level=logging.DEBUG)
        self.records = []

    def emit(self, record):
        self.records.append(record)


AUDIT = logging.getLogger('vakt.audit')
GUARDLOG = logging.getLogger('vakt.guard')


class Listen:
    def __enter__(self):
        self.a, self.g = Capture(), Capture()
        self.la, self.lg = AUDIT.level, GUARDLOG.level
        AUDIT.setLevel(logging.INFO)
        GUARDLOG.setLevel(logging.INFO)
        AUDIT.addHandler(self.a)
        GUARDLOG.addHandler(self.g)
        return self

    def __exit__(self, *exc):
        AUDIT.removeHandler(self.a)
        GUARDLOG.removeHandler(self.g)
        AUDIT.setLevel(self.la)
        GUARDLOG.setLevel(self.lg)

    def take(self):
        a, g = self.a.records, [r for r in self.g.records if r.levelno == logging.INFO]
        self.a.records, self.g.records = [], []
        return a, g


def _render(msg):
    """str(msg); a message object whose rendering raises is reported as such, not as a harness crash"""
    try:
        return str(msg)
    except Exception as e:
        return '<rendering raised %s>' % type(e).__name__


def render_expected(cls, pols):
    if cls == 'nop':
        return ''
    if cls == 'uid':
        return '[%s]' % ', '.join(str(p.uid) for p in pols)
    if cls == 'desc':
        return '[%s]' % ', '.join("'%s'" % (p.description,) for p in pols)
    return 'count = %d' % len(pols)


def decision_word(rec):
    """does the decision-log record say allowed or rejected?  Judged on the message template (the inquiry's own text
    is an argument), any wording containing allow… xor reject… / den… / refus…"""
    msg = rec.msg if isinstance(rec.msg, str) else rec.getMessage()
    args = rec.args if isinstance(rec.args, tuple) else ((rec.args,) if rec.args else ())
    # short plain-string arguments may carry the verdict word; the inquiry object / its text is left out
    msg += ' ' + ' '.join(a for a in args if isinstance(a, str) and len(a) <= 16)
    low = msg.lower()
    yes = 'allow' in low
    no = any(w in low for w in ('reject', 'denied', 'deny', 'refus', 'forbid'))
    if yes and not no:
        return True
    if no and not yes:
        return False
    return None


def check_call(out, desc, answer, arecs, grecs, objs, matches, cls, hit=False):
    """direct oracle for one is_allowed call; returns list of (what, signature)"""
    bad = []
    if len(grecs) != 1:
        bad.append(('%d decision-log records for one call' % len(grecs), 'decision-log-count'))
    elif decision_word(grecs[0]) is not answer:
        bad.append(('decision log says %r, answer is %r' % (grecs[0].getMessage()[:40], answer), 'decision-log-word'))
    if hit:
        return bad
    if 'raise' in matches:
        if arecs:
            bad.append(('audit record although evaluation raised', 'audit-on-raise'))
        return bad
    if len(arecs) != 1:
        bad.append(('%d audit records for a completed decision' % len(arecs), 'audit-count'))
        return bad
    r = arecs[0]
    eff = getattr(r, 'effect', None)
    if (eff == 'allow') is not answer or eff not in ('allow', 'deny'):
        bad.append(('audit effect %r, answer %r' % (eff, answer), 'audit-effect'))
    want_c = [p for p, m in zip(objs, matches) if m is True]
    if answer:
        want_d = want_c
    elif want_c:
        want_d = None          # a single non-allow candidate
    else:
        want_d = []
    cand, dec = r.candidates, r.deciders
    if cls != 'nop' and not (hasattr(cand, 'policies') and hasattr(dec, 'policies')):
        # a message object that does not keep the policies themselves: judged by its text alone (below)
        if want_d is None:
            want_d = None if cls == 'count' else [p for p in want_c if _render(type(dec)([p])) == _render(dec)][:1] or None
    elif cls != 'nop':
        got_c = list(cand.policies)
        got_d = list(dec.policies)
        if [id(p) for p in got_c] != [id(p) for p in want_c]:
            bad.append(('candidates %r, matching %r' % ([p.uid for p in got_c], [p.uid for p in want_c]),
                        'audit-candidates'))
        if want_d is None:
            if not (len(got_d) == 1 and any(got_d[0] is p for p in want_c) and got_d[0].effect != 'allow'):
                bad.append(('deciders %r: not a single non-allow candidate' % [p.uid for p in got_d], 'audit-deciders'))
            want_d = got_d
        elif [id(p) for p in got_d] != [id(p) for p in want_d]:
            bad.append(('deciders %r, expected %r' % ([p.uid for p in got_d], [p.uid for p in want_d]),
                        'audit-deciders'))
    else:
        want_d = want_d or []
    first_c, first_d = _render(cand), _render(dec)
    if first_c != render_expected(cls, want_c):
        bad.append(('candidates text %r, documented %r' % (first_c, render_expected(cls, want_c)), 'render-cand'))
    # a record may be rendered by several handlers: the text must not depend on how often it was rendered
    if _render(cand) != first_c or _render(dec) != first_d:
        bad.append(('rendered a second time the record reads candidates %r deciders %r, the first time %r / %r'
                    % (_render(cand), _render(dec), first_c, first_d), 'render-twice'))
    if cls == 'nop' or want_d is not None:
        if _render(dec) != render_expected(cls, want_d if want_d is not None else []):
            bad.append(('deciders text %r, documented %r' % (_render(dec), render_expected(cls, want_d)), 'render-dec'))
    return bad


def _guard_before_logging(ctx, out, rng):
    """the guard is constructed first, logging is configured afterwards (levels raised to INFO, handlers attached): every
    decision made from then on has its audit record and its decision-log record, like a guard constructed after"""
    for _ in range(ctx.budget(12, 300)):
        case = polcase.gen_store_case(rng)
        try:
            objs, inq = polcase.build_case(case)
        except Exception:
            continue
        k = case['k']
        st = MemoryStorage()
        for o in objs:
            st.add(o)
        la, lg = AUDIT.level, GUARDLOG.level
        AUDIT.setLevel(pick(rng, [logging.WARNING, logging.CRITICAL, logging.NOTSET]))
        GUARDLOG.setLevel(pick(rng, [logging.WARNING, logging.CRITICAL]))
        try:
            cached = rng.random() < 0.5
            if cached:                                       # no handler yet, levels above INFO
                g = create_cached_guard(st, polcase.make_checker(k), maxsize=pick(rng, [None, 1, 256]))[0]
            else:
                g = Guard(st, polcase.make_checker(k))
            with Listen() as L:
                try:
                    answer = g.is_allowed(inq)
                except Exception:
                    answer = 'escaped'
                arecs, grecs = L.take()
                if cached:
                    try:
                        answer2 = g.is_allowed(inq)
                    except Exception:
                        answer2 = 'escaped'
                    arecs2, grecs2 = L.take()
        finally:
            AUDIT.setLevel(la)
            GUARDLOG.setLevel(lg)
        matches = polcase.direct_matches(k, objs, inq)
        desc = {'checker': k, 'policies': [repr(p) for p in case['policies']], 'inquiry': repr(case['inquiry']),
                'msg_class': 'uid', 'matches': matches, 'order': 'Guard(...) constructed, then logging configured'}
        out.evaluations += 1
        out.count('guard-before-logging' + (':cached' if cached else ''))
        if cached:
            desc['order'] = 'create_cached_guard(...) called, then logging configured, then asked twice'
        found = list(check_call(out, desc, answer, arecs, grecs, objs, matches, 'uid'))
        if cached and not found:
            found = [(w + ' (second, cached call)', sg) for w, sg in
                     check_call(out, desc, answer2, arecs2, grecs2, objs, matches, 'uid', hit=True)]
            if found:
                answer, arecs, grecs = answer2, arecs2, grecs2
        for what, sig in found:
            f = Failure('oracle', desc, {'answer': answer, 'audit': [getattr(r, 'effect', None) for r in arecs],
                                         'decision_log': [r.getMessage()[:60] for r in grecs]}, None, what,
                        'Vakt.C17.exactly_one_audit_when_completed / decision_log_once_and_agrees')
            f.signature = sig
            out.failures.append(f)
            return


def run(ctx):
    out = Outcome()
    rng = ctx.rng
    n = ctx.budget(2500, 100000)
    lines, meta = [], []
    rlines, rmeta = [], []
    _guard_before_logging(ctx, out, rng)
    with Listen() as L:
        for _ in range(n):
            case = polcase.gen_store_case(rng)
            try:
                objs, inq = polcase.build_case(case)
            except Exception:
                continue
            k = case['k']
            cls = pick(rng, ['nop', 'uid', 'uid', 'desc', 'count'])
            st = MemoryStorage()
            for o in objs:
                st.add(o)
            g = Guard(st, polcase.make_checker(k), audit_policies_cls=MSG[cls]) if cls != 'uid' or rng.random() < 0.5 \
                else Guard(st, polcase.make_checker(k))
            L.take()
            try:
                answer = g.is_allowed(inq)
            except Exception as e:
                answer = 'escaped'
            arecs, grecs = L.take()
            matches = polcase.direct_matches(k, objs, inq)
            desc = {'checker': k, 'policies': [repr(p) for p in case['policies']], 'inquiry': repr(case['inquiry']),
                    'msg_class': cls, 'matches': matches}
            out.evaluations += 1
            out.count('cls:' + cls)
            bad = check_call(out, desc, answer, arecs, grecs, objs, matches, cls)
            for what, sig in bad:
                f = Failure('oracle', desc, {'answer': answer, 'audit': [getattr(r, 'effect', None) for r in arecs],
                                             'decision_log': [r.getMessage()[:60] for r in grecs]}, None, what,
                            'Vakt.C17.audit_deciders / audit_candidates_eq_matching / decision_log_once_and_agrees')
                f.signature = sig
                out.failures.append(f)
            try:
                line = polcase.decide_line(case, objs, inq)
            except proto.ProtoError:
                continue
            got = None
            if len(arecs) == 1 and cls != 'nop' and hasattr(arecs[0].candidates, 'policies') and hasattr(arecs[0].deciders, 'policies'):
                got = {'allow': arecs[0].effect == 'allow',
                       'cand': [proto.enc_value(p.uid) for p in arecs[0].candidates.policies],
                       'dec': [proto.enc_value(p.uid) for p in arecs[0].deciders.policies]}
            lines.append(line)
            meta.append((desc, answer, got, len(arecs)))
            hit = [o for o, m in zip(objs, matches) if m is True]
            if len(hit) >= 1:
                out.nontriv(line)
                if len(out.samples) < 3 and len(hit) >= 2 and arecs:
                    out.samples.append({'line': line[:300], 'answer': answer, 'audit_effect': arecs[0].effect,
                                        'candidates': _render(arecs[0].candidates), 'deciders': _render(arecs[0].deciders),
                                        'msg_class': cls})
            if hit and rng.random() < 0.3:
                for c2 in ('uid', 'desc', 'count', 'nop'):
                    try:
                        rlines.append('RENDER %s %d %s' % (c2, len(hit), ' '.join(
                            polcase.pol_line(case['policies'][objs.index(o)], o) for o in hit)))
                        rmeta.append((c2, _render(MSG[c2](hit)), desc))
                    except proto.ProtoError:
                        pass
        # cached guard: decision log on every call (hits included), audit only on a miss
        for _ in range(ctx.budget(150, 5000)):
            case = polcase.gen_store_case(rng, npol=pick(rng, [1, 2, 3]))
            try:
                objs, inq = polcase.build_case(case)
            except Exception:
                continue
            k = case['k']
            g, st, cache = create_cached_guard(MemoryStorage(), polcase.make_checker(k), maxsize=pick(rng, [None, 0, 1, 2, 256]))
            # a pool of inquiries with (probably) different answers: hits must be logged with their own answer
            inq_main, inq_descs = inq, {id(inq): repr(case['inquiry'])}
            pool = [inq]
            try:
                other = polcase.gen_store_case(rng, k=k, npol=1)['inquiry']
                o2 = proto.build_inquiry(other)
                pool.append(o2)
                inq_descs[id(o2)] = repr(other)
            except Exception:
                pass
            o3 = proto.build_inquiry({'resource': '', 'action': '', 'subject': '', 'context': {}})
            pool.append(o3)
            inq_descs[id(o3)] = 'empty inquiry'
            present = []
            asked_since_mut = False
            hist = []
            for step in range(rng.randint(3, 9)):
                op = pick(rng, ['ask', 'ask', 'ask', 'add', 'del'])
                if op == 'add' and len(present) < len(objs):
                    o = objs[len(present)]
                    st.add(o)
                    present.append(o)
                    asked_since_mut = False
                    hist.append('add')
                elif op == 'del' and present:
                    o = present.pop()
                    st.delete(o.uid)
                    asked_since_mut = False
                    hist.append('del')
                else:
                    inq = pick(rng, [inq_main, inq_main] + pool)
                    L.take()
                    info0 = cache.info()
                    answer = g.is_allowed(inq)
                    info1 = cache.info()
                    arecs, grecs = L.take()
                    was_hit = info1.hits > info0.hits
                    matches = polcase.direct_matches(k, present, inq)
                    hist.append('ask')
                    out.evaluations += 1
                    out.count('cached:' + ('hit' if was_hit else 'miss'))
                    hist[-1] = 'ask ' + inq_descs[id(inq)]
                    desc = {'checker': k, 'policies': [repr(p) for p in case['policies']], 'inquiry': inq_descs[id(inq)],
                            'history': list(hist), 'cached': True}
                    for what, sig in check_call(out, desc, answer, arecs, grecs, present, matches, 'uid', hit=was_hit):
                        f = Failure('oracle', desc, {'answer': answer, 'decision_log': [r.getMessage()[:60] for r in grecs]},
                                    None, what + (' (cache hit)' if was_hit else ' (cache miss)'),
                                    'Vakt.C17.decision_log_once_and_agrees / Vakt.C11.cached_logs_once')
                        f.signature = 'cached-' + sig
                        out.failures.append(f)
                    out.traces += 1
    model = ctx.driver.run(lines) if ctx.driver else [None] * len(lines)
    for line, (desc, answer, got, narecs), m in zip(lines, meta, model):
        mm = polcase.parse_decide(m)
        if mm['kind'] == 'bad-op':
            raise Broken('driver rejected: %s' % line[:300])
        if mm['kind'] != 'ok':
            out.unmodelled += 1
            continue
        bad = None
        if mm['answer'] is not answer:
            bad = 'answer'
        elif (mm['audit'] is None) != (narecs == 0):
            bad = 'audit presence'
        elif mm['audit'] is not None and got is not None:
            veto = (not got['allow']) and len(got['cand']) > 0
            # on a veto the property asks for *a* single non-allow candidate (the direct oracle checks exactly that);
            # which of several the model names is not prescribed, so deciders are compared otherwise only
            if mm['audit']['allow'] != got['allow'] or mm['audit']['candidates'] != got['cand'] or \
                    (not veto and mm['audit']['deciders'] != got['dec']) or \
                    (veto and len(mm['audit']['deciders']) != len(got['dec'])):
                bad = 'audit content'
        if bad:
            f = Failure('disagreement', desc, {'answer': answer, 'audit': got}, m, 'model and implementation differ in '
                        + bad, 'Vakt.C17.audit_deciders', line=line)
            f.signature = 'model:' + bad
            # on a veto the property asks for *a* single non-allow candidate (the direct oracle checks that); which
            # one the model names first is not prescribed
            f.weak = (bad == 'audit content' and mm['audit'] is not None and got is not None and not got['allow'] and
                      mm['audit']['allow'] == got['allow'] and mm['audit']['candidates'] == got['cand'] and
                      len(got['dec']) == 1 and got['dec'][0] in got['cand'])
            out.failures.append(f)
    rmodel = ctx.driver.run(rlines) if ctx.driver else []
    for line, (c2, text, desc), m in zip(rlines, rmeta, rmodel):
        if m == 'unmodelled':
            continue
        if m == 'bad-op':
            raise Broken('driver rejected: %s' % line[:300])
        if m != 'ok ' + proto.enc_str(text):
            f = Failure('disagreement', desc, text, m, 'rendered text of message class %s' % c2,
                        'Vakt.C17.render_uid_desc / render_count_nop', line=line)
            f.signature = 'model:render'
            out.failures.append(f)
    out.rule = ('generated stores asked once through a real Guard with each audit message class while handlers capture '
                'vakt.audit and vakt.guard; per call: record counts, effect, candidates/deciders identity and order, '
                'rendered text vs documented text; model audit (candidates/deciders by uid) compared; cached-guard '
                'ask/mutate histories with hit/miss classification from cache.info(); non-trivial = >=1 matching policy')
    out.rule += '; plus guards constructed before the log levels are raised and the handlers attached'
    out.rule += ' (plain and cached ones, the cached ones asked twice); message objects are judged by their text when they do not expose the policies; every record is rendered twice'
    return out


def replay(ctx, rp):
    c = rp['case']
    cc = {'k': c['checker'], 'policies': [eval(p) for p in c['policies']], 'inquiry': eval(c['inquiry'])}
    objs, inq = polcase.build_case(cc)
    cls = c.get('msg_class', 'uid')
    with Listen() as L:
        st = MemoryStorage()
        for o in objs:
            st.add(o)
        g = Guard(st, polcase.make_checker(cc['k']), audit_policies_cls=MSG[cls])
        answer = g.is_allowed(inq)
        arecs, grecs = L.take()
    matches = polcase.direct_matches(cc['k'], objs, inq)
    bad = check_call(None, c, answer, arecs, grecs, objs, matches, cls)
    return {'answer': answer, 'problems': bad, 'still_fails': bool(bad)}
