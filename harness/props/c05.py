"""C05 - built-in rules mean what they say and compose as boolean algebra.

Three-way comparison per case: the real `Rule.satisfied`, the Lean model (`EVAL`), and a direct
Python oracle that restates each rule with plain operators.  Purity is checked by evaluating
every rule three times, interleaved, and comparing canonical dumps of rule, value and inquiry.
"""
import copy
import ipaddress
import json
import re

import proto
from common import Failure, Outcome
from gen import pick, gen_value, gen_str, gen_ip, gen_num, gen_atom, MALFORMED_PATTERNS
from genrules import gen_rule, gen_leaf, gen_inquiry, rule_kinds, rule_depth, LEAF_KINDS

MODULE = 'Props.C05'
THEOREMS = [
    'Vakt.C05.eq_iff', 'Vakt.C05.notEq_compl', 'Vakt.C05.ordering_ops',
    'Vakt.C05.notIn_compl', 'Vakt.C05.allNotIn_compl', 'Vakt.C05.anyNotIn_eq_allNotIn', 'Vakt.C05.falsy_compl',
    'Vakt.C05.neither_compl', 'Vakt.C05.not_negates', 'Vakt.C05.not_not',
    'Vakt.C05.and_ok_iff', 'Vakt.C05.and_raises_iff', 'Vakt.C05.and_nil', 'Vakt.C05.or_ok_true_iff',
    'Vakt.C05.or_nil', 'Vakt.C05.and_perm', 'Vakt.C05.or_perm_noraise', 'Vakt.C05.de_morgan',
    'Vakt.C05.string_rules_nonstr', 'Vakt.C05.string_rules_cs', 'Vakt.C05.string_rules_ci',
    'Vakt.C05.cidr_contains_iff', 'Vakt.C05.cidr_version_mismatch', 'Vakt.C05.inq_match_field', 'Vakt.C05.inq_match_attr', 'Vakt.C05.inq_none',
    'Vakt.Re.accepts_iff', 'Vakt.Re.matchesPrefix_iff', 'Vakt.Re.acceptsDollar_iff',
]
# the rule bodies translated from /repo/vakt/rules/*.py in this run (harness/pytolean.py -> lean/Gen/Rules.lean) are the
# model's rules: one theorem per translated rule (lean/Gen/Equiv.lean), built as a separate target
EXTRA_BUILD = ['+Gen.Equiv']
GEN_IMPORTS = ['Gen.Equiv']
GEN_THEOREMS = ['Vakt.GenEquiv.gen_' + n for n in (
    'Eq', 'NotEq', 'Greater', 'Less', 'GreaterOrEqual', 'LessOrEqual', 'In', 'NotIn', 'AllIn', 'AllNotIn', 'AnyIn', 'AnyNotIn',
    'Truthy', 'Falsy', 'And', 'Or', 'Not', 'Any', 'Neither', 'Equal', 'PairsEqual', 'RegexMatch', 'StartsWith', 'EndsWith', 'Contains',
    'SubjectEqual', 'ActionEqual', 'ResourceIn', 'SubjectMatch', 'ActionMatch', 'ResourceMatch', 'CIDR')] + \
    ['Vakt.GenEquiv.translated_covers']
FLOOR = {'quick': 500, 'thorough': 5000}
ASSUMPTIONS = [
    'RegexMatch outside the modelled regex subset, str() of float/list/dict, non-str CIDR arguments, '
    'callables offered to Truthy/Falsy: judged by the direct Python oracle only (counted as unmodelled)',
    'case folding: the model uses a per-character table regenerated from the running CPython; U+03A3 (final-sigma '
    'rule) is excluded from the alphabet',
]


# ------------------------------------------------------------------ direct oracle (plain Python operators)

class _Raise(Exception):
    pass


def oracle(r, what, inq):
    """documented meaning of a rule, written with plain Python operators; returns bool or 'raise'"""
    try:
        return bool(_orc(r, what, inq))
    except _Raise:
        return 'raise'
    except Exception:
        return 'raise'


def _orc(r, w, q):
    t = r[0]
    if t == 'eq':
        v = list(r[1]) if isinstance(r[1], tuple) else r[1]
        return v == w
    if t == 'ne':
        return not _orc(('eq', r[1]), w, q)
    if t == 'gt':
        return w > r[1]
    if t == 'lt':
        return w < r[1]
    if t == 'ge':
        return w >= r[1]
    if t == 'le':
        return w <= r[1]
    if t == 'in':
        return w in set(r[1])
    if t == 'nin':
        return w not in set(r[1])
    if t in ('allin', 'allnin', 'anyin', 'anynin'):
        if not isinstance(w, list):
            raise _Raise()
        data = set(r[1])
        ws = set(w)
        if t == 'allin':
            return all(x in data for x in ws)
        if t == 'allnin':
            return not all(x in data for x in ws)
        if t == 'anyin':
            return any(x in data for x in ws)
        return any(x not in data for x in ws)
    if t == 'truthy':
        return bool(w() if callable(w) else w)
    if t == 'falsy':
        return not bool(w() if callable(w) else w)
    if t == 'any':
        return True
    if t == 'neither':
        return False
    if t == 'raise':
        raise _Raise()
    if t == 'const':
        return r[1]
    if t == 'and':
        answers = [_orc(x, w, q) for x in r[1]]          # all evaluated: any raise propagates
        return len(answers) > 0 and all(answers)
    if t == 'or':
        for x in r[1]:
            if _orc(x, w, q):
                return True
        return False
    if t == 'not':
        return not _orc(r[1], w, q)
    if t in ('streq', 'starts', 'ends', 'contains'):
        if not isinstance(w, str):
            return False
        a, b = (w.lower(), r[1].lower()) if r[2] else (w, r[1])
        if t == 'streq':
            return a == b
        if t == 'starts':
            return a[:len(b)] == b
        if t == 'ends':
            return b == '' or a[-len(b):] == b
        return a.find(b) >= 0
    if t == 'pairs':
        if not isinstance(w, list):
            return False
        for pair in w:
            if len(pair) != 2:
                return False
            if not isinstance(pair[0], str) and not isinstance(pair[1], str):
                return False
            if pair[0] != pair[1]:
                return False
        return True
    if t == 'regex':
        return re.compile(r[1]).match(str(w)) is not None
    if t == 'cidr':
        if not isinstance(w, str):
            return False
        try:
            ip = ipaddress.ip_address(w)
            net = ipaddress.ip_network(r[1])
        except ValueError:
            return False
        if ip.version != net.version:
            return False
        return int(net.network_address) <= int(ip) <= int(net.broadcast_address)
    if t == 'match':
        if q is None:
            return False
        iv = {'s': q.subject, 'a': q.action, 'r': q.resource}[r[1]]
        if r[2] is not None:
            attr = r[2][1]
            if isinstance(iv, dict) and attr in iv:
                iv = iv[attr]
            else:
                return False
        return w == iv
    if t == 'subjeq':
        return q is not None and isinstance(w, str) and w == q.subject
    if t == 'acteq':
        return q is not None and isinstance(w, str) and w == q.action
    if t == 'resin':
        return q is not None and isinstance(w, list) and q.resource in w
    raise ValueError(t)


# ------------------------------------------------------------------ canonical dumps for purity

def canon(o, depth=0):
    if depth > 12:
        return '<deep>'
    if isinstance(o, (type(None), bool, int, float, str)):
        return (type(o).__name__, o)
    if isinstance(o, (list, tuple)):
        return (type(o).__name__, tuple(canon(x, depth + 1) for x in o))
    if isinstance(o, (set, frozenset)):
        return ('set', tuple(sorted((canon(x, depth + 1) for x in o), key=repr)))
    if isinstance(o, dict):
        return ('dict', tuple((canon(k, depth + 1), canon(v, depth + 1)) for k, v in o.items()))
    if isinstance(o, re.Pattern):
        return ('re', o.pattern, o.flags)
    if hasattr(o, '__dict__'):
        return (type(o).__name__, tuple(sorted((k, canon(v, depth + 1)) for k, v in vars(o).items())))
    return ('obj', repr(o))


def impl_eval(rule_obj, what, inq_obj):
    try:
        return bool(rule_obj.satisfied(what, inq_obj))
    except Exception:
        return 'raise'


def tower_twin(rng, v):
    if isinstance(v, bool):
        return int(v)
    if isinstance(v, int):
        return float(v) if abs(v) < 2 ** 50 else v
    if isinstance(v, float) and v == int(v):
        return int(v)
    if isinstance(v, list) and v:
        i = rng.randrange(len(v))
        t = tower_twin(rng, v[i])
        return v if t is v[i] else v[:i] + [t] + v[i + 1:]
    return v


PERTURB = ['zz', None, 0, [], {}, '10.0.0.1']

TWINS = {'eq': 'ne', 'ne': 'eq', 'in': 'nin', 'nin': 'in', 'allin': 'allnin', 'allnin': 'allin',
         'truthy': 'falsy', 'falsy': 'truthy', 'any': 'neither', 'neither': 'any'}


CASE_POOL = ['İstanbul', 'i̇stanbul', 'xİ', 'İ', 'aİb', 'straße', 'STRASSE', 'ıx', 'Ix', 'ÉA', 'éa', 'Дж', 'дЖ', 'Αβ',
             'İİ', 'aß', 'ßa', 'i̇', 'I', 'i']


def gen_case_fold(rng):
    """string rules against Unicode case variants whose lower-casing changes length"""
    base = pick(rng, CASE_POOL)
    what = pick(rng, [base, base.lower(), base.upper(), base.swapcase()])
    src = pick(rng, [base, base.lower(), base.upper(), what])
    kind = pick(rng, ['starts', 'ends', 'contains', 'streq'])
    if kind == 'starts':
        val = src[:rng.randint(0, len(src))]
    elif kind == 'ends':
        val = src[rng.randint(0, len(src)):]
    elif kind == 'contains':
        i = rng.randint(0, len(src))
        val = src[i:rng.randint(i, len(src))]
    else:
        val = src
    return (kind, val, rng.random() < 0.85), what, None


def gen_case_match(rng):
    """the inquiry-matching rules against an inquiry whose field holds the attribute with a falsy / None / equal /
    different value, lacks it, or is not a dictionary at all"""
    f = pick(rng, ['subject', 'action', 'resource'])
    attr = pick(rng, ['name', 'role', 'id', '', 'k'])
    v = pick(rng, [None, None, 0, '', False, [], gen_atom(rng), gen_str(rng)])
    what = pick(rng, [v, v, v, None, gen_atom(rng), 0, False, ''])
    inq = gen_inquiry(rng)
    shape = rng.random()
    if shape < 0.7:
        inq[f] = {attr: v, 'other': 1}
    elif shape < 0.8:
        inq[f] = {'other': v}
    elif shape < 0.9:
        inq[f] = v
    else:
        inq[f] = {attr: v}
    rule = ('match', f[0], ('attr', attr) if rng.random() < 0.85 else None)
    w = rng.random()
    if w < 0.2:
        rule = ('not', rule)
    elif w < 0.3:
        rule = ('and', [rule, ('any',)])
    elif w < 0.4:
        rule = ('or', [('neither',), rule])
    return rule, what, inq


def gen_case(rng):
    """(rule, what, inquiry-or-None)"""
    if rng.random() < 0.06:
        return gen_case_fold(rng)
    if rng.random() < 0.05:
        return gen_case_match(rng)
    r = rng.random()
    if r < 0.15:
        what = gen_ip(rng)
    elif r < 0.5:
        what = gen_str(rng)
    elif r < 0.6:
        what = [gen_atom(rng) for _ in range(rng.randint(0, 3))]
    elif r < 0.65:
        what = [pick(rng, [[gen_str(rng)] * 2, [gen_str(rng), gen_str(rng)], (gen_str(rng),) * 2, 'aa', 'ab', [1, 1],
                           [gen_str(rng)], 5, None, {'a': 1, 'b': 2}, {'a': 1}, ['x', 'x', 'x']])
                for _ in range(rng.randint(0, 3))]
    else:
        what = gen_value(rng, 2)
    inq = None
    if rng.random() < 0.7:
        inq = gen_inquiry(rng)
        # aim the inquiry at the value: some field (or attribute) equals it
        c = rng.random()
        if c < 0.5:
            f = pick(rng, ['subject', 'action', 'resource'])
            if rng.random() < 0.5:
                inq[f] = what
            else:
                inq[f] = {pick(rng, ['name', 'role', 'id', 'k', '']): what, 'other': 1}
        elif c < 0.6:
            inq['resource'] = pick(rng, what) if isinstance(what, list) and what else inq['resource']
    kinds = None
    if isinstance(what, str) and (re.match(r'^[\d.]+$', what) or ':' in what) and rng.random() < 0.6:
        kinds = ['cidr', 'cidr', 'cidr', 'streq', 'eq', 'in']
    rule = gen_rule(rng, what, inq, depth=pick(rng, [0, 0, 1, 2, 3, 4]), kinds=kinds)
    return rule, what, inq


def run(ctx):
    out = Outcome()
    rng = ctx.rng
    n = ctx.budget(6000, 300000)
    cases = []
    built = []
    attempts = 0
    while len(cases) < n and attempts < n * 3:
        attempts += 1
        rule, what, inq = gen_case(rng)
        try:
            robj = proto.build_rule(rule, alias=rng)
            rline = proto.enc_rule(rule)
            wline = proto.enc_value(what)
        except (TypeError, proto.ProtoError, re.error):
            out.count('unconstructible')
            continue
        except RecursionError:
            continue
        iobj = proto.build_inquiry(inq) if inq is not None else None
        qline = proto.enc_inquiry_obj(iobj) if iobj is not None else '-'
        cases.append((rule, what, inq, 'EVAL %s %s %s' % (rline, wline, qline)))
        built.append((robj, iobj))
        # the same rule right afterwards on an ==-equal value of another numeric type (1 / 1.0 / True)
        twin = tower_twin(rng, what)
        if twin is not what:
            try:
                cases.append((rule, twin, inq, 'EVAL %s %s %s' % (rline, proto.enc_value(twin), qline)))
                built.append((proto.build_rule(rule), iobj))
            except (TypeError, proto.ProtoError):
                pass
    # the complete product: every leaf kind x an operand table (finite slice)
    table = [None, True, False, 0, 1, -1, 2, 1.0, 0.5, 2.0, '', 'a', 'A', 'ab', 'ß', 'İ', '10.0.0.1', [], [1], ['a'],
             [1, 'a'], [[1]], (), (1,), {}, {'name': 'a'}, [['a', 'a']], [('a', 'a')], ['aa'], [['a', 'b']], [[1, 1]],
             [5], 'i̇', 'None', 'True', '1']
    leaf_rules = []
    trng = __import__('random').Random(12345)
    for kind in LEAF_KINDS:
        for w0 in (1, 'a', ['a'], '10.0.0.1', None):
            leaf_rules.append(gen_leaf(trng, w0, None, kind=kind))
    tq = {'resource': 'a', 'action': {'name': 'a'}, 'subject': 1, 'context': {}}
    for lr in leaf_rules:
        for w in table:
            try:
                robj = proto.build_rule(lr)
                line = 'EVAL %s %s %s' % (proto.enc_rule(lr), proto.enc_value(w), proto.enc_inquiry(tq))
            except (TypeError, proto.ProtoError, re.error):
                continue
            cases.append((lr, w, tq, line))
            built.append((robj, proto.build_inquiry(tq)))

    if ctx.driver is not None:
        ctx.driver.echo_check('rule', [proto.enc_rule(c[0]) for c in cases[:300]])
        ctx.driver.echo_check('val', [proto.enc_value(c[1]) for c in cases[:300]])
        model = ctx.driver.run([c[3] for c in cases])
    else:
        model = [None] * len(cases)

    for (rule, what, inq, line), (robj, iobj), m in zip(cases, built, model):
        out.evaluations += 1
        before = (canon(robj), canon(what), canon(iobj))
        a1 = impl_eval(robj, what, iobj)
        other = built[(out.evaluations * 7) % len(built)]
        impl_eval(other[0], what, other[1])                # interleave another rule
        for junk in PERTURB:                               # and other offers to the same rule object
            impl_eval(robj, junk, iobj)
        a2 = impl_eval(robj, what, iobj)
        a3 = impl_eval(robj, copy.deepcopy(what), copy.deepcopy(iobj))
        after = (canon(robj), canon(what), canon(iobj))
        orc = oracle(rule, what, iobj)
        impl_s = 'raise' if a1 == 'raise' else ('ok T' if a1 else 'ok F')
        orc_s = 'raise' if orc == 'raise' else ('ok T' if orc else 'ok F')
        case = {'rule': repr(rule), 'what': repr(what), 'inquiry': repr(inq)}
        for k in rule_kinds(rule):
            out.count('kind:' + k)
        out.count('answer:' + impl_s)
        if m == 'bad-op':
            raise __import__('common').Broken('driver rejected a generated line: %s' % line[:300])
        if not (a1 == a2 == a3) or before != after:
            f = Failure('oracle', case, {'answers': [a1, a2, a3], 'state_changed': before != after}, m,
                        'evaluating a rule changed the rule/value/inquiry or a later answer',
                        'C05 purity clause (decided by the correspondence: interleaved re-evaluation, canonical dumps)',
                        line=line)
            f.signature = 'impure:' + ','.join(sorted(rule_kinds(rule)))
            out.failures.append(f)
            continue
        if m == 'unmodelled':
            out.unmodelled += 1
        if impl_s != orc_s:
            f = Failure('oracle', case, impl_s, m, 'direct oracle (plain Python operators) says ' + orc_s,
                        'Vakt.C05 (documented meaning of %s)' % ','.join(sorted(rule_kinds(rule))), line=line)
            f.signature = 'oracle:' + ','.join(sorted(rule_kinds(rule)))
            out.failures.append(f)
        elif m is not None and m != 'unmodelled' and m != impl_s:
            f = Failure('disagreement', case, impl_s, m, 'direct oracle says ' + orc_s,
                        'Vakt.C05 (model evaluation of %s)' % ','.join(sorted(rule_kinds(rule))), line=line)
            f.signature = 'model:' + ','.join(sorted(rule_kinds(rule)))
            out.failures.append(f)
        # complement twins, checked directly on the implementation
        if rule[0] in TWINS and a1 != 'raise':
            twin = (TWINS[rule[0]],) + tuple(rule[1:])
            try:
                t1 = impl_eval(proto.build_rule(twin), what, iobj)
                if t1 == 'raise' or t1 == a1:
                    f = Failure('oracle', case, {'rule': a1, 'twin': t1}, m,
                                'negative rule is not the complement of its positive twin',
                                'Vakt.C05.notEq_compl / notIn_compl / allNotIn_compl / falsy_compl / neither_compl',
                                line=line)
                    f.signature = 'twin:' + rule[0]
                    out.failures.append(f)
            except TypeError:
                pass
        nontrivial = impl_s != 'ok F' or rule_depth(rule) >= 1
        if nontrivial and m != 'unmodelled':
            out.nontriv(line)
        if len(out.samples) < 5 and nontrivial and rule_depth(rule) >= 1:
            out.samples.append({'line': line[:400], 'rule': repr(rule)[:300], 'what': repr(what)[:100],
                                'impl': impl_s, 'model': m, 'oracle': orc_s})
    _outside_protocol(ctx, out, rng)
    out.rule = ('rule trees to depth 4 over all built-in classes + user doubles, operand drawn first and rule aimed '
                'at it (p~1/2 per leaf), plus the complete product of %d leaf rules x %d operands; non-trivial = '
                'answer is True or raise, or the tree is a composition; distinct by protocol line'
                % (len(leaf_rules), len(table)))
    out.rule += ('; a stream of operands outside the line protocol (NaN, infinities, sets / frozensets, IPv4-mapped IPv6 addresses '
                 'and networks that contain them) judged by the direct oracle alone')
    out.extra['leaf_product'] = {'leaf_rules': len(leaf_rules), 'operands': len(table), 'exhaustive_slice': True}
    return out


def _outside_protocol(ctx, out, rng):
    """operands the line protocol has no spelling for, judged by the direct oracle alone: comparison rules over values that are
    not totally ordered (NaN, infinities, sets / frozensets that are not subsets of one another) - the rule is the Python operator,
    not the negation of its opposite -, and the network rule over addresses of the other family written in the notation of this
    one (IPv4-mapped IPv6 addresses, IPv6 networks that contain them)"""
    nan, inf = float('nan'), float('inf')
    numbers = [nan, inf, -inf, 0, 50, 50.0, -1, 2 ** 60, True]
    sets = [set(), {1}, {2}, {1, 2}, {2, 3}, frozenset({1, 2}), frozenset({3}), {1, 2, 3}]
    addrs = ['::ffff:10.1.2.3', '::ffff:192.168.0.1', '::ffff:0.0.0.0', '10.1.2.3', '::1', '::ffff:0:1', '64:ff9b::10.1.2.3',
             '2002:a01:203::1', '::10.1.2.3', 'fe80::1', '0:0:0:0:0:ffff:a01:203']
    nets = ['::ffff:0:0/96', '::/0', '10.0.0.0/8', '0.0.0.0/0', '::ffff:10.0.0.0/104', '::ffff:a01:200/120', '64:ff9b::/96',
            '2002::/16', '::/96', 'fe80::/10', '192.168.0.0/16']
    cases = []
    for _ in range(ctx.budget(400, 8000)):
        c = rng.random()
        if c < 0.4:
            cases.append(((pick(rng, ['eq', 'ne', 'gt', 'lt', 'ge', 'le']), pick(rng, numbers)), pick(rng, numbers)))
        elif c < 0.7:
            cases.append(((pick(rng, ['eq', 'ne', 'gt', 'lt', 'ge', 'le']), pick(rng, sets)), pick(rng, sets)))
        else:
            cases.append((('cidr', pick(rng, nets)), pick(rng, addrs)))
    for rule, what in cases:
        try:
            robj = proto.build_rule(rule)
        except Exception:
            out.count('unconstructible')
            continue
        a = impl_eval(robj, what, None)
        o = oracle(rule, what, None)
        out.evaluations += 1
        out.count('outside-protocol:' + rule[0])
        impl_s = 'raise' if a == 'raise' else ('ok T' if a else 'ok F')
        orc_s = 'raise' if o == 'raise' else ('ok T' if o else 'ok F')
        if impl_s != orc_s:
            f = Failure('oracle', {'rule': repr(rule), 'what': repr(what), 'inquiry': 'None'}, impl_s, None,
                        'direct oracle (plain Python operators / ipaddress containment) says ' + orc_s,
                        'Vakt.C05 (documented meaning of %s)' % rule[0])
            f.signature = 'oracle:' + rule[0]
            out.failures.append(f)
        if rule[0] in TWINS and a != 'raise':
            t1 = impl_eval(proto.build_rule((TWINS[rule[0]],) + tuple(rule[1:])), what, None)
            if t1 == 'raise' or t1 == a:
                f = Failure('oracle', {'rule': repr(rule), 'what': repr(what), 'inquiry': 'None'}, {'rule': a, 'twin': t1}, None,
                            'negative rule is not the complement of its positive twin', 'Vakt.C05.notEq_compl')
                f.signature = 'twin:' + rule[0]
                out.failures.append(f)


def replay(ctx, rp):
    line = rp.get('line')
    case = rp.get('case', {})
    rule = eval(case['rule'])
    what = eval(case['what'])
    inq = eval(case['inquiry'])
    robj = proto.build_rule(rule)
    iobj = proto.build_inquiry(inq) if inq is not None else None
    a = impl_eval(robj, what, iobj)
    impl_s = 'raise' if a == 'raise' else ('ok T' if a else 'ok F')
    o = oracle(rule, what, iobj)
    orc_s = 'raise' if o == 'raise' else ('ok T' if o else 'ok F')
    m = ctx.driver.run([line])[0] if ctx.driver and line else None
    return {'impl': impl_s, 'model': m, 'oracle': orc_s,
            'still_fails': impl_s != orc_s or (m not in (None, 'unmodelled') and m != impl_s)}
