"""C02 - fail-closed totality of decisions.

For every generated (store, inquiry, checker) the harness first runs the decision once while
recording the call boundaries reached (storage call, each yielded policy, each checker.fits call,
each pattern compilation), then replays it once per boundary with an exception raised there.
Storage faults and representable faults (raising context rules, malformed patterns) also go
through the model; for every faulted run the answer must be exactly `False` (type bool) with no
exception escaping."""
import copy
import re

import proto
from common import Failure, Outcome, Broken
from gen import pick
import polcase
from vakt.guard import Guard
from vakt.storage.memory import MemoryStorage
from vakt.storage.observable import ObservableMutationStorage
from vakt.cache import EnfoldCache
from vakt.exceptions import InvalidPatternError

MODULE = 'Props.C02'
THEOREMS = ['Vakt.C02.fault_denies', 'Vakt.C02.policy_raise_denies', 'Vakt.C02.allow_sound',
            'Vakt.C02.fault_monotone', 'Vakt.C02.ctx_rule_raise_propagates', 'Vakt.C02.ctx_junk_raises',
            'Vakt.C02.ctx_nondict_raises']
# is_allowed_check as written in /repo/vakt/guard.py (storage call, None guard, evaluation, catch-all handler), translated
# in this run, is the model's isAllowed for every storage answer (lean/Gen/EquivGuard.lean)
EXTRA_BUILD = ['+Gen.EquivGuard']
GEN_IMPORTS = ['Gen.EquivGuard']
GEN_THEOREMS = ['Vakt.GenEquiv.gen_is_allowed_check', 'Vakt.GenEquiv.gen_check_policies_allow_lazy']
FLOOR = {'quick': 300, 'thorough': 5000}
ASSUMPTIONS = ['BaseException subclasses that are not Exception (KeyboardInterrupt, SystemExit), MemoryError and '
               'RecursionError inside the interpreter are outside the property ("any Exception subclass")']


class Boom(Exception):
    pass


class Unprintable:
    """a value the application put into the inquiry context that cannot be rendered"""
    def __repr__(self):
        raise RuntimeError('this object cannot be printed')
    __str__ = __repr__


EXC = [Exception, ValueError, KeyError, RuntimeError, Boom, StopIteration, TypeError, AttributeError, re.error,
       InvalidPatternError, LookupError, ArithmeticError, OSError, AssertionError, NotImplementedError]


class FaultStorage:
    """wraps a list of policies; `mode` = None | 'raise' | 'none' | ('iter', n)"""
    def __init__(self, objs, mode, exc):
        self.objs, self.mode, self.exc = objs, mode, exc
        self.yielded = 0

    def find_for_inquiry(self, inquiry, checker=None):
        if self.mode == 'raise':
            raise self.exc('storage')
        if self.mode == 'none':
            return None
        return self._gen()

    def _gen(self):
        for i, p in enumerate(self.objs):
            if isinstance(self.mode, tuple) and self.mode[1] == i:
                raise self.exc('iteration')
            self.yielded += 1
            yield p
        if isinstance(self.mode, tuple) and self.mode[1] == len(self.objs):
            raise self.exc('iteration end')


class ClosingStorage:
    """a storage whose result is lazy and owns a resource: releasing it before it was read to the end fails (a driver
    that refuses to close a cursor with unread rows, a dropped connection).  form 'gen': a generator whose clean-up
    code raises; form 'obj': an iterator object with a close() method that raises"""
    def __init__(self, objs, form, exc):
        self.objs, self.form, self.exc = objs, form, exc

    def find_for_inquiry(self, inquiry, checker=None):
        if self.form == 'gen':
            return self._gen()
        return _ClosingIter(self.objs, self.exc)

    def _gen(self):
        done = False
        try:
            for p in self.objs:
                yield p
            done = True
        finally:
            if not done:
                raise self.exc('released with unread rows')


class _ClosingIter:
    def __init__(self, objs, exc):
        self.it, self.exc, self.done = iter(objs), exc, False

    def __iter__(self):
        return self

    def __next__(self):
        try:
            return next(self.it)
        except StopIteration:
            self.done = True
            raise

    def close(self):
        if not self.done:
            raise self.exc('closed with unread rows')


class FaultChecker:
    """delegates to a real checker; raises at the k-th fits call (1-based)"""
    def __init__(self, real, k, exc):
        self.real, self.k, self.exc = real, k, exc
        self.calls = 0

    def fits(self, policy, field, what, inquiry=None):
        self.calls += 1
        if self.calls == self.k:
            raise self.exc('fits')
        return self.real.fits(policy, field, what, inquiry)


def ask(storage, checker, inq):
    try:
        r = Guard(storage, checker).is_allowed(inq)
    except BaseException as e:  # noqa
        return 'escaped:%s' % type(e).__name__
    return r


def run(ctx):
    out = Outcome()
    rng = ctx.rng
    nbase = ctx.budget(500, 20000)
    lines, meta = [], []
    for _ in range(nbase):
        case = polcase.gen_store_case(rng, npol=pick(rng, [1, 2, 2, 3, 4, 5]))
        # natural ill-typed inputs
        r = rng.random()
        if r < 0.1:
            case['inquiry'][pick(rng, ['resource', 'action', 'subject'])] = pick(rng, [{'a': 1}, 5, None, ['x'], 1.5])
        elif r < 0.15:
            case['inquiry']['context'] = pick(rng, [['a'], 'ctx', 7])
        try:
            objs, inq = polcase.build_case(case)
        except Exception:
            out.count('unconstructible')
            continue
        k = case['k']
        desc0 = {'checker': k, 'policies': [repr(p) for p in case['policies']], 'inquiry': repr(case['inquiry'])}
        # clean run, recording the boundaries reached
        rec = FaultChecker(polcase.make_checker(k), -1, Exception)
        st = FaultStorage(objs, None, Exception)
        clean = ask(st, rec, inq)
        nfits = rec.calls
        internal = []
        matches = polcase.direct_matches(k, objs, inq, internal)
        want = polcase.oracle_decision(objs, matches)
        out.evaluations += 1
        out.count('clean:%s' % clean)
        fails = []
        if clean is not want or type(clean) is not bool:
            fails.append(('clean run', clean, 'direct oracle says %s' % want, 'oracle-clean'))
        dirty = [i for i, (mt, er) in enumerate(zip(matches, internal)) if mt is True and er]
        if dirty and clean is True:
            fails.append(('policy #%s counted as matching although a pattern of it raised %s while it was evaluated'
                          % (dirty, [internal[i] for i in dirty]), clean,
                          'an allow answer needs a policy that matched without error', 'matched-with-error'))
        try:
            lines.append(polcase.decide_line(case, objs, inq))
            meta.append(('clean', desc0, clean))
        except proto.ProtoError:
            pass
        # the same request through a guard whose decisions are cached (the inquiry is hashed and compared before the guarded
        # evaluation starts): asked twice, with the inquiry as generated and with a non-finite number in it - a boolean, the same one
        if rng.random() < 0.3:
            from vakt.cache import create_cached_guard
            from vakt.guard import Inquiry
            qs = [inq]
            if isinstance(inq.context, dict):
                nf = pick(rng, [float('inf'), float('-inf'), float('nan')])
                where = rng.randrange(3)
                try:
                    if where == 0:
                        qs.append(Inquiry(action=inq.action, resource=inq.resource, subject=inq.subject,
                                          context=dict(inq.context, **{'zz-load': nf})))
                    elif where == 1:
                        qs.append(Inquiry(action=inq.action, resource=inq.resource, context=inq.context,
                                          subject={'name': inq.subject, 'score': nf}))
                    else:
                        qs.append(Inquiry(action=inq.action, resource=[nf, inq.resource], subject=inq.subject,
                                          context=inq.context))
                except Exception:
                    pass
            for q in qs:
                m_ = polcase.direct_matches(k, objs, q, [])
                w_ = polcase.oracle_decision(objs, m_)
                try:
                    cg, _, _ = create_cached_guard(FaultStorage(objs, None, Exception), polcase.make_checker(k),
                                                   maxsize=pick(rng, [1, 4, 256]))
                    got = [cg.is_allowed(q), cg.is_allowed(q)]
                except BaseException as e:  # noqa
                    got = ['escaped:%s' % type(e).__name__]
                out.evaluations += 1
                out.count('cached-guard:' + ('as-generated' if q is inq else 'non-finite'))
                if any(g is not w_ for g in got):
                    fails.append(('asked twice through create_cached_guard with inquiry %r' % (q,), got,
                                  'a boolean both times, the direct oracle says %s' % w_, 'cached-guard'))
        # (a) storage faults, every position
        modes = ['raise', 'none'] + [('iter', i) for i in range(len(objs) + 1)]
        for mode in modes:
            exc = pick(rng, EXC)
            a = ask(FaultStorage(objs, mode, exc), polcase.make_checker(k), inq)
            out.evaluations += 1
            out.count('fault:storage')
            if a is not False:
                fails.append(('storage fault %r (%s)' % (mode, exc.__name__), a, 'must be False', 'storage-fault'))
            # the same fault behind the storage wrappers (both the cache store and the backend of the enfolding cache
            # fail in the same way, so no retrieval path succeeds)
            for wname in ('enfold', 'observable'):
                try:
                    if wname == 'enfold':
                        ws = EnfoldCache(FaultStorage(objs, mode, exc), cache=FaultStorage(objs, mode, exc), populate=False)
                    else:
                        ws = ObservableMutationStorage(FaultStorage(objs, mode, exc))
                except Exception:
                    out.count('wrapper-unconstructible:' + wname)
                    continue
                aw = ask(ws, polcase.make_checker(k), inq)
                out.evaluations += 1
                out.count('fault:storage-behind-' + wname)
                if aw is not False:
                    fails.append(('storage fault %r (%s) behind the %s wrapper' % (mode, exc.__name__, wname), aw,
                                  'must be False', 'storage-fault-' + wname))
            try:
                if mode == 'raise':
                    lines.append(polcase.decide_line(case, objs, inq, ans='AR'))
                elif mode == 'none':
                    lines.append(polcase.decide_line(case, objs, inq, ans='AN'))
                else:
                    lines.append(polcase.decide_line(case, objs, inq, fail_at=mode[1]))
                meta.append(('storage %r' % (mode,), desc0, a))
            except proto.ProtoError:
                pass
        # (b) a raise at every checker.fits call that the clean run reached
        for kcall in range(1, nfits + 1):
            exc = pick(rng, EXC)
            a = ask(FaultStorage(objs, None, Exception), FaultChecker(polcase.make_checker(k), kcall, exc), inq)
            out.evaluations += 1
            out.count('fault:fits')
            if a is not False:
                fails.append(('raise %s at fits call %d of %d' % (exc.__name__, kcall, nfits), a, 'must be False',
                              'fits-fault'))
        # (b') the evaluation is aborted part-way through a lazy result whose release then fails as well
        if nfits:
            import sys
            hook, sys.unraisablehook = sys.unraisablehook, (lambda *a: None)
            try:
                for form in ('gen', 'obj'):
                    kcall = rng.randint(1, nfits)
                    exc, exc2 = pick(rng, EXC), pick(rng, EXC)
                    a = ask(ClosingStorage(objs, form, exc2), FaultChecker(polcase.make_checker(k), kcall, exc), inq)
                    import gc
                    gc.collect()
                    out.evaluations += 1
                    out.count('fault:fits+release')
                    if a is not False:
                        fails.append(('raise %s at fits call %d of %d over a lazy storage result (%s) whose release raises %s'
                                      % (exc.__name__, kcall, nfits, form, exc2.__name__), a, 'must be False',
                                      'fits-fault-release'))
                # ... and a clean evaluation over such a result (read to the end: the release succeeds)
                a = ask(ClosingStorage(objs, pick(rng, ['gen', 'obj']), Boom), polcase.make_checker(k), inq)
                out.evaluations += 1
                if a is not clean:
                    fails.append(('clean evaluation over a lazy storage result with clean-up code', a,
                                  'must equal the answer over a list (%s)' % clean, 'lazy-result'))
            finally:
                sys.unraisablehook = hook
        # (c) the same policies in a real storage class, one stored entry made unreadable behind its back (a corrupted
        #     value, a pickled rule whose module is gone, a row edited by hand): retrieval fails part-way, the answer is deny
        if objs and rng.random() < 0.15 and all(p.get('stag', '<') == '<' and p.get('etag', '>') == '>' for p in case['policies']):
            skind = pick(rng, ['redis-json', 'redis-pickle', 'mongo40', 'sqlite'])
            try:
                import stores
                st_c = stores.make_base(skind)
                for o in objs:
                    st_c.add(copy.deepcopy(o))
                vobj = pick(rng, objs)
                victim = vobj.uid
                # Redis hands every stored entry to the guard; SQL and an old MongoDB select by policy type for the regex
                # checker: the unreadable entry is then necessarily part of what is retrieved (with a query that selects by
                # the inquiry it may legitimately never be read)
                if not skind.startswith('redis') and not (k == 'KR' and vobj.type == 1):
                    raise LookupError('no claim for this combination')
                if skind.startswith('redis'):
                    h = st_c.client.h[st_c.collection]
                    key = [k_ for k_ in h if k_ == (victim if isinstance(victim, bytes) else str(victim).encode())]
                    h[key[0]] = pick(rng, [b'\x80\x04garbage', b'{"uid": ', b'not a policy'])      # IndexError: no such key
                elif skind.startswith('mongo'):
                    hit = [d_ for d_ in st_c.collection.docs if d_['_id'] == victim]
                    hit[0]['actions'] = 5                                                            # IndexError: not found
                else:
                    from sqlalchemy import text
                    res = st_c.session.execute(text("UPDATE vakt_policies SET context = '{not json' WHERE uid = :u"),
                                               {'u': str(victim)})
                    st_c.session.commit()
                    if res.rowcount != 1:
                        raise LookupError('row not found')
                    st_c.session.expire_all()
            except Exception:
                st_c = None
                out.count('corrupt-setup-failed')
            if st_c is not None:
                a = ask(st_c, polcase.make_checker(k), inq)
                out.evaluations += 1
                out.count('fault:unreadable-entry:' + skind)
                if a is not False:
                    fails.append(('one stored policy of the %s storage is unreadable (corrupted behind its back)' % skind, a,
                                  'must be False', 'unreadable-entry'))
        # (a') the same faults with an inquiry that cannot be printed (a context value whose repr / str raise): whatever
        #      the failure path wants to log about the inquiry, the answer is still False and nothing escapes
        try:
            inq_u = copy.copy(inq)
            inq_u.context = dict(inq.context) if isinstance(inq.context, dict) else {}
            inq_u.context['zz_unprintable'] = Unprintable()
        except Exception:
            inq_u = None
        if inq_u is not None:
            for mode in ['raise', ('iter', len(objs))] + ([('iter', 0)] if objs else []):
                exc = pick(rng, EXC)
                au = ask(FaultStorage(objs, mode, exc), polcase.make_checker(k), inq_u)
                out.evaluations += 1
                out.count('fault:unprintable-inquiry')
                if au is not False:
                    fails.append(('storage fault %r (%s) with an inquiry holding an unprintable value' % (mode, exc.__name__),
                                  au, 'must be False', 'unprintable-inquiry'))
            if nfits:
                au = ask(FaultStorage(objs, None, Exception), FaultChecker(polcase.make_checker(k), 1, pick(rng, EXC)), inq_u)
                out.evaluations += 1
                if au is not False:
                    fails.append(('checker fault with an inquiry holding an unprintable value', au, 'must be False',
                                  'unprintable-inquiry'))
        # (c) representable faults: each context rule replaced by a raising one; each string element by a malformed one
        variants = []
        for pi, p in enumerate(case['policies']):
            for ci in range(len(p['context'])):
                v = dict(p)
                ctxl = list(p['context'])
                ctxl[ci] = (ctxl[ci][0], pick(rng, [('raise', 'RuntimeError'), ('raise', 'KeyError'), ('gt', 'zz'),
                                                    ('allin', [1]), ('junk', 5)]))
                v['context'] = ctxl
                variants.append((pi, v, 'ctx'))
            if k == 'KR':
                for fld in ('subjects', 'resources', 'actions'):
                    if p[fld] and p[fld][0][0] == 'S':
                        v = dict(p)
                        es = list(p[fld])
                        es.insert(0, ('S', pick(rng, [p['stag'] + p['stag'] + 'a' + p['etag'], 'a' + p['etag'],
                                                      p['stag'] + '*' + p['etag'], p['stag'] + '(' + p['etag']])))
                        v[fld] = es
                        variants.append((pi, v, 'pattern'))
                        break
        # (d) rule-based policies: every element of one field gets a raising rule (as a non-last attribute of each
        #     attribute dictionary / in place of each plain rule) -> that policy can not match any more
        forced = {}
        if k == 'KU':
            for pi, p in enumerate(case['policies']):
                fld, key = pick(rng, [('subjects', 'subject'), ('resources', 'resource'), ('actions', 'action')])
                what = case['inquiry'][key]
                es = p[fld]
                if not es or any(e[0] not in ('A', 'R') for e in es):
                    continue
                new_es, ok = [], True
                for e in es:
                    rr = ('raise', pick(rng, ['RuntimeError', 'KeyError', 'ValueError']))
                    if e[0] == 'R':
                        new_es.append(('R', rr))
                    elif isinstance(what, dict) and what:
                        free = [kk for kk in what if kk not in [x[0] for x in e[1]]]
                        kvs = list(e[1])
                        if free:
                            kvs.insert(rng.randint(0, max(0, len(kvs) - 1)), (pick(rng, free), rr))
                        elif kvs:
                            j = rng.randrange(len(kvs))
                            kvs[j] = (kvs[j][0], rr)
                            if len(kvs) > 1 and j == len(kvs) - 1:
                                kvs[0], kvs[j] = kvs[j], kvs[0]
                        else:
                            ok = False
                        new_es.append(('A', kvs))
                    else:
                        ok = False
                if not ok:
                    continue
                v = dict(p)
                v[fld] = new_es
                forced[len(variants)] = pi
                variants.append((pi, v, 'elemrule'))
        chosen = variants[:6] + [variants[i] for i in sorted(forced) if i >= 6][:3]
        for vi, (pi, v, what) in enumerate(chosen):
            c2 = dict(case)
            c2['policies'] = case['policies'][:pi] + [v] + case['policies'][pi + 1:]
            try:
                o2, q2 = polcase.build_case(c2)
            except Exception:
                continue
            a = polcase.real_decision(k, o2, q2)
            int2 = []
            m2 = polcase.direct_matches(k, o2, q2, int2)
            w2 = polcase.oracle_decision(o2, m2)
            if any(mt is True and er for mt, er in zip(m2, int2)):
                w2 = False          # a policy "matched" although one of its patterns raised: not a match without error
            if what == 'elemrule':
                # independent of the checker under test: a policy every element of which contains a raising rule
                # matches nothing, so the answer is the one for the store without it
                m3 = list(m2)
                m3[pi] = False
                w2 = polcase.oracle_decision(o2, m3)
            out.evaluations += 1
            out.count('fault:' + what)
            d2 = {'checker': k, 'policies': [repr(p) for p in c2['policies']], 'inquiry': repr(c2['inquiry'])}
            if a is not w2:
                f = Failure('oracle', d2, a, None, 'injected %s fault: direct oracle says %s' % (what, w2),
                            'Vakt.C02.policy_raise_denies')
                f.signature = 'variant-' + what
                out.failures.append(f)
            try:
                lines.append(polcase.decide_line(c2, o2, q2))
                meta.append(('variant ' + what, d2, a))
            except proto.ProtoError:
                pass
        for what, a, why, sig in fails:
            d = dict(desc0)
            d['fault'] = what
            f = Failure('oracle', d, a, None, why, 'Vakt.C02.fault_denies / allow_sound')
            f.signature = sig
            out.failures.append(f)
        if nfits >= 2 or 'raise' in matches:
            out.nontriv(repr(desc0))
            if len(out.samples) < 3 and 'raise' in matches:
                out.samples.append({'case': desc0, 'clean_answer': clean, 'fits_calls': nfits, 'storage_faults': len(modes),
                                    'matches': matches})
    model = ctx.driver.run(lines) if ctx.driver else [None] * len(lines)
    for line, (what, desc, a), m in zip(lines, meta, model):
        mm = polcase.parse_decide(m)
        if mm['kind'] == 'bad-op':
            raise Broken('driver rejected: %s' % line[:300])
        if mm['kind'] == 'unmodelled':
            out.unmodelled += 1
            continue
        out.traces += 1
        if mm['kind'] == 'ok' and mm['answer'] is not a:
            d = dict(desc)
            d['fault'] = what
            f = Failure('disagreement', d, a, m, 'model of the guard under this fault placement', 'Vakt.C02.fault_denies',
                        line=line)
            f.signature = 'model:' + what.split(' ')[0]
            out.failures.append(f)
    out.rule = ('base cases: generated stores (1-5 policies, all checkers, ill-typed inquiry fields / contexts); per base '
                'case EVERY boundary is faulted once: storage raise, storage None, a raise before each yielded policy '
                'and at the end of iteration, a raise at each reached checker.fits call (15 exception classes), plus '
                'variants with a raising/junk context rule or a malformed pattern; 30% of the base cases also asked twice '
                'through create_cached_guard, as generated and with inf/-inf/nan inside the inquiry; non-trivial base case = >=2 fits '
                'calls reached or some policy raises naturally; traces_validated = fault placements also run through '
                'the model')
    return out


def replay(ctx, rp):
    c = rp['case']
    cc = {'k': c['checker'], 'policies': [eval(p) for p in c['policies']], 'inquiry': eval(c['inquiry'])}
    objs, inq = polcase.build_case(cc)
    a = polcase.real_decision(cc['k'], objs, inq)
    matches = polcase.direct_matches(cc['k'], objs, inq)
    want = polcase.oracle_decision(objs, matches)
    return {'impl_clean': a, 'oracle_clean': want, 'fault': c.get('fault'), 'still_fails': a is not want,
            'note': 'fault placements are re-enumerated by the check itself'}
