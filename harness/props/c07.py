"""C07 - decisions do not depend on the storage backend."""
import re

import proto
from common import capped, Failure, Outcome, Broken
from gen import pick, gen_str, mutate_str
from genrules import gen_policy, gen_inquiry
import polcase
import stores
from vakt.guard import Guard, Inquiry
from vakt.exceptions import InvalidPatternError

MODULE = 'Props.C07'
THEOREMS = ['Vakt.C07.filterM_superset', 'Vakt.C07.superset_ok', 'Vakt.C07.other_type_no_match',
            'Vakt.C07.exact_query_sound', 'Vakt.C07.fuzzy_query_sound', 'Vakt.C07.candidate_sound',
            'Vakt.C07.backend_decision_eq',
            'Vakt.C07.regex_candidates_complete', 'Vakt.C07.regex_dropped_no_match', 'Vakt.C07.mongo42_regex_decision_eq',
            'Vakt.C07.invalid_literal_breaks',
            # the SQL queries: LIKE modelled exactly, the regex-operator query over the stored child rows
            'Vakt.C07.like_infix', 'Vakt.C07.like_escape_incomplete', 'Vakt.C07.sql_fuzzy_complete',
            'Vakt.C07.sql_fuzzy_dropped_no_match', 'Vakt.C07.sql_fuzzy_decision_eq', 'Vakt.C07.sql_regex_complete',
            'Vakt.C07.sql_regex_dropped_no_match', 'Vakt.C07.sql_regex_decision_eq',
            'Vakt.C07.probes_ok']
EXTRA_IMPORTS = ['Props.C06', 'Props.C07Regex', 'Props.C07Sql']
FLOOR = {'quick': 50, 'thorough': 1500}
ASSUMPTIONS = ['MySQL / PostgreSQL / Oracle regex and LIKE-escape semantics and a real MongoDB (PCRE) are not available: the '
               'regex-capable SQL dialect is SQLite with a registered REGEXP function (Python re.search) and Mongo is the '
               'in-process fake; results for those branches hold for the emulation only',
               "SQL LIKE is modelled exactly for SQLite (% and _ wildcards, ASCII case folding, no escape character) and "
               "compared with SQLite's own LIKE on every run; on a dialect whose LIKE has the backslash as default escape "
               "character (MySQL, PostgreSQL) the fuzzy query misses an element containing a value with a backslash "
               "(like_escape_incomplete: a theorem of the model; no such server here to exhibit it on the code)"]
BACKENDS = ['sqlite', 'sqlite-regex', 'redis-json', 'redis-pickle', 'mongo', 'mongo40', 'mongo419', 'enfold:sqlite', 'enfold:mongo',
            'observable:sqlite', 'observable:memory', 'enfold-late:sqlite', 'enfold-late-pop:memory']


def load(kind, objs, via_update=0):
    """a storage of the given kind holding `objs`.  'enfold-late:X' is an enfolding cache created with populate=False
    over an already filled backend and only read from (look-ups by uid, listings) before it is searched;
    'enfold-late-pop:X' is the same followed by the documented manual populate()"""
    if kind.startswith('enfold-late'):
        from vakt.cache import EnfoldCache
        base = stores.make_base(kind.split(':', 1)[1])
        for o in objs:
            base.add(o)
        ec = EnfoldCache(base, cache=stores.make_base('memory'), populate=False)
        if objs:
            ec.get(objs[0].uid)
            ec.get(objs[-1].uid)
        ec.get('no-such-uid')
        capped(ec.get_all(2, 0))
        capped(ec.retrieve_all())
        if kind.startswith('enfold-late-pop'):
            ec.populate()
        return ec
    st = stores.make(kind)
    for i, o in enumerate(objs):
        if via_update and (i + via_update) % 3 == 0:
            # the uid first holds a policy of the OTHER kind and is then updated to this one: what a search finds is the policy
            # as it stands now
            from vakt.policy import Policy as _P
            from vakt.rules import Eq as _Eq
            if o.type == 1:
                first = _P(o.uid, subjects=[_Eq('old')], actions=[{'a': _Eq(1)}], resources=[_Eq('r')], effect='deny',
                           description='old')
            else:
                first = _P(o.uid, subjects=['old<.*>'], actions=['a'], resources=['r'], effect='deny', description='old')
            st.add(first)
            st.update(o)
        else:
            st.add(o)
    return st
TRICKY = ['%', '_', 'a%', 'x_y', '100%', 'a\\b', 'C:\\dir\\f', 'a+b', 'a.b', 'a(b', 'a[b', 'a)b', 'docs/r(final).pdf',
          'Admin', 'admin', 'ADMIN', 'Ünï', 'a|b', 'a*', '^a$', 'get', '<get>', 'a b', "o'neil", '"q"', 'a\\',
          '$HOME', '$uid', '$$x', '$', '$type']


PLAIN = ['get', 'put', 'max', 'bob', 'r', 'book', 'a.b', 'a+b', 'a(b', 'x*', 'b[1]', 'read write', 'a|b', 'ab', 'a?', 'a{2}',
         'Get', 'a)b', 'a[b']


def model_backend(kind, k):
    base = kind.split(':')[-1]
    if base in ('memory', 'redis-json', 'redis-pickle') or kind.startswith('enfold:') or kind.startswith('enfold-late-pop'):
        return 'all'                      # the enfolding cache answers from its in-memory cache store
    if k is None:
        return 'all'
    if k in ('KX', 'KF'):
        return 'query'
    return 'type'


def gen_case(rng):
    k = pick(rng, ['KR', 'KX', 'KF', 'KU', None])
    store = 'rule' if k == 'KU' else pick(rng, ['str', 'str', 'str', 'mixed'])
    if k is None:
        store = pick(rng, ['str', 'rule', 'mixed'])
    q = gen_inquiry(rng, dictish=None if k == 'KU' else False)
    if k != 'KU':
        plain = k == 'KR' and rng.random() < 0.4      # values the model's regex engine covers (MongoDB >= 4.2 query model)
        for f in ('resource', 'action', 'subject'):
            if plain:
                q[f] = pick(rng, PLAIN)
            else:
                q[f] = pick(rng, TRICKY) if rng.random() < 0.5 else gen_str(rng)
    pols = []
    uids = rng.sample(['a', 'b', 'c', 'd', 'e', 'f', 'g'], pick(rng, [1, 2, 3, 4, 5]))
    for u in uids:
        kind = store if store != 'mixed' else pick(rng, ['str', 'rule'])
        p = gen_policy(rng, u, q, kind, '<', '>')
        p['effect'] = pick(rng, ['allow', 'allow', 'deny'])
        if kind == 'str' and rng.random() < 0.5:
            # wrapped / case-varied / wildcard spellings of the value in one field
            f = pick(rng, [('subjects', 'subject'), ('resources', 'resource'), ('actions', 'action')])
            v = q[f[1]]
            if isinstance(v, str):
                p[f[0]] = [('S', pick(rng, ['<' + re.escape(v) + '>', '<' + v + '>', v.swapcase(), 'x' + v + 'y', v,
                                            v.replace('%', 'Z').replace('_', 'Z'), mutate_str(rng, v),
                                            '<<' + v + '>>', '<<' + v + '>>']))] + \
                    (p[f[0]][:1] if rng.random() < 0.3 else [])
        pols.append(p)
    return {'k': k, 'policies': pols, 'inquiry': q}


def storable(objs):
    """SQL / Mongo refuse policies with malformed patterns (C08): keep only sets every backend accepts"""
    from vakt.parser import compile_regex
    for o in objs:
        for f in ('subjects', 'resources', 'actions'):
            for e in getattr(o, f):
                if isinstance(e, str) and '<' in e and '>' in e:
                    try:
                        compile_regex(e, '<', '>')
                    except Exception:
                        return False
    return True


class ReentrantInquiry(Inquiry):
    """an inquiry with the content of `base`; the first read of one chosen field calls `hook` first"""
    def __init__(self, base, field, hook):
        self.__dict__['_v'] = {'resource': base.resource, 'action': base.action, 'subject': base.subject, 'context': base.context}
        self.__dict__['_field'], self.__dict__['_hook'], self.__dict__['_fired'] = field, hook, [False]

    def _get(self, name):
        if name == self._field and not self._fired[0]:
            self._fired[0] = True
            self._hook()
        return self._v[name]
    resource = property(lambda self: self._get('resource'))
    action = property(lambda self: self._get('action'))
    subject = property(lambda self: self._get('subject'))
    context = property(lambda self: self._get('context'))


def run(ctx):
    out = Outcome()
    rng = ctx.rng
    n = ctx.budget(300, 8000)
    lines, meta = [], []
    mlines, mmeta = [], []
    corpus = [{'k': 'KR', 'inquiry': {'resource': 'r', 'action': 'get', 'subject': 'max', 'context': {}},
               'policies': [
                   {'uid': 'a', 'desc': None, 'stag': '<', 'etag': '>', 'effect': 'allow', 'subjects': [('S', 'max')],
                    'resources': [('S', 'r')], 'actions': [('S', '<get|put>')], 'context': []},
                   {'uid': 'b', 'desc': None, 'stag': '<', 'etag': '>', 'effect': 'allow', 'subjects': [('S', 'a(b')],
                    'resources': [('S', 'x')], 'actions': [('S', 'y')], 'context': []}]}]
    for ci in range(n + len(corpus)):
        case = corpus[ci] if ci < len(corpus) else gen_case(rng)
        try:
            objs, inq = polcase.build_case(dict(case, k=case['k'] or 'KX'))
        except Exception:
            continue
        if not storable(objs):
            out.count('unstorable-set')
            continue
        k = case['k']
        checker = polcase.make_checker(k) if k else None
        # reference: plain in-memory store
        ref = stores.make('memory')
        for o in objs:
            ref.add(o)
        ref_dec = Guard(ref, polcase.make_checker(k or 'KX')).is_allowed(inq) if k else None
        matches = polcase.direct_matches(k, objs, inq) if k else [False] * len(objs)
        match_uids = sorted(o.uid for o, m in zip(objs, matches) if m is True)
        raises = 'raise' in matches
        other_inq, other = None, None
        if rng.random() < 0.5:
            other = dict(case['inquiry'])
            for f in ('resource', 'action', 'subject'):
                if isinstance(other[f], str):
                    other[f] = pick(rng, [other[f] + 'x', 'zz', mutate_str(rng, other[f]), ''])
            try:
                other_inq = proto.build_inquiry(other)
            except Exception:
                other_inq = None
        desc0 = {'checker': k, 'policies': [repr(p) for p in case['policies']], 'inquiry': repr(case['inquiry']),
                 'matching_uids': match_uids, 'memory_decision': ref_dec}
        via_update = rng.randint(1, 3) if rng.random() < 0.2 else 0
        for kind in BACKENDS:
            try:
                st = load(kind, objs, via_update)
            except (InvalidPatternError, re.error):
                out.count('rejected-by-backend')
                continue
            except Exception as e:
                if not kind.startswith('enfold-late'):
                    raise
                f = Failure('oracle', dict(desc0, backend=kind), repr(e), None, 'reading through an enfolding cache created '
                            'with populate=False and then populating it (the documented manual population) raised',
                            'Vakt.C07.candidate_sound')
                f.signature = 'late-populate-raised'
                out.failures.append(f)
                continue
            out.evaluations += 1
            out.count('backend:' + kind)
            desc = dict(desc0, backend=kind)
            if via_update:
                desc['stored'] = 'every third policy was stored as a policy of the other kind first and then updated'
                out.count('stored-via-update')
            pending = None
            if other_inq is not None and rng.random() < 0.4:
                # the search is requested first, another search is made, and only then are the candidates of the first consumed
                # (a storage may hand out a lazy iterable): what one search yields does not depend on searches made meanwhile
                try:
                    pending = st.find_for_inquiry(inq, checker)
                    capped(st.find_for_inquiry(other_inq, checker))
                    desc['interleaved'] = 'requested, then a search for %r was made and consumed, then consumed' % (other,)
                    out.count('interleaved-search')
                except Exception:
                    pending = None
            elif other_inq is not None:
                # the storage object has answered another inquiry before: a search leaves nothing behind for the next one
                try:
                    capped(st.find_for_inquiry(other_inq, checker))
                    desc['asked_before'] = repr(other)
                except Exception:
                    pass
            try:
                cands = sorted(p.uid for p in (pending if pending is not None else st.find_for_inquiry(inq, checker)))
                cerr = None
            except Exception as e:
                cands, cerr = None, type(e).__name__
            dec = Guard(st, polcase.make_checker(k)).is_allowed(inq) if k else None
            prob, sig = None, None
            if other_inq is not None and cands is not None and not raises and rng.random() < 0.5:
                # a search for another inquiry made on the same storage object WHILE this one is being prepared (at the moment one
                # of the inquiry's fields is read - where a second thread could be scheduled in): the candidates are still this
                # inquiry's
                fld = pick(rng, ['resource', 'action', 'subject'])

                def inner():
                    try:
                        capped(st.find_for_inquiry(other_inq, checker))
                    except Exception:
                        pass            # what the other search does is judged when it is the subject
                try:
                    re_c = sorted(p.uid for p in st.find_for_inquiry(ReentrantInquiry(inq, fld, inner), checker))
                    out.count('reentrant-search')
                    if not set(match_uids) <= set(re_c):
                        prob = ('another search (for %r) made while inquiry.%s was being read: matching policies %s are not among '
                                'the candidates %s' % (other, fld, sorted(set(match_uids) - set(re_c)), re_c))
                        sig = 'dropped-match-reentrant'
                except Exception as e:
                    prob, sig = 'a search made while another one was being prepared raised %s' % type(e).__name__, 'reentrant-raised'
            if prob:
                pass
            elif cerr and not raises:
                prob, sig = 'find_for_inquiry raised %s although evaluation over memory raises nothing' % cerr, 'find-raised'
            elif cands is not None and not set(match_uids) <= set(cands):
                prob = 'matching policies %s are not among the candidates %s' % (sorted(set(match_uids) - set(cands)), cands)
                sig = 'dropped-match'
            elif cands is not None and not set(cands) <= set(o.uid for o in objs):
                prob, sig = 'candidates %s are not all stored' % cands, 'phantom'
            if k and dec is not ref_dec and prob is None:
                prob = 'decision over %s is %s, over the in-memory store %s' % (kind, dec, ref_dec)
                sig = 'decision'
            if prob:
                # classify the recorded Mongo >= 4.2 finding precisely: a literal element that is not a valid regular
                # expression makes $regexMatch fail for the whole aggregation
                if kind.split(':')[-1] == 'mongo' and k == 'KR' and cerr == 'OperationFailure' and _has_invalid_literal(objs):
                    sig = 'mongo42-invalid-literal-regex'
                f = Failure('oracle', desc, {'candidates': cands, 'error': cerr, 'decision': dec}, None, prob,
                            'Vakt.C07.candidate_sound / backend_decision_eq')
                f.signature = sig + (':' + kind.split(':')[-1] if not sig.startswith('mongo42') else '')
                out.failures.append(f)
            # the MongoDB >= 4.2 aggregation of the regex checker against its model (MongoRegex.find over the stored
            # compiled texts): the same candidates, or the same failure of the whole aggregation
            if kind == 'mongo' and k == 'KR' and all(isinstance(getattr(inq, f), str) for f in ('action', 'subject', 'resource')):
                try:
                    mlines.append('MFIND %s %s %s %d %s' % (
                        proto.enc_value(inq.action), proto.enc_value(inq.subject), proto.enc_value(inq.resource), len(objs),
                        ' '.join(polcase.pol_line(p, o) for p, o in zip(case['policies'], objs))))
                    mmeta.append((desc, None if cands is None else sorted(proto.enc_value(u) for u in cands), cerr))
                except proto.ProtoError:
                    pass
            # the SQL queries against their model (SqlQuery: LIKE modelled exactly; the regex-operator query over the
            # child rows): the same candidates
            if ((kind == 'sqlite' and k == 'KF') or (kind == 'sqlite-regex' and k == 'KR')) and cands is not None and \
                    all(isinstance(getattr(inq, f), str) for f in ('action', 'subject', 'resource')):
                try:
                    mlines.append('SQLFIND %s %s %s %s %d %s' % (
                        'fuzzy' if k == 'KF' else 'regex',
                        proto.enc_value(inq.action), proto.enc_value(inq.subject), proto.enc_value(inq.resource), len(objs),
                        ' '.join(polcase.pol_line(p, o) for p, o in zip(case['policies'], objs))))
                    mmeta.append((dict(desc, query='sql-' + ('fuzzy' if k == 'KF' else 'regex')),
                                  sorted(proto.enc_value(u) for u in cands), None))
                except proto.ProtoError:
                    pass
            # model candidates for the policies as they are read back (SQL / Mongo: default tags)
            if cands is not None and k is not None:
                mb = model_backend(kind, k)
                for p, o in zip(case['policies'], objs):
                    try:
                        lines.append('CAND %s %s %s %s' % (mb, k, polcase.pol_line(p, o), proto.enc_inquiry_obj(inq)))
                        meta.append((desc, o.uid, o.uid in cands, kind))
                    except proto.ProtoError:
                        pass
        if len(match_uids) >= 1:
            out.nontriv(repr(desc0))
            if len(out.samples) < 3 and k in ('KX', 'KF') and len(objs) >= 2:
                out.samples.append({'checker': k, 'inquiry': repr(case['inquiry'])[:200], 'matching': match_uids,
                                    'memory_decision': ref_dec, 'n_policies': len(objs)})
    model = ctx.driver.run(lines) if ctx.driver else []
    for line, (desc, uid, incand, kind), m in zip(lines, meta, model):
        if m == 'bad-op':
            raise Broken('driver rejected: %s' % line[:300])
        out.traces += 1
        want = m == 'ok T'
        base = kind.split(':')[-1]
        # the model is a lower bound for SQL LIKE (extra candidates are harmless) and exact for the rest
        lower_bound_only = base.startswith('sqlite') and desc['checker'] == 'KF'
        if base == 'sqlite-regex' and desc['checker'] == 'KR':
            continue                              # the regex-operator branch is judged by the direct oracle only
        if base == 'mongo' and desc['checker'] == 'KR':
            continue
        if (want and not incand) or (incand and not want and not lower_bound_only):
            f = Failure('disagreement', dict(desc, policy_uid=uid), {'is_candidate': incand}, m,
                        'candidate selection of %s differs from the model predicate' % kind, 'Vakt.C07.candidate_sound',
                        line=line)
            f.signature = 'model:' + base
            f.weak = True      # which non-matching policies a storage offers is not prescribed (C07: superset + same decision)
            out.failures.append(f)
    mres = ctx.driver.run(mlines) if ctx.driver else []
    for line, (desc, cands, cerr), m in zip(mlines, mmeta, mres):
        if m == 'bad-op':
            raise Broken('driver rejected: %s' % line[:300])
        sqlq = desc.get('query')
        out.count((sqlq or 'mongo42-regex') + '-query:' + m.split(' ')[0])
        if m == 'unmodelled':
            out.unmodelled += 1
            continue
        out.traces += 1
        if m == 'fails':
            ok = cerr == 'OperationFailure'
        else:
            toks = m.split(' ')[2:]
            ok = cands is not None and sorted(toks) == cands
        if not ok:
            if sqlq:
                f = Failure('disagreement', desc, {'candidates': cands}, m,
                            'the %s query of SQLStorage (SQLite) returns other candidates than the model of the query over '
                            'the stored rows' % sqlq, 'Vakt.C07.sql_fuzzy_decision_eq / sql_regex_decision_eq (SqlQuery.find)',
                            line=line)
                f.signature = 'model:' + sqlq
            else:
                f = Failure('disagreement', desc, {'candidates': cands, 'error': cerr}, m,
                            'the MongoDB >= 4.2 regex aggregation (fake server) differs from the model of the query over the '
                            'stored compiled texts', 'Vakt.C07.mongo42_regex_decision_eq (MongoRegex.find)', line=line)
                f.signature = 'model:mongo42-regex'
            f.weak = True      # which non-matching policies the aggregation offers is not prescribed
            out.failures.append(f)
    _like_stream(ctx, out, rng)
    out.rule = ('the same generated policy set (string- / rule-based / mixed stores, tag-enclosed and case-varied and '
                'wildcard-bearing elements aimed at the inquiry) added to Memory and to %d other backends/wrappers; inquiry '
                'values with %%, _, backslashes, regex metacharacters, tags, mixed case, quotes, non-ASCII; the four '
                'checkers and no checker; per backend: matching subset-of candidates subset-of stored (by uid), '
                'Guard.is_allowed equal to the in-memory answer, candidate membership compared with the model predicate; '
                'non-trivial = >=1 matching policy' % len(BACKENDS))
    out.rule += '; in a fifth of the cases every third policy is first stored as a policy of the other kind and then updated; in two fifths of the cases with a second inquiry the search is requested, another search is made and consumed, and only then are the first candidates consumed (lazy cursors); in half of those cases a search for the second inquiry is made on the same storage object at the moment a field of the first inquiry is read'
    return out


def _like_stream(ctx, out, rng):
    """SQLite's LIKE against the model of LIKE (SqlQuery.like with SQLite's ASCII-case-insensitive comparison and no
    escape character): patterns '%value%' as the fuzzy query builds them, values with %, _ and backslashes, elements
    that contain the value, a case variant of it, a one-point mutation of it, or something else"""
    import sqlite3
    con = sqlite3.connect(':memory:')
    n = ctx.budget(400, 8000)
    lines, meta = [], []
    alphabet = ['a', 'b', 'A', 'B', '%', '_', '\\', 'x', 'é', 'É', 'ß', '中', ' ', "'", '<', '>', '.']
    for _ in range(n):
        v = ''.join(pick(rng, alphabet) for _ in range(rng.randint(0, 4))) if rng.random() < 0.7 else pick(rng, TRICKY)
        r = rng.random()
        if r < 0.35:
            e = ''.join(pick(rng, alphabet) for _ in range(rng.randint(0, 2))) + v + \
                ''.join(pick(rng, alphabet) for _ in range(rng.randint(0, 2)))
        elif r < 0.5:
            e = 'p' + v.swapcase() + 's'
        elif r < 0.75:
            e = mutate_str(rng, 'q' + v + 'r')
        else:
            e = ''.join(pick(rng, alphabet) for _ in range(rng.randint(0, 6)))
        pat = '%{}%'.format(v)
        got = con.execute('SELECT ? LIKE ?', (e, pat)).fetchone()[0]
        lines.append('LIKE %s %s' % (proto.enc_str(pat), proto.enc_str(e)))
        meta.append((v, e, bool(got)))
    res = ctx.driver.run(lines) if ctx.driver else []
    for line, (v, e, got), m in zip(lines, meta, res):
        if m == 'bad-op':
            raise Broken('driver rejected: %s' % line[:200])
        out.evaluations += 1
        out.traces += 1
        out.count('like:' + ('match' if got else 'no-match') + (':substring' if v in e else ''))
        if (m == 'ok T') != got:
            f = Failure('disagreement', {'value': v, 'element': e}, got, m,
                        "SQLite's LIKE and the model of LIKE disagree on element LIKE '%value%'",
                        'Vakt.C07.like_infix (SqlQuery.like)', line=line)
            f.signature = 'model:like'
            f.weak = True          # the LIKE of the database engine is not vakt's code: the model of it is what broke
            out.failures.append(f)
        if v in e and not got:
            f = Failure('oracle', {'value': v, 'element': e}, got, None,
                        "SQLite's LIKE '%value%' does not find an element that contains the value", 'Vakt.C07.like_infix')
            f.signature = 'like-incomplete'
            out.failures.append(f)
    con.close()


def _has_invalid_literal(objs):
    for o in objs:
        for f in ('subjects', 'resources', 'actions'):
            for e in getattr(o, f):
                if isinstance(e, str) and not ('<' in e and '>' in e):
                    try:
                        re.compile(e)
                    except re.error:
                        return True
    return False


def replay(ctx, rp):
    c = rp['case']
    case = {'k': c['checker'] or 'KX', 'policies': [eval(p) for p in c['policies']], 'inquiry': eval(c['inquiry'])}
    objs, inq = polcase.build_case(case)
    k = c['checker']
    st = load(c['backend'], objs)
    ref = stores.make('memory')
    for o in objs:
        ref.add(o)
    try:
        cands = sorted(p.uid for p in st.find_for_inquiry(inq, polcase.make_checker(k) if k else None))
    except Exception as e:
        cands = 'raised %s' % type(e).__name__
    dec = Guard(st, polcase.make_checker(k)).is_allowed(inq) if k else None
    rdec = Guard(ref, polcase.make_checker(k)).is_allowed(inq) if k else None
    return {'candidates': cands, 'decision': dec, 'memory_decision': rdec, 'still_fails': dec is not rdec}
