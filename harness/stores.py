"""Factories for every storage backend and wrapper the properties range over."""
import os
import sqlite3
import tempfile

from sqlalchemy import create_engine, event
from sqlalchemy.orm import sessionmaker, scoped_session
from sqlalchemy.pool import StaticPool

from vakt.storage.memory import MemoryStorage
from vakt.storage.sql import SQLStorage
from vakt.storage.sql.model import Base
from vakt.storage.redis import RedisStorage, JSONSerializer, PickleSerializer
from vakt.storage.mongo import MongoStorage
from vakt.storage.observable import ObservableMutationStorage
from vakt.cache import EnfoldCache

from fakes.redis_client import FakeRedis
from fakes.mongo_client import FakeMongoClient

import re as _re

BASE_KINDS = ['memory', 'sqlite', 'redis-json', 'redis-pickle', 'mongo']


def _regexp(pattern, value):
    if pattern is None or value is None:
        return None
    return 1 if _re.search(pattern, value) is not None else 0


# SQLite enforces foreign keys (and their ON DELETE CASCADE) only on connections that ask for it; a plain connection - what a program
# gets from create_engine('sqlite://...') - does not.  Storages are made with enforcement on unless this is switched off.
SQLITE_FOREIGN_KEYS = True


def make_engine(url='sqlite://', regexp=False):
    kw = {}
    fk = SQLITE_FOREIGN_KEYS
    if url == 'sqlite://':
        kw = {'poolclass': StaticPool, 'connect_args': {'check_same_thread': False}}
    engine = create_engine(url, **kw)

    @event.listens_for(engine, 'connect')
    def _on_connect(dbapi_con, _rec):
        if fk:
            dbapi_con.execute('PRAGMA foreign_keys=ON')
        if regexp:
            dbapi_con.create_function('regexp', 2, _regexp)     # X REGEXP Y  ==  regexp(Y, X): (pattern, value)
    return engine


def make_sql(url='sqlite://', regexp_dialect=None):
    """SQLStorage on SQLite; with regexp_dialect='mysql' the regex-capable branch is exercised through a
    registered REGEXP function (X REGEXP Y calls regexp(Y, X))"""
    engine = make_engine(url, regexp=regexp_dialect is not None)
    Base.metadata.create_all(engine)
    st = SQLStorage(scoped_session(sessionmaker(bind=engine)))
    if regexp_dialect:
        st.dialect = regexp_dialect
    st._engine = engine
    return st


def make_base(kind, **kw):
    if kind == 'memory':
        return MemoryStorage()
    if kind == 'sqlite':
        return make_sql()
    if kind == 'sqlite-regex':
        return make_sql(regexp_dialect='mysql')
    if kind == 'redis-json':
        return RedisStorage(FakeRedis(), serializer=JSONSerializer())
    if kind == 'redis-pickle':
        return RedisStorage(FakeRedis())
    if kind == 'mongo':
        return MongoStorage(FakeMongoClient(kw.get('version', '4.4.0')), 'db')
    if kind == 'mongo40':
        return MongoStorage(FakeMongoClient('4.0.0'), 'db')
    if kind == 'mongo419':
        return MongoStorage(FakeMongoClient('4.1.9'), 'db')     # the last release without $regexMatch
    raise ValueError(kind)


def make(kind):
    """'memory' | 'sqlite' | ... | 'enfold:<base>' | 'observable:<base>'"""
    if kind.startswith('enfold:'):
        base = make_base(kind.split(':', 1)[1])
        return EnfoldCache(base, cache=MemoryStorage())
    if kind.startswith('observable:'):
        return ObservableMutationStorage(make_base(kind.split(':', 1)[1]))
    return make_base(kind)
