"""Target-first generators over the model universe.

Every generator takes a `random.Random`; the observer (value / inquiry) is drawn first and the
subject (rule, element, policy) is then built to match it with probability about one half per
dimension, followed by one-point mutations.
"""
import string as _string

WORDS = ['a', 'b', 'ab', 'abc', 'Admin', 'admin', 'ADMIN', 'read', 'write', 'Read', 'x', 'xy', 'user:1', 'éa', 'Éa',
         'д', 'Д', 'ß', 'α', 'Α', '中文', 'İx', 'i̇x', 'ıx', 'Ix', 'ix', 'İstanbul', 'i̇stanbul', 'aİ', 'straße', 'STRASSE', 'xİ', '٣', '3', '', ' ', 'a b', 'a.b', 'a*b', 'a+',
         '%', '_', 'a%', 'x_y', 'line\n', 'tab\t', 'books', 'book', 'get', 'GET', '10.0.0.1', '10.0.0.0/8']
NON_NFC = ['Zoe\u0308', 'e\u0301', '\u2126', 'A\u030a', 'cafe\u0301']          # not NFC-normalised: combining marks, the OHM SIGN
CHARS = list('abcABCxyz019 .*+?|()[]{}\\^$<>%_-/:,') + ['\n', 'é', 'É', 'д', 'Д', 'ß', 'α', 'Α', '中', 'İ', 'ı', '٣']
KEYS = ['name', 'role', 'id', 'ip', 'k', 'K', 'stars', 'méthode', '']


def pick(rng, xs):
    return xs[rng.randrange(len(xs))]


def gen_str(rng, maxlen=6):
    r = rng.random()
    if r < 0.55:
        return pick(rng, WORDS)
    n = rng.randint(0, maxlen)
    return ''.join(pick(rng, CHARS) for _ in range(n))


def mutate_str(rng, s):
    """one-point mutation of a string"""
    ops = ['case', 'drop', 'add', 'sub', 'nl', 'dup', 'nlmid']
    op = pick(rng, ops)
    if op == 'nlmid' and s:
        # a line break in place of one character / between two characters (where a `.` of a pattern would have to match it)
        i = rng.randrange(len(s))
        return s[:i] + '\n' + s[i + (1 if rng.random() < 0.6 else 0):]
    if op == 'case' and s:
        t = s.swapcase()
        if t != s:
            return t
    if op == 'drop' and s:
        i = rng.randrange(len(s))
        return s[:i] + s[i + 1:]
    if op == 'sub' and s:
        i = rng.randrange(len(s))
        return s[:i] + pick(rng, CHARS) + s[i + 1:]
    if op == 'nl':
        return s + '\n'
    if op == 'dup' and s:
        return s + s[-1]
    i = rng.randint(0, len(s))
    return s[:i] + pick(rng, CHARS) + s[i:]


def gen_num(rng):
    r = rng.random()
    if r < 0.5:
        return rng.randint(-3, 12)
    if r < 0.6:
        return pick(rng, [0, 1, 100, -1, 2 ** 40, 555])
    if r < 0.8:
        return rng.randint(-8, 40) / 4.0
    if r < 0.9:
        return pick(rng, [0.0, 1.0, -0.0, 0.5, 100.0, 2.5])
    return pick(rng, [True, False])


def gen_atom(rng):
    r = rng.random()
    if r < 0.4:
        return gen_str(rng)
    if r < 0.8:
        return gen_num(rng)
    if r < 0.9:
        return None
    return pick(rng, [True, False])


def gen_value(rng, depth=2):
    r = rng.random()
    if depth <= 0 or r < 0.55:
        return gen_atom(rng)
    if r < 0.75:
        return [gen_value(rng, depth - 1) for _ in range(rng.randint(0, 3))]
    if r < 0.85:
        return tuple(gen_value(rng, depth - 1) for _ in range(rng.randint(0, 3)))
    ks = rng.sample(KEYS, rng.randint(0, 3))
    return {k: gen_value(rng, depth - 1) for k in ks}


def gen_hashable(rng, depth=1):
    r = rng.random()
    if depth <= 0 or r < 0.85:
        return gen_atom(rng)
    return tuple(gen_hashable(rng, depth - 1) for _ in range(rng.randint(0, 2)))


def mutate_value(rng, v):
    """a value near `v` (often of the same type, sometimes equal under the numeric tower)"""
    if isinstance(v, bool):
        return pick(rng, [not v, int(v), float(v), None])
    if isinstance(v, int):
        return pick(rng, [v + 1, v - 1, float(v), str(v), v + 0.5, bool(v) if v in (0, 1) else -v])
    if isinstance(v, float):
        return pick(rng, [v + 0.25, v - 1.0, int(v), str(v)])
    if isinstance(v, str):
        return mutate_str(rng, v)
    if isinstance(v, list):
        c = pick(rng, ['tuple', 'drop', 'add', 'mut', 'rev'])
        if c == 'tuple':
            return tuple(v)
        if c == 'drop' and v:
            return v[:-1]
        if c == 'mut' and v:
            i = rng.randrange(len(v))
            return v[:i] + [mutate_value(rng, v[i])] + v[i + 1:]
        if c == 'rev' and len(v) > 1:
            return list(reversed(v))
        return v + [gen_atom(rng)]
    if isinstance(v, tuple):
        c = pick(rng, ['list', 'drop', 'add'])
        if c == 'list':
            return list(v)
        if c == 'drop' and v:
            return v[:-1]
        return v + (gen_atom(rng),)
    if isinstance(v, dict):
        d = dict(v)
        c = pick(rng, ['drop', 'add', 'mut', 'perm'])
        if c == 'drop' and d:
            d.pop(pick(rng, list(d)))
            return d
        if c == 'mut' and d:
            k = pick(rng, list(d))
            d[k] = mutate_value(rng, d[k])
            return d
        if c == 'perm' and len(d) > 1:
            items = list(d.items())
            rng.shuffle(items)
            return dict(items)
        d[pick(rng, KEYS)] = gen_atom(rng)
        return d
    return gen_atom(rng)


# ------------------------------------------------------------------ IPv4 / CIDR

IP6 = ['::', '::1', '1::', '1:2:3:4:5:6:7:8', '1:2:3:4:5:6:7::', '::2:3:4:5:6:7:8', '1::8', '::ffff:1.2.3.4',
       '1:2:3:4:5:6:1.2.3.4', 'fe80::1%eth0', 'fe80::1%', '1:2:3:4:5:6:7:8:9', '1::2::3', ':1:2:3:4:5:6:7', '1:2:3:4:5:6:7:',
       ':::', '12345::', 'g::', '::1.2.3', '1.2.3.4::', '0001::', '::00001', '1:2:3:4:5:6:7::8', ' ::1', '::1 ', '::FFFF',
       '1::1.2.3.4', '2001:db8::1', '2001:db8:0:0:1::', 'fe80::a%1%2', '::ffff:10.0.0.1', '::/0', 'FE80::Abc', '::1.2.3.256',
       '1:2:3:4:5:6:7', '1:2:3:4:5:6::1.2.3.4', '1:2:3:4:5::1.2.3.4']


def gen_ip6(rng):
    if rng.random() < 0.5:
        return pick(rng, IP6)
    groups = ['%x' % pick(rng, [0, 1, 0xfe80, 0x2001, 0xdb8, 0xffff, rng.randint(0, 0xffff)]) for _ in range(8)]
    r = rng.random()
    if r < 0.5:
        i = rng.randint(0, 7)
        j = rng.randint(i + 1, 8)
        return ':'.join(groups[:i]) + '::' + ':'.join(groups[j:])
    if r < 0.6:
        return ':'.join(groups[:6]) + ':%d.%d.%d.%d' % tuple(rng.randint(0, 255) for _ in range(4))
    return ':'.join(groups)


def net6_of(ip, prefix):
    import ipaddress
    try:
        return str(ipaddress.ip_network((int(ipaddress.IPv6Address(ip.split('%')[0])) >> (128 - prefix) << (128 - prefix), prefix)))
    except Exception:
        return ip + '/%d' % prefix


def gen_ip(rng):
    r = rng.random()
    if r < 0.18:
        return gen_ip6(rng)
    if r < 0.7:
        return '%d.%d.%d.%d' % (pick(rng, [10, 192, 127, 0, 255, 172]), rng.randint(0, 255), pick(rng, [0, 1, 168, 255]),
                                rng.randint(0, 255))
    return pick(rng, ['10.0.0.1', '192.168.1.10', '127.0.0.1', '0.0.0.0', '255.255.255.255', '10.0.0.256', '10.0.0',
                      '10.0.0.0.1', '010.0.0.1', '10.0.0.01', '1.2.3.4 ', ' 1.2.3.4', '', 'localhost', '1.2.3.-4',
                      '1.2.3.4/32', '١.2.3.4', '1.2.3.0004', '00.0.0.0', '0.0.0.00'])


def net_of(ip, prefix):
    parts = [int(x) for x in ip.split('.')]
    n = ((parts[0] * 256 + parts[1]) * 256 + parts[2]) * 256 + parts[3]
    n = (n >> (32 - prefix)) << (32 - prefix) if prefix < 32 else n
    if prefix == 0:
        n = 0
    return '%d.%d.%d.%d/%d' % ((n >> 24) & 255, (n >> 16) & 255, (n >> 8) & 255, n & 255, prefix)


def valid_ip(ip):
    ps = ip.split('.')
    return len(ps) == 4 and all(p.isascii() and p.isdigit() and len(p) <= 3 and (p == '0' or p[0] != '0') and
                                int(p) <= 255 for p in ps)


def gen_cidr_for(rng, ip):
    """a network argument aimed at `ip`: containing it, just missing it, with host bits, malformed"""
    r = rng.random()
    if ':' in ip:
        if r < 0.5:
            return net6_of(ip, pick(rng, [0, 1, 10, 16, 32, 48, 64, 96, 112, 127, 128]))
        if r < 0.6:
            return ip + '/' + str(pick(rng, [0, 16, 64, 128, 129]))
        return pick(rng, ['::/0', '::1/128', 'fe80::/10', 'fe80::1/64', '2001:db8::/32', '::/129', '1::/-1', 'fe80::%1/64', '::/ 1',
                          '::/01', '::/ffff::', '::ffff:0:0/96', '10.0.0.0/8', '0.0.0.0/0', '::', ip])
    if valid_ip(ip) and r < 0.08:
        # netmask / hostmask spellings of the prefix
        pfx = pick(rng, [0, 8, 16, 24, 31, 32])
        mask = (0xffffffff >> (32 - pfx) << (32 - pfx)) if pfx else 0
        if rng.random() < 0.3:
            mask ^= 0xffffffff
        return net_of(ip, pfx).split('/')[0] + '/%d.%d.%d.%d' % ((mask >> 24) & 255, (mask >> 16) & 255, (mask >> 8) & 255, mask & 255)
    if valid_ip(ip) and r < 0.45:
        return net_of(ip, pick(rng, [0, 1, 7, 8, 9, 16, 23, 24, 25, 30, 31, 32]))
    if valid_ip(ip) and r < 0.6:
        other = '%d.%d.%d.%d' % tuple((int(x) ^ pick(rng, [0, 1, 128, 255])) & 255 for x in ip.split('.'))
        return net_of(other, pick(rng, [8, 16, 24, 31, 32]))
    if valid_ip(ip) and r < 0.7:
        return ip + '/' + str(pick(rng, [8, 16, 24, 31]))            # host bits probably set
    if valid_ip(ip) and r < 0.75:
        return ip
    return pick(rng, ['10.0.0.0/8', '192.168.0.0/16', '0.0.0.0/0', '10.0.0.0/33', '10.0.0.0/', '10.0.0.0/-1',
                      '10.0.0.0/8/8', '10.0.0.0/08', '10.0.0.0/032', '10.0.0/8', 'x', '', '10.0.0.0/٨',
                      '127.0.0.1/32', '127.0.0.0/31', '10.1.0.0/8', '256.0.0.0/8', '10.0.0.0 /8', '10.0.0.0/ 8',
                      '10.0.0.0/255.0.0.0', '10.0.0.0/0.255.255.255', '10.0.0.0/255.0.255.0', '10.0.0.1/255.0.0.0',
                      '0.0.0.0/0.0.0.0', '10.0.0.0/255.255.255.255', '::/0', '::ffff:0:0/96'])


# ------------------------------------------------------------------ regex patterns (modelled subset)

def regex_for(rng, s, depth=2):
    """a pattern in the modelled subset that matches `s` (or nearly does)"""
    import re
    if not s:
        return pick(rng, ['', 'a*', '(a|b)*', 'x?', '()', '.*'])
    out = []
    for ch in s:
        r = rng.random()
        if r < 0.5:
            out.append(re.escape(ch))
        elif r < 0.6:
            out.append('.')
        elif r < 0.7:
            out.append('[%s]' % (re.escape(ch) + pick(rng, ['', 'a-c', '0-9', 'x'])) if ch not in '^]-\\' else re.escape(ch))
        elif r < 0.78:
            out.append(r'\w' if rng.random() < 0.5 else r'\d')
        elif r < 0.84:
            out.append('(%s|%s)' % (re.escape(ch), pick(rng, ['a', 'zz', ''])))
        elif r < 0.9:
            out.append(re.escape(ch) + pick(rng, ['*', '+', '?', '{1}', '{0,2}', '{1,}', '*?', '+?']))
        elif r < 0.95:
            out.append(r'[^%s]' % pick(rng, ['a', 'x0-9', r'\s']))
        else:
            out.append(r'\s' if ch.isspace() else r'\S')
    p = ''.join(out)
    r = rng.random()
    if r < 0.1:
        p = p + '$'
    elif r < 0.15:
        p = '^' + p
    elif r < 0.2 and len(out) > 1:
        k = rng.randrange(1, len(out))
        p = ''.join(out[:k])          # a proper prefix: matches as re.match
    elif r < 0.25:
        p = p + pick(rng, ['x', '.', 'a+'])
    return p


MALFORMED_PATTERNS = ['(', ')', '*a', 'a**', '[a', 'a{2,1}', '(?P<n>a)', 'a\\', '(?=a)', '\\1', '^a$b', 'a$b', '[]a]',
                      '[z-a]', '(?i)a', 'a{', '{', '+']
