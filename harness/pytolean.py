"""Translate the `satisfied` methods of vakt's built-in rules into Lean (lean/Gen/Rules.lean).

A small, purely syntactic Python -> Lean translator for the fragment those bodies are written in.  Every construct is
mapped to one primitive of lean/Model/PyPrim.lean (cmpEq, cmpLt, cmpIn, pyNot, pyAnd / pyOr, iteM, isinstanceM, callList,
callSet, callBool, methLower, methIssubset, ...); statements are translated in continuation style (an `if` carries the
rest of the block into both branches, an assignment binds a name for the rest, `return` ends the block, `raise` is an
exception).  `self.<attr>` becomes a parameter `self_<attr>`, a property that returns a constant is inlined, module-level
helper functions consisting of one `return` are inlined at the call site.  Calls to the logger are dropped.

A class whose body uses anything else (loops, comprehensions, calls on other rule objects, `re`, `ipaddress`) is listed
in `untranslated` with the reason; those rules are tied to the model by the correspondence run only.

The file is written only when its text changes.  lean/Gen/Equiv.lean states, for every translated rule, that the
generated definition is the hand-written model's `Rule.eval` for that rule: a change to a rule body changes the
generated definition and the theorem no longer checks.
"""
import ast
import json
import os
import sys

MODULES = ['operator', 'list', 'logic', 'string', 'inquiry', 'net']
CHECKER_HELPERS = {'RulesChecker': ['_check_satisfied']}
CHECKER_CLASSES = ['StringExactChecker', 'StringFuzzyChecker', 'RegexChecker', 'RulesChecker']

CMP = {ast.Eq: 'cmpEq', ast.NotEq: 'cmpNe', ast.Lt: 'cmpLt', ast.LtE: 'cmpLe', ast.Gt: 'cmpGt', ast.GtE: 'cmpGe',
       ast.In: 'cmpIn', ast.NotIn: 'cmpNotIn'}
CALLS = {'list': 'callList', 'set': 'callSet', 'bool': 'callBool', 'callable': 'callCallable', 'len': 'callLen',
         'all': 'callAll', 'any': 'callAny'}
METHODS = {'lower': ('methLower', 0), 'startswith': ('methStartswith', 1), 'endswith': ('methEndswith', 1),
           'issubset': ('methIssubset', 1), 'intersection': ('methIntersection', 1), 'difference': ('methDifference', 1)}


class Untranslatable(Exception):
    pass


def is_log_call(node):
    return isinstance(node, ast.Expr) and isinstance(node.value, ast.Call) and \
        isinstance(node.value.func, ast.Attribute) and isinstance(node.value.func.value, ast.Name) and \
        node.value.func.value.id in ('log', 'logging', 'warnings', 'audit_log')


class Translator:
    def __init__(self, module_ast):
        self.classes = {n.name: n for n in module_ast.body if isinstance(n, ast.ClassDef)}
        self.helpers = {n.name: n for n in module_ast.body if isinstance(n, ast.FunctionDef)}
        self.module_ints = {n.targets[0].id: n.value.value for n in module_ast.body
                            if isinstance(n, ast.Assign) and len(n.targets) == 1 and isinstance(n.targets[0], ast.Name)
                            and isinstance(n.value, ast.Constant) and type(n.value.value) is int}
        self.emitted = {}        # method name -> self attributes it reads (methods translated into definitions of their own)

    # ---- class structure
    def method(self, cname, mname, seen=()):
        """the function `mname` of class `cname`, following base classes defined in the same module"""
        c = self.classes.get(cname)
        if c is None or cname in seen:
            return None
        for n in c.body:
            if isinstance(n, ast.FunctionDef) and n.name == mname:
                return n
        for b in c.bases:
            if isinstance(b, ast.Name):
                m = self.method(b.id, mname, seen + (cname,))
                if m is not None:
                    return m
        return None

    def const_property(self, cname, attr):
        """the constant a property `attr` of the class returns, as a Lean term (or None)"""
        f = self.method(cname, attr)
        if f is None or not any(isinstance(d, ast.Name) and d.id == 'property' for d in f.decorator_list):
            return None
        body = [s for s in f.body if not (isinstance(s, ast.Expr) and isinstance(s.value, ast.Constant))]
        if len(body) == 1 and isinstance(body[0], ast.Return) and isinstance(body[0].value, ast.Constant):
            return self.constant(body[0].value.value)
        return None

    def class_string_list(self, cname, attr):
        """a class attribute assigned a list of string constants, as a Lean term (or None)"""
        c = self.classes.get(cname)
        if c is None:
            return None
        for n in c.body:
            if isinstance(n, ast.Assign) and len(n.targets) == 1 and isinstance(n.targets[0], ast.Name) and \
                    n.targets[0].id == attr and isinstance(n.value, ast.List) and \
                    all(isinstance(x, ast.Constant) and isinstance(x.value, str) for x in n.value.elts):
                return '(cStrList [%s])' % ', '.join('"%s"' % x.value for x in n.value.elts)
        return None

    def const_method(self, cname, mname):
        """the constant a plain method without arguments returns (`def _field_name(self): return 'subject'`), or None"""
        f = self.method_most_derived(cname, mname)
        if f is None or len(f.args.args) != 1:
            return None
        body = [s for s in f.body if not (isinstance(s, ast.Expr) and isinstance(s.value, ast.Constant))]
        if len(body) == 1 and isinstance(body[0], ast.Return) and isinstance(body[0].value, ast.Constant):
            return body[0].value.value
        return None

    def method_most_derived(self, cname, mname):
        return self.method(cname, mname)

    # ---- expressions
    def constant(self, v):
        if v is True:
            return 'cTrue'
        if v is False:
            return 'cFalse'
        if v is None:
            return 'cNone'
        if isinstance(v, int):
            return '(cInt (%d))' % v
        if isinstance(v, str) and all(32 <= ord(c) < 127 and c not in '"\\' for c in v):
            return '(cStr "%s")' % v
        raise Untranslatable('constant %r' % (v,))

    def expr(self, e, env, cname):
        if isinstance(e, ast.Constant):
            return self.constant(e.value)
        if getattr(self, 'effect_mode', None) == 'acache':
            if isinstance(e, ast.Attribute) and isinstance(e.value, ast.Name) and e.value.id in env:
                return '(objAttrM %s "%s")' % (env[e.value.id], e.attr)          # self.<name> / guard.<name>
            if isinstance(e, ast.Call) and isinstance(e.func, ast.Name) and e.func.id == 'LRUCache' and not e.args and \
                    [k.arg for k in e.keywords] == ['maxsize']:
                return '(lruNewM %s)' % self.expr(e.keywords[0].value, env, cname)
            if isinstance(e, ast.Call) and isinstance(e.func, ast.Attribute) and e.func.attr == 'wrap' and len(e.args) == 1 and \
                    not e.keywords:
                return '(wrapM %s %s)' % (self.expr(e.func.value, env, cname), self.expr(e.args[0], env, cname))
        if getattr(self, 'effect_mode', None) == 'subject' and isinstance(e, ast.Attribute) and e.attr == '_listeners' and \
                isinstance(e.value, ast.Name) and e.value.id == 'self':
            return '(listenersM %s)' % env['__w']
        if isinstance(e, ast.Name):
            if e.id in env:
                return env[e.id]
            if e.id in self.module_ints:
                return '(cInt (%d))' % self.module_ints[e.id]
            if e.id in ('ALLOW_ACCESS', 'DENY_ACCESS'):
                return 'cAllowConst' if e.id == 'ALLOW_ACCESS' else 'cDenyConst'     # (values: Generated.lean)
            raise Untranslatable('free name %s' % e.id)
        if isinstance(e, ast.Tuple) and not e.elts:
            return 'cEmptyTuple'
        if '__w' in env and isinstance(e, ast.Attribute) and e.attr == 'order' and isinstance(e.value, ast.Name) and \
                e.value.id in env:
            return '(orderM %s)' % env[e.value.id]
        if isinstance(e, ast.Attribute) and isinstance(e.value, ast.Name) and e.value.id == 'self':
            c = self.const_property(cname, e.attr)
            if c is not None:
                return c
            c = self.class_string_list(cname, e.attr)
            if c is not None:
                return c
            self.attrs.add(e.attr)
            return '(pure self_%s)' % e.attr
        if isinstance(e, ast.Compare) and len(e.ops) == 1 and isinstance(e.ops[0], (ast.Is, ast.IsNot)) and \
                isinstance(e.comparators[0], ast.Constant) and e.comparators[0].value is None:
            return '(%s %s)' % ('isNoneM' if isinstance(e.ops[0], ast.Is) else 'isNotNoneM', self.expr(e.left, env, cname))
        if isinstance(e, ast.Compare) and len(e.ops) == 1 and isinstance(e.ops[0], (ast.NotEq, ast.Eq)) and \
                isinstance(e.left, ast.Call) and isinstance(e.left.func, ast.Name) and e.left.func.id == 'type' and \
                len(e.left.args) == 1 and isinstance(e.comparators[0], ast.Name) and e.comparators[0].id == 'str':
            t = '(typeIsNotStrM %s)' % self.expr(e.left.args[0], env, cname)
            return t if isinstance(e.ops[0], ast.NotEq) else '(pyNot %s)' % t
        if isinstance(e, ast.BinOp) and isinstance(e.op, ast.Mod) and isinstance(e.left, ast.Constant) and \
                isinstance(e.left.value, str) and e.left.value.count('%') == 1 and \
                ('%s' in e.left.value or '%d' in e.left.value) and not isinstance(e.right, ast.Tuple):
            lit = e.left.value
            d = 's' if '%s' in lit else 'd'
            pre, post = lit.split('%' + d)
            return "(fmt1M %s %s '%s' %s)" % (json.dumps(pre), json.dumps(post), d, self.expr(e.right, env, cname))
        if isinstance(e, ast.Call) and isinstance(e.func, ast.Attribute) and e.func.attr == 'join' and \
                isinstance(e.func.value, ast.Constant) and isinstance(e.func.value.value, str) and len(e.args) == 1 and \
                not e.keywords:
            return '(joinM (cStr %s) %s)' % (json.dumps(e.func.value.value), self.expr(e.args[0], env, cname))
        if getattr(self, 'effect_mode', None) == 'parser':
            def is_call(n, mod, name):
                return isinstance(n, ast.Call) and isinstance(n.func, ast.Attribute) and n.func.attr == name and \
                    isinstance(n.func.value, ast.Name) and n.func.value.id == mod
            def fmt(n, lit, k):
                return isinstance(n, ast.BinOp) and isinstance(n.op, ast.Mod) and isinstance(n.left, ast.Constant) and \
                    n.left.value == lit and (isinstance(n.right, ast.Tuple) and len(n.right.elts) == k if k > 1
                                             else not isinstance(n.right, ast.Tuple))
            # pattern + '%s(%s)' % (re.escape(raw), part)
            if isinstance(e, ast.BinOp) and isinstance(e.op, ast.Add) and fmt(e.right, '%s(%s)', 2) and \
                    is_call(e.right.right.elts[0], 're', 'escape'):
                return '(ptGroupM %s (reEscapeM %s) %s)' % (self.expr(e.left, env, cname),
                                                             self.expr(e.right.right.elts[0].args[0], env, cname),
                                                             self.expr(e.right.right.elts[1], env, cname))
            # re.compile('^%s$' % part) / re.compile('^%s%s$' % (pattern, re.escape(raw)))
            if is_call(e, 're', 'compile') and len(e.args) == 1 and fmt(e.args[0], '^%s$', 1):
                return '(reCompileSegM %s)' % self.expr(e.args[0].right, env, cname)
            if is_call(e, 're', 'compile') and len(e.args) == 1 and fmt(e.args[0], '^%s%s$', 2) and \
                    is_call(e.args[0].right.elts[1], 're', 'escape'):
                return '(reCompileFullM %s (reEscapeM %s))' % (self.expr(e.args[0].right.elts[0], env, cname),
                                                               self.expr(e.args[0].right.elts[1].args[0], env, cname))
            if isinstance(e, ast.Subscript) and isinstance(e.slice, ast.Slice) and isinstance(e.value, ast.Name) and \
                    e.value.id in env:
                sl = e.slice
                if sl.lower is None and sl.upper is None and isinstance(sl.step, ast.Constant) and sl.step.value == 2:
                    return '(stepSlice2M %s)' % env[e.value.id]
                if sl.step is None and sl.lower is not None and sl.upper is not None:
                    return '(strSliceM %s %s %s)' % (env[e.value.id], self.expr(sl.lower, env, cname), self.expr(sl.upper, env, cname))
                if sl.step is None and sl.lower is not None and sl.upper is None:
                    return '(strSliceFromM %s %s)' % (env[e.value.id], self.expr(sl.lower, env, cname))
            if isinstance(e, ast.BinOp) and isinstance(e.op, ast.Mult):
                return '(mulM %s %s)' % (self.expr(e.left, env, cname), self.expr(e.right, env, cname))
            if isinstance(e, ast.BinOp) and isinstance(e.op, ast.FloorDiv):
                return '(floordivM %s %s)' % (self.expr(e.left, env, cname), self.expr(e.right, env, cname))
            if isinstance(e, ast.Call) and isinstance(e.func, ast.Name) and e.func.id in getattr(self, 'parser_emitted', ()) and \
                    not e.keywords:
                names, binds = [], []
                for a in e.args:
                    self.fresh += 1
                    names.append('a%d' % self.fresh)
                    binds.append(self.expr(a, env, cname))
                inner = '(%s %s)' % (e.func.id, ' '.join(names))
                for nm, val in reversed(list(zip(names, binds))):
                    inner = '(bindM %s fun %s => %s)' % (val, nm, inner)
                return inner
        if isinstance(e, ast.BinOp) and isinstance(e.op, (ast.Add, ast.Sub)):
            return '(%s %s %s)' % ('addM' if isinstance(e.op, ast.Add) else 'subM', self.expr(e.left, env, cname),
                                   self.expr(e.right, env, cname))
        if isinstance(e, ast.Compare) and len(e.ops) == 1 and isinstance(e.ops[0], (ast.NotEq, ast.Eq)) and \
                isinstance(e.left, ast.Call) and isinstance(e.left.func, ast.Name) and e.left.func.id == 'type' and \
                len(e.left.args) == 1 and isinstance(e.comparators[0], ast.Name) and e.comparators[0].id == 'dict':
            t = '(typeIsDictM %s)' % self.expr(e.left.args[0], env, cname)
            return t if isinstance(e.ops[0], ast.Eq) else '(pyNot %s)' % t
        if getattr(self, 'effect_mode', None) == 'store' and '__w' in env:
            def is_policies(n):
                return isinstance(n, ast.Attribute) and n.attr == 'policies' and isinstance(n.value, ast.Name) and n.value.id == 'self'
            if isinstance(e, ast.Compare) and len(e.ops) == 1 and isinstance(e.ops[0], (ast.In, ast.NotIn)) and \
                    is_policies(e.comparators[0]):
                t = '(dictInM %s %s)' % (self.expr(e.left, env, cname), env['__w'])
                return t if isinstance(e.ops[0], ast.In) else '(pyNot %s)' % t
            if isinstance(e, ast.Call) and isinstance(e.func, ast.Attribute) and is_policies(e.func.value) and not e.keywords:
                if e.func.attr == 'get' and len(e.args) == 1:
                    return '(dictGetM %s %s)' % (self.expr(e.args[0], env, cname), env['__w'])
                if e.func.attr == 'values' and not e.args:
                    return '(dictValuesM %s)' % env['__w']
            if isinstance(e, ast.Subscript) and isinstance(e.slice, ast.Slice) and e.slice.step is None and \
                    e.slice.lower is not None and e.slice.upper is not None:
                return '(sliceM %s %s %s)' % (self.expr(e.value, env, cname), self.expr(e.slice.lower, env, cname),
                                             self.expr(e.slice.upper, env, cname))
        if getattr(self, 'effect_mode', None) == 'eachdoc':
            if isinstance(e, ast.Call) and isinstance(e.func, ast.Name) and e.func.id in env and len(e.args) == 1 and \
                    not e.keywords:
                return '(procCallM %s %s)' % (env[e.func.id], self.expr(e.args[0], env, cname))      # processor(doc)
        if getattr(self, 'effect_mode', None) == 'sql':
            if isinstance(e, ast.Call) and isinstance(e.func, ast.Attribute) and e.func.attr == 'from_policy' and \
                    isinstance(e.func.value, ast.Name) and e.func.value.id == 'PolicyModel' and len(e.args) == 1:
                return '(fromPolicyM %s)' % self.expr(e.args[0], env, cname)
            if isinstance(e, ast.Call) and isinstance(e.func, ast.Attribute) and e.func.attr == 'to_policy' and not e.args and \
                    isinstance(e.func.value, ast.Name) and e.func.value.id in env:
                return '(toPolicyM %s)' % env[e.func.value.id]
        if getattr(self, 'effect_mode', None) == 'mongo':
            if isinstance(e, ast.Call) and isinstance(e.func, ast.Attribute) and e.func.attr == '__feed_policies' and \
                    isinstance(e.func.value, ast.Name) and e.func.value.id == 'self' and len(e.args) == 1:
                return '(bindM %s fun a_cur => feed_policies_MongoStorage a_cur)' % self.expr(e.args[0], env, cname)
            if isinstance(e, ast.Call) and isinstance(e.func, ast.Attribute) and isinstance(e.func.value, ast.Name) and \
                    e.func.value.id == 'self' and len(e.args) == 1 and not e.keywords and \
                    e.func.attr in ('__prepare_doc', '__prepare_from_doc'):
                return '(%s %s)' % ('prepareDocM' if e.func.attr == '__prepare_doc' else 'fromDocM',
                                    self.expr(e.args[0], env, cname))
        if getattr(self, 'effect_mode', None) == 'redis':
            if isinstance(e, ast.Call) and isinstance(e.func, ast.Attribute) and e.func.attr == 'items' and not e.args and \
                    isinstance(e.func.value, ast.Name) and e.func.value.id in env:
                return '(rhashItemsM %s)' % env[e.func.value.id]
            if isinstance(e, ast.Call) and isinstance(e.func, ast.Attribute) and e.func.attr == 'islice' and \
                    isinstance(e.func.value, ast.Name) and e.func.value.id == 'itertools' and len(e.args) == 3:
                return '(isliceM %s)' % ' '.join(self.expr(a, env, cname) for a in e.args)
            if isinstance(e, ast.Call) and isinstance(e.func, ast.Name) and e.func.id == 'dict' and len(e.args) == 1 and not e.keywords:
                return '(callDictM %s)' % self.expr(e.args[0], env, cname)
            if isinstance(e, ast.Subscript) and isinstance(e.value, ast.Name) and e.value.id in env and \
                    not isinstance(e.slice, ast.Slice):
                return '(rhashGetM %s %s)' % (env[e.value.id], self.expr(e.slice, env, cname))
            if isinstance(e, ast.Call) and isinstance(e.func, ast.Attribute) and e.func.attr == '__feed_policies' and \
                    isinstance(e.func.value, ast.Name) and e.func.value.id == 'self' and len(e.args) == 1:
                # the private generator translated next to this method; it only reads the world
                return ('(bindM %s fun a_data => bindM %s fun a_w => feed_policies_RedisStorage a_data a_w)'
                        % (self.expr(e.args[0], env, cname), env['__w']))
            if isinstance(e, ast.Call) and isinstance(e.func, ast.Attribute) and e.func.attr in ('serialize', 'deserialize') and \
                    isinstance(e.func.value, ast.Attribute) and e.func.value.attr == 'sr' and \
                    isinstance(e.func.value.value, ast.Name) and e.func.value.value.id == 'self' and len(e.args) == 1:
                return '(%sM %s %s)' % (e.func.attr, self.expr(e.args[0], env, cname), env['__w'])
        if getattr(self, 'effect_mode', None) == 'gen':
            if isinstance(e, ast.Call) and isinstance(e.func, ast.Attribute) and e.func.attr == 'get_all' and \
                    isinstance(e.func.value, ast.Name) and e.func.value.id == 'self' and len(e.args) == 2 and not e.keywords:
                # the abstract method of the subclass: whatever get_all the storage has
                return '(pagerGetAllM %s %s %s)' % (env['self'], self.expr(e.args[0], env, cname), self.expr(e.args[1], env, cname))
        if getattr(self, 'effect_mode', None) == 'audit':
            if isinstance(e, ast.Call) and isinstance(e.func, ast.Attribute) and e.func.attr == 'apm' and \
                    isinstance(e.func.value, ast.Name) and e.func.value.id == 'self' and len(e.args) == 1 and not e.keywords:
                # the message object built from a list of policies: what it names is that list (how it renders is C17's
                # last clause, modelled in Model/Audit.lean)
                return self.expr(e.args[0], env, cname)
            if isinstance(e, ast.List) and e.elts:
                return '(seqOfM [%s])' % ', '.join(self.expr(x, env, cname) for x in e.elts)
        if isinstance(e, ast.Dict) and not e.keys:
            return 'cEmptyDict'
        if isinstance(e, ast.List) and not e.elts:
            return 'cEmptyList'
        if isinstance(e, ast.Subscript) and isinstance(e.slice, ast.Slice):
            sl = e.slice
            if isinstance(sl.lower, ast.Constant) and sl.lower.value == 1 and isinstance(sl.upper, ast.UnaryOp) and \
                    isinstance(sl.upper.op, ast.USub) and isinstance(sl.upper.operand, ast.Constant) and \
                    sl.upper.operand.value == 1 and sl.step is None:
                return '(strSlice1m1M %s)' % self.expr(e.value, env, cname)
            raise Untranslatable('slice')
        if isinstance(e, ast.Subscript) and isinstance(e.slice, ast.UnaryOp) and isinstance(e.slice.op, ast.USub) and \
                isinstance(e.slice.operand, ast.Constant) and isinstance(e.slice.operand.value, int):
            return '(strIndexM %s (%d))' % (self.expr(e.value, env, cname), -e.slice.operand.value)
        if isinstance(e, ast.Subscript):
            return '(subscriptM %s %s)' % (self.expr(e.value, env, cname), self.expr(e.slice, env, cname))
        if isinstance(e, ast.Attribute) and isinstance(e.value, ast.Name) and e.value.id in env and e.value.id != 'self':
            prim = 'attrPolicyM' if e.attr in ('start_tag', 'end_tag') else 'attrM'
            return '(%s %s "%s")' % (prim, env[e.value.id], e.attr)
        if isinstance(e, ast.ListComp) and len(e.generators) == 1 and len(e.generators[0].ifs) == 1 and \
                isinstance(e.generators[0].target, ast.Name) and isinstance(e.elt, ast.Name) and \
                e.elt.id == e.generators[0].target.id:
            g = e.generators[0]
            self.fresh += 1
            name = 'c%d_%s' % (self.fresh, g.target.id)
            env2 = dict(env)
            env2[g.target.id] = '(pure %s)' % name
            return '(filterCompM %s fun %s => %s)' % (self.expr(g.iter, env, cname), name, self.expr(g.ifs[0], env2, cname))
        if isinstance(e, ast.ListComp) and len(e.generators) == 1 and not e.generators[0].ifs and \
                isinstance(e.generators[0].target, ast.Name):
            g = e.generators[0]
            self.fresh += 1
            name = 'c%d_%s' % (self.fresh, g.target.id)
            env2 = dict(env)
            env2[g.target.id] = '(pure %s)' % name
            return '(listCompM %s fun %s => %s)' % (self.expr(g.iter, env, cname), name, self.expr(e.elt, env2, cname))
        if isinstance(e, ast.Compare) and len(e.ops) == 1 and type(e.ops[0]) in CMP:
            return '(%s %s %s)' % (CMP[type(e.ops[0])], self.expr(e.left, env, cname), self.expr(e.comparators[0], env, cname))
        if isinstance(e, ast.UnaryOp) and isinstance(e.op, ast.Not):
            return '(pyNot %s)' % self.expr(e.operand, env, cname)
        if isinstance(e, ast.BoolOp):
            op = 'pyAnd' if isinstance(e.op, ast.And) else 'pyOr'
            out = self.expr(e.values[-1], env, cname)
            for v in reversed(e.values[:-1]):
                out = '(%s %s (fun _ => %s))' % (op, self.expr(v, env, cname), out)
            return out
        if isinstance(e, ast.IfExp):
            return '(iteM %s %s %s)' % (self.expr(e.test, env, cname), self.expr(e.body, env, cname), self.expr(e.orelse, env, cname))
        if '__w' in env and isinstance(e, ast.Call) and isinstance(e.func, ast.Attribute) and \
                isinstance(e.func.value, ast.Name) and e.func.value.id == 'self':
            if e.func.attr == 'last_applied' and not e.args and not e.keywords:
                return '(lastAppliedM %s)' % env['__w']
            if e.func.attr == '_get_migrations' and len(e.args) == 1 and len(e.keywords) == 1 and \
                    e.keywords[0].arg == 'reverse':
                # a call of the method translated next to this one (Gen/Migration.lean, `get_migrations_MigrationSet`)
                return ('(bindM %s fun a_self => bindM %s fun a_number => bindM %s fun a_reverse =>\n      '
                        'get_migrations_MigrationSet a_self a_number a_reverse)'
                        % (env['self'], self.expr(e.args[0], env, cname), self.expr(e.keywords[0].value, env, cname)))
            if e.func.attr == 'migrations' and not e.args and not e.keywords:
                return '(migrationsM %s)' % env['self']
        if '__w' in env and isinstance(e, ast.Call) and isinstance(e.func, ast.Name) and e.func.id == 'sorted' and \
                len(e.args) == 1 and sorted(k.arg for k in e.keywords) == ['key', 'reverse']:
            key = [k.value for k in e.keywords if k.arg == 'key'][0]
            rev = [k.value for k in e.keywords if k.arg == 'reverse'][0]
            if isinstance(key, ast.Lambda) and len(key.args.args) == 1 and isinstance(key.body, ast.Attribute) and \
                    key.body.attr == 'order' and isinstance(key.body.value, ast.Name) and \
                    key.body.value.id == key.args.args[0].arg:
                # sorted(xs, key=lambda x: x.order, reverse=r)
                return '(sortedByOrderM %s %s)' % (self.expr(e.args[0], env, cname), self.expr(rev, env, cname))
        if isinstance(e, ast.Call) and isinstance(e.func, ast.Name) and e.func.id == 'cls' and not e.args and \
                len(e.keywords) == 1 and e.keywords[0].arg is None:
            return '(ctorKwM %s)' % self.expr(e.keywords[0].value, env, cname)            # cls(**props)
        if isinstance(e, ast.Call) and isinstance(e.func, ast.Attribute) and e.func.attr == '_parse' and \
                isinstance(e.func.value, ast.Name) and e.func.value.id == 'cls' and len(e.args) == 1 and not e.keywords:
            return '(parseM %s)' % self.expr(e.args[0], env, cname)
        if isinstance(e, ast.Call) and not e.keywords and isinstance(e.func, ast.Attribute) and e.func.attr == 'match' and \
                isinstance(e.func.value, ast.Attribute) and e.func.value.attr == 'regex' and \
                isinstance(e.func.value.value, ast.Name) and e.func.value.value.id == 'self' and len(e.args) == 1:
            self.attrs.add('regex')                    # the compiled pattern stands for its pattern text
            return '(reMatchM (pure self_regex) %s)' % self.expr(e.args[0], env, cname)
        if isinstance(e, ast.Call) and not e.keywords and isinstance(e.func, ast.Name) and e.func.id == 'str' and \
                len(e.args) == 1 and getattr(self, 'effect_mode', None) is None and cname in ('RegexMatch',):
            return '(strPyM %s)' % self.expr(e.args[0], env, cname)
        if isinstance(e, ast.Call) and not e.keywords:
            f = e.func
            if isinstance(f, ast.Name):
                if f.id == 'isinstance' and len(e.args) == 2 and isinstance(e.args[1], ast.Tuple) and \
                        sorted(getattr(x, 'id', '?') for x in e.args[1].elts) == ['Rule', 'dict']:
                    return '(isRuleLikeM %s)' % self.expr(e.args[0], env, cname)
                if f.id == 'isinstance' and len(e.args) == 2 and isinstance(e.args[1], ast.Name):
                    return '(isinstanceM %s "%s")' % (self.expr(e.args[0], env, cname), e.args[1].id)
                if f.id == 'map' and len(e.args) == 2 and isinstance(e.args[0], ast.Call) and \
                        isinstance(e.args[0].func, ast.Name) and e.args[0].func.id == 'attrgetter' and \
                        len(e.args[0].args) == 1 and isinstance(e.args[0].args[0], ast.Constant):
                    self.fresh += 1
                    nm = 'c%d_p' % self.fresh
                    return '(listCompM %s fun %s => (policyFieldM (pure %s) "%s"))' % (
                        self.expr(e.args[1], env, cname), nm, nm, e.args[0].args[0].value)
                if f.id == 'map' and len(e.args) == 2 and isinstance(e.args[0], ast.Name) and e.args[0].id == 'str':
                    self.fresh += 1
                    nm = 'c%d_x' % self.fresh
                    return '(listCompM %s fun %s => (strM (pure %s)))' % (self.expr(e.args[1], env, cname), nm, nm)
                if f.id == 'list' and len(e.args) == 1 and isinstance(e.args[0], ast.Call) and \
                        isinstance(e.args[0].func, ast.Name) and e.args[0].func.id == 'map':
                    return self.expr(e.args[0], env, cname)          # list(map(...)): the list the map was read as
                if f.id == 'map' and len(e.args) == 2 and isinstance(e.args[0], ast.Lambda) and \
                        len(e.args[0].args.args) == 1 and not e.args[0].args.defaults:
                    # map(lambda x: E, xs), consumed at once by all() / list(): the list of the values of E
                    self.fresh += 1
                    x = e.args[0].args.args[0].arg
                    nm = 'c%d_%s' % (self.fresh, x)
                    env2 = dict(env)
                    env2[x] = '(pure %s)' % nm
                    return '(listCompM %s fun %s => %s)' % (self.expr(e.args[1], env, cname), nm,
                                                           self.expr(e.args[0].body, env2, cname))
                if f.id == 'isinstance' and len(e.args) == 2 and isinstance(e.args[1], ast.Tuple) and \
                        sorted(getattr(x, 'id', '?') for x in e.args[1].elts) == ['Rule', 'dict', 'str']:
                    a = self.expr(e.args[0], env, cname)
                    return '(pyOr (isinstanceM %s "str") (fun _ => (isRuleLikeM %s)))' % (a, a)
                if f.id == '__delitem__' and len(e.args) == 2:
                    return '(delItemM %s %s)' % (self.expr(e.args[0], env, cname), self.expr(e.args[1], env, cname))
                if f.id == '__setitem__' and len(e.args) == 3:
                    return '(setItemM %s)' % ' '.join(self.expr(a, env, cname) for a in e.args)
                if f.id == '__append__' and len(e.args) == 2:
                    return '(appendM %s %s)' % (self.expr(e.args[0], env, cname), self.expr(e.args[1], env, cname))
                if f.id == 'enumerate' and len(e.args) == 1:
                    return '(enumerateM %s)' % self.expr(e.args[0], env, cname)
                if f.id == 'callable' and len(e.args) == 1 and isinstance(e.args[0], ast.Call) and \
                        isinstance(e.args[0].func, ast.Name) and e.args[0].func.id == 'getattr' and \
                        len(e.args[0].args) == 3 and isinstance(e.args[0].args[1], ast.Constant) and \
                        e.args[0].args[1].value == 'satisfied':
                    return '(hasSatisfiedM %s)' % self.expr(e.args[0].args[0], env, cname)
                if f.id == 'getattr' and len(e.args) == 3:
                    prim = 'getattrObjM' if cname == 'Policy' else 'getattrDynM'
                    return '(%s %s %s %s)' % ((prim,) + tuple(self.expr(a, env, cname) for a in e.args))
                if f.id == 'getattr' and len(e.args) == 2:
                    name = None
                    a1 = e.args[1]
                    if isinstance(a1, ast.Constant) and isinstance(a1.value, str):
                        name = a1.value
                    elif isinstance(a1, ast.Call) and isinstance(a1.func, ast.Attribute) and not a1.args and \
                            isinstance(a1.func.value, ast.Name) and a1.func.value.id == 'self':
                        name = self.const_method(cname, a1.func.attr)
                    if isinstance(name, str):
                        return '(attrM %s "%s")' % (self.expr(e.args[0], env, cname), name)
                    raise Untranslatable('getattr with a computed name')
                if f.id in CALLS and len(e.args) == 1:
                    return '(%s %s)' % (CALLS[f.id], self.expr(e.args[0], env, cname))
                if f.id in self.helpers:
                    return self.inline(self.helpers[f.id], e.args, env, cname)
                if f.id in env and not e.args:
                    return '(callValue %s)' % env[f.id]
                raise Untranslatable('call of %s' % f.id)
            if isinstance(f, ast.Attribute) and isinstance(f.value, ast.Attribute) and isinstance(f.value.value, ast.Name) \
                    and f.value.value.id == 'self' and (f.value.attr, f.attr) in (('checker', 'fits'), ('storage', 'find_for_inquiry')):
                self.attrs.add(f.value.attr)
                prim = 'methFits' if f.attr == 'fits' else 'methFind'
                want = 4 if f.attr == 'fits' else 2
                if len(e.args) != want:
                    raise Untranslatable('%s with %d arguments' % (f.attr, len(e.args)))
                return '(%s (pure self_%s) %s)' % (prim, f.value.attr, ' '.join(self.expr(a, env, cname) for a in e.args))
            if isinstance(f, ast.Attribute) and isinstance(f.value, ast.Name) and f.value.id == 'copy' and \
                    f.attr == 'copy' and len(e.args) == 1:
                return '(copyM %s)' % self.expr(e.args[0], env, cname)
            if isinstance(f, ast.Attribute) and isinstance(f.value, ast.Name) and f.value.id == 're' and \
                    f.attr == 'fullmatch' and len(e.args) == 2:
                return '(reFullmatchM %s %s)' % (self.expr(e.args[0], env, cname), self.expr(e.args[1], env, cname))
            if isinstance(f, ast.Attribute) and f.attr == 'allow_access' and not e.args:
                return '(methAllowAccess %s)' % self.expr(f.value, env, cname)
            if isinstance(f, ast.Attribute) and f.attr == 'items' and not e.args and isinstance(f.value, ast.Name) and \
                    f.value.id in env:
                return '(attrsItemsM %s)' % env[f.value.id]
            if isinstance(f, ast.Attribute) and f.attr == 'items' and not e.args and isinstance(f.value, ast.Attribute) and \
                    f.value.attr == 'context' and isinstance(f.value.value, ast.Name) and f.value.value.id in env:
                return '(contextItemsM %s)' % env[f.value.value.id]
            if isinstance(f, ast.Attribute) and isinstance(f.value, ast.Name) and f.value.id == 'self' and \
                    f.attr in getattr(self, 'policy_emitted', ()):
                # a method of Policy translated into a definition of its own (self is an ordinary parameter there)
                names, binds = [], []
                for a in [f.value] + list(e.args):
                    self.fresh += 1
                    names.append('a%d' % self.fresh)
                    binds.append(self.expr(a, env, cname))
                inner = '(%s_Policy %s)' % (f.attr.strip('_'), ' '.join(names))
                for nm, val in reversed(list(zip(names, binds))):
                    inner = '(bindM %s fun %s => %s)' % (val, nm, inner)
                return inner
            if isinstance(f, ast.Attribute) and isinstance(f.value, ast.Name) and f.value.id == 'self' and \
                    f.attr in self.emitted:
                # a method of the same class that was translated into a definition of its own
                attrs = self.emitted[f.attr]
                for a in attrs:
                    self.attrs.add(a)
                names, binds = [], []
                for a in e.args:
                    self.fresh += 1
                    names.append('a%d' % self.fresh)
                    binds.append(self.expr(a, env, cname))
                inner = '(%s_%s %s)' % (f.attr.lstrip('_'), cname, ' '.join(['self_%s' % a for a in attrs] + names))
                for nm, val in reversed(list(zip(names, binds))):
                    inner = '(bindM %s fun %s => %s)' % (val, nm, inner)
                return inner
            if isinstance(f, ast.Attribute) and isinstance(f.value, ast.Name) and f.value.id == 'self' and \
                    self.method(cname, f.attr) is not None:
                m = self.method(cname, f.attr)
                # a method of the same object consisting of one `return`: inlined like a module-level helper
                shim = ast.FunctionDef(name=m.name, args=ast.arguments(posonlyargs=[], args=m.args.args[1:], kwonlyargs=[],
                                                                      kw_defaults=[], defaults=[]), body=m.body,
                                       decorator_list=[])
                return self.inline(shim, e.args, env, cname)
            if isinstance(f, ast.Attribute) and f.attr == 'satisfied' and len(e.args) == 2:
                return '(methSatisfied %s %s %s)' % (self.expr(f.value, env, cname), self.expr(e.args[0], env, cname),
                                                    self.expr(e.args[1], env, cname))
            if isinstance(f, ast.Attribute) and f.attr in METHODS and len(e.args) == METHODS[f.attr][1]:
                args = [self.expr(f.value, env, cname)] + [self.expr(a, env, cname) for a in e.args]
                return '(%s %s)' % (METHODS[f.attr][0], ' '.join(args))
            raise Untranslatable('call %s' % ast.dump(f)[:60])
        raise Untranslatable(type(e).__name__)

    def inline(self, fdef, args, env, cname):
        """a module-level helper `def f(a, b): return <expr>`: its expression with the arguments bound in order"""
        body = [s for s in fdef.body if not (isinstance(s, ast.Expr) and isinstance(s.value, ast.Constant))]
        params = [a.arg for a in fdef.args.args]
        if len(body) != 1 or not isinstance(body[0], ast.Return) or len(params) != len(args):
            raise Untranslatable('helper %s is not a single return' % fdef.name)
        out_env, binds = {}, []
        for p, a in zip(params, args):
            self.fresh += 1
            name = 'h%d_%s' % (self.fresh, p)
            binds.append((name, self.expr(a, env, cname)))
            out_env[p] = '(pure %s)' % name
        inner = self.expr(body[0].value, out_env, cname)
        for name, val in reversed(binds):
            inner = '(bindM %s fun %s => %s)' % (val, name, inner)
        return inner

    # ---- statements (continuation style)
    @staticmethod
    def _vterm(m):
        """the value-level term inside an environment entry `(pure X)`"""
        if not (m.startswith('(pure ') and m.endswith(')')):
            raise Untranslatable('loop-carried value %s' % m)
        return m[6:-1]

    @staticmethod
    def _assigned(stmts):
        """names assigned anywhere in the statements (nested blocks included)"""
        out = set()
        for st in stmts:
            for n in ast.walk(st):
                if isinstance(n, (ast.Assign, ast.AugAssign)):
                    for t in (n.targets if isinstance(n, ast.Assign) else [n.target]):
                        if isinstance(t, ast.Name):
                            out.add(t.id)
                        elif isinstance(t, ast.Tuple):
                            out.update(x.id for x in t.elts if isinstance(x, ast.Name))
                if isinstance(n, ast.Call) and isinstance(n.func, ast.Attribute) and n.func.attr == 'append' and \
                        isinstance(n.func.value, ast.Name):
                    out.add(n.func.value.id)
                if isinstance(n, ast.Call) and isinstance(n.func, ast.Attribute) and \
                        n.func.attr in ('up', 'down', 'save_applied_number'):
                    out.add('__w')               # an effect on the world the method acts on
                if Translator._is_store_call(n):
                    out.add('__w')
                if isinstance(n, ast.Yield):
                    out.add('__y')               # what the generator has yielded so far
                if isinstance(n, ast.Call) and isinstance(n.func, ast.Attribute) and n.func.attr == 'replace_one':
                    out.add('__w')
                if isinstance(n, ast.Call) and isinstance(n.func, ast.Attribute) and n.func.attr == 'update' and not n.args and \
                        not n.keywords and isinstance(n.func.value, ast.Name) and n.func.value.id != 'self':
                    out.add('__w')               # listener.update()
        return out

    @staticmethod
    def _breaks(stmts):
        """does a `break` of THIS loop occur (not one of a nested loop)"""
        def walk(n):
            if isinstance(n, ast.Break):
                return True
            if isinstance(n, (ast.For, ast.While)):
                return False
            return any(walk(c) for c in ast.iter_child_nodes(n))
        return any(walk(st) for st in stmts)

    @staticmethod
    def _audit_kind(s):
        """'audit' for audit_log.info(msg, extra={...}); ('decision', True/False) for the decision log record of
        Guard.is_allowed; None for any other log call"""
        c = s.value
        if not (isinstance(c.func, ast.Attribute) and c.func.attr == 'info' and isinstance(c.func.value, ast.Name)):
            return None
        if c.func.value.id == 'audit_log' and any(k.arg == 'extra' and isinstance(k.value, ast.Dict) for k in c.keywords):
            return 'audit'
        if c.func.value.id == 'log' and c.args and isinstance(c.args[0], ast.Constant) and isinstance(c.args[0].value, str):
            if 'Inquiry was allowed' in c.args[0].value:
                return ('decision', True)
            if 'Inquiry was rejected' in c.args[0].value:
                return ('decision', False)
        return None

    def _audit_stmt(self, s, rest, env, cname, end, brk):
        kind = self._audit_kind(s) if is_log_call(s) else None
        if kind == 'audit':
            # the record is emitted as the last thing before a constant is returned (nothing that could raise comes after
            # an emission, so an exception handler may go on from the world as it stood when the `try` was entered)
            if not (rest and isinstance(rest[0], ast.Return) and isinstance(rest[0].value, ast.Constant)):
                raise Untranslatable('an audit record that is not followed by the return of a constant')
            extra = [k.value for k in s.value.keywords if k.arg == 'extra'][0]
            d = {k.value: v for k, v in zip(extra.keys, extra.values) if isinstance(k, ast.Constant)}
            eff = d.get('effect')
            if not (isinstance(eff, ast.Name) and eff.id in ('ALLOW_ACCESS', 'DENY_ACCESS')) or \
                    'candidates' not in d or 'deciders' not in d:
                raise Untranslatable('audit record fields')
            return '(auditRetM %s %s %s %s %s)' % ('true' if eff.id == 'ALLOW_ACCESS' else 'false',
                                                  self.expr(d['candidates'], env, cname), self.expr(d['deciders'], env, cname),
                                                  self.expr(rest[0].value, env, cname), env['__w'])
        if isinstance(kind, tuple):
            self.fresh += 1
            w = 'w%d' % self.fresh
            env2 = dict(env)
            env2['__w'] = '(pure %s)' % w
            return '(decisionLogM %s %s fun %s =>\n      %s)' % ('cTrue' if kind[1] else 'cFalse', env['__w'], w,
                                                                 self.block(rest, env2, cname, end, brk))
        if isinstance(s, ast.Assign) and len(s.targets) == 1 and isinstance(s.targets[0], ast.Name) and \
                isinstance(s.value, ast.Call) and isinstance(s.value.func, ast.Attribute) and \
                isinstance(s.value.func.value, ast.Name) and s.value.func.value.id == 'self' and \
                s.value.func.attr in getattr(self, 'audit_emitted', {}) and not s.value.keywords:
            # a call of a method that acts on the world too (translated next to this one)
            attrs = self.audit_emitted[s.value.func.attr]
            for a in attrs:
                self.attrs.add(a)
            self.fresh += 1
            n = self.fresh
            names = ['a%d_%d' % (n, i) for i in range(len(s.value.args))]
            inner = '(%s_%sA %s a%d_w)' % (s.value.func.attr.lstrip('_'), cname,
                                          ' '.join(['self_%s' % a for a in attrs] + names), n)
            inner = '(bindM %s fun a%d_w => %s)' % (env['__w'], n, inner)
            for nm, a in reversed(list(zip(names, s.value.args))):
                inner = '(bindM %s fun %s => %s)' % (self.expr(a, env, cname), nm, inner)
            r, w = 'r%d' % n, 'w%d' % n
            env2 = dict(env)
            env2['__w'] = '(pure %s)' % w
            env2[s.targets[0].id] = '(pure %s)' % r
            return '(callProcM %s fun %s %s =>\n      %s)' % (inner, r, w, self.block(rest, env2, cname, end, brk))
        if isinstance(s, ast.Return):
            return '(pairM %s %s)' % (self.expr(s.value, env, cname) if s.value is not None else 'cNone', env['__w'])
        return None

    @staticmethod
    def _is_store_call(n):
        """self.storage.<meth>(...) / self.cache.<meth>(...)"""
        return isinstance(n, ast.Call) and isinstance(n.func, ast.Attribute) and isinstance(n.func.value, ast.Attribute) and \
            isinstance(n.func.value.value, ast.Name) and n.func.value.value.id == 'self' and \
            n.func.value.attr in ('storage', 'cache')

    def _hoist_store_call(self, s, rest, env, cname, end, brk):
        """the first call of one of the two storages in the statement's own expression (not in a nested block) is an effect
        on the world: it is performed first (it is the first thing the statement evaluates - its arguments are names,
        attributes of self or constants), its result bound to a fresh name, and the statement goes on with that name in its place"""
        import copy
        if isinstance(s, (ast.Assign, ast.Expr, ast.Return)):
            own = s.value
        elif isinstance(s, ast.If):
            own = s.test
        elif isinstance(s, ast.For):
            own = s.iter
        else:
            own = None
        if own is None:
            return None
        calls = [n for n in ast.walk(own) if self._is_store_call(n)]
        if not calls:
            return None
        node = calls[0]
        star = len(node.args) == 1 and isinstance(node.args[0], ast.Starred) and isinstance(node.args[0].value, ast.Name) and \
            len(node.keywords) == 1 and node.keywords[0].arg is None and isinstance(node.keywords[0].value, ast.Name)
        if not star and (node.keywords or any(not isinstance(a, (ast.Name, ast.Constant, ast.Attribute)) for a in node.args)):
            raise Untranslatable('storage call with keyword / computed arguments')
        self.fresh += 1
        r, w, tmp = 'r%d' % self.fresh, 'w%d' % self.fresh, '__r%d' % self.fresh
        args = [] if star else [self.expr(a, env, cname) for a in node.args]
        node._hoist = True
        s2 = copy.deepcopy(s)
        del node._hoist

        class Repl(ast.NodeTransformer):
            def visit_Call(self_, n):
                if getattr(n, '_hoist', False):
                    return ast.Name(id=tmp, ctx=ast.Load())
                return self_.generic_visit(n)
        s2 = Repl().visit(s2)
        env2 = dict(env)
        env2[tmp] = '(pure %s)' % r
        env2['__w'] = '(pure %s)' % w
        nxt = rest if (isinstance(s, ast.Expr) and s.value is node) else [s2] + rest
        if star:
            # m(*args, **kwargs): the arguments are passed on as they came
            return '(stCallStarM "%s" "%s" %s %s %s fun %s %s =>\n      %s)' % (
                node.func.value.attr, node.func.attr, env[node.args[0].value.id], env[node.keywords[0].value.id], env['__w'], r, w,
                self.block(nxt, env2, cname, end, brk))
        return '(stCallM "%s" "%s" [%s] %s fun %s %s =>\n      %s)' % (
            node.func.value.attr, node.func.attr, ', '.join(args), env['__w'], r, w,
            self.block(nxt, env2, cname, end, brk))

    def block(self, stmts, env, cname, end='cNone', brk=None):
        """`end`: what happens when the block is left at its end (the function: return None; a loop body: go on with the
        next iteration) - a Lean term, or a function of the environment at that point when the loop carries variables;
        `brk`: the same for `break`"""
        endf = end if callable(end) else (lambda e, _t=end: _t)
        audit = getattr(self, 'effect_mode', None) == 'audit'
        stmts = [s for s in stmts if not (is_log_call(s) and not (audit and self._audit_kind(s))) and
                 not (isinstance(s, ast.Expr) and isinstance(s.value, ast.Constant))]
        if not stmts:
            return endf(env)
        s, rest = stmts[0], stmts[1:]
        if getattr(self, 'effect_mode', None) == 'store':
            hoisted = self._hoist_store_call(s, rest, env, cname, end, brk)
            if hoisted is not None:
                return hoisted
        if getattr(self, 'effect_mode', None) == 'acache':
            if isinstance(s, ast.Assign) and len(s.targets) == 1 and isinstance(s.targets[0], ast.Attribute) and \
                    isinstance(s.targets[0].value, ast.Name) and s.targets[0].value.id in env:
                # <object>.<name> = value: a plain attribute write on one of the objects the method was given
                who = s.targets[0].value.id
                self.fresh += 1
                o = 'o%d' % self.fresh
                env2 = dict(env)
                env2[who] = '(pure %s)' % o
                return '(objSetS %s "%s" %s fun %s =>\n      %s)' % (env[who], s.targets[0].attr,
                                                                            self.expr(s.value, env, cname), o,
                                                                            self.block(rest, env2, cname, end, brk))
        if getattr(self, 'effect_mode', None) == 'acache':
            if isinstance(s, ast.Expr) and isinstance(s.value, ast.Call) and isinstance(s.value.func, ast.Attribute) and \
                    s.value.func.attr == 'invalidate' and not s.value.args and not s.value.keywords and '__out' in env:
                # <back-end>.invalidate(): a call out of the method, recorded (with the object it is made on) in the list of such calls
                self.fresh += 1
                c = 'c%d' % self.fresh
                env2 = dict(env)
                env2['__out'] = '(pure %s)' % c
                return '(callOutM "invalidate" %s %s fun %s =>\n      %s)' % (self.expr(s.value.func.value, env, cname), env['__out'],
                                                                            c, self.block(rest, env2, cname, end, brk))
        if getattr(self, 'effect_mode', None) == 'subject':
            def is_listeners(n):
                return isinstance(n, ast.Attribute) and n.attr == '_listeners' and isinstance(n.value, ast.Name) and \
                    n.value.id == 'self'

            def next_w():
                self.fresh += 1
                w = 'w%d' % self.fresh
                env2 = dict(env)
                env2['__w'] = '(pure %s)' % w
                return w, env2
            if isinstance(s, ast.Assign) and len(s.targets) == 1 and is_listeners(s.targets[0]):
                w, env2 = next_w()
                val = 'cEmptyPyList' if isinstance(s.value, ast.List) and not s.value.elts else self.expr(s.value, env, cname)
                return '(setListenersM %s %s fun %s =>\n      %s)' % (val, env['__w'], w, self.block(rest, env2, cname, end, brk))
            if isinstance(s, ast.Expr) and isinstance(s.value, ast.Call) and isinstance(s.value.func, ast.Attribute) and \
                    is_listeners(s.value.func.value) and s.value.func.attr in ('append', 'remove') and len(s.value.args) == 1 and \
                    not s.value.keywords:
                w, env2 = next_w()
                return '(%s %s %s fun %s =>\n      %s)' % (
                    'listenerAppendM' if s.value.func.attr == 'append' else 'listenerRemoveM',
                    self.expr(s.value.args[0], env, cname), env['__w'], w, self.block(rest, env2, cname, end, brk))
            if isinstance(s, ast.Expr) and isinstance(s.value, ast.Call) and isinstance(s.value.func, ast.Attribute) and \
                    s.value.func.attr == 'update' and not s.value.args and not s.value.keywords and \
                    isinstance(s.value.func.value, ast.Name) and s.value.func.value.id in env and s.value.func.value.id != 'self':
                w, env2 = next_w()          # listener.update(): a call out of the publisher, recorded in the world
                return '(listenerUpdateM %s %s fun %s =>\n      %s)' % (env[s.value.func.value.id], env['__w'], w,
                                                                      self.block(rest, env2, cname, end, brk))
        if getattr(self, 'effect_mode', None) == 'eachdoc':
            def plain(stmts):
                return [b for b in stmts if not is_log_call(b)]
            if isinstance(s, ast.Assign) and len(s.targets) == 1 and isinstance(s.targets[0], ast.Name) and \
                    isinstance(s.value, ast.Call) and isinstance(s.value.func, ast.Name) and s.value.func.id == 'getattr' and \
                    len(s.value.args) == 2 and isinstance(s.value.args[0], ast.Name) and s.value.args[0].id == 'self' and \
                    getattr(s.value.args[1], 'value', None) == 'storage':
                env2 = dict(env)
                env2[s.targets[0].id] = env['self']          # storage = getattr(self, 'storage'): the collection is the world
                return self.block(rest, env2, cname, end, brk)
            if isinstance(s, ast.Assign) and len(s.targets) == 1 and isinstance(s.targets[0], ast.Name) and \
                    isinstance(s.value, ast.Call) and isinstance(s.value.func, ast.Attribute) and s.value.func.attr == 'find' and \
                    not s.value.args and not s.value.keywords and isinstance(s.value.func.value, ast.Attribute) and \
                    s.value.func.value.attr == 'collection':
                self.fresh += 1
                r = 'r%d' % self.fresh
                env2 = dict(env)
                env2[s.targets[0].id] = '(pure %s)' % r
                return '(bindM (collFindM %s) fun %s =>\n      %s)' % (env['__w'], r, self.block(rest, env2, cname, end, brk))
            if isinstance(s, ast.Try) and not s.orelse and not s.finalbody and s.handlers and \
                    all(isinstance(h.type, ast.Name) and h.type.id in ('Irreversible', 'Exception') for h in s.handlers):
                hbs = [plain(h.body) for h in s.handlers]
                if len({repr([ast.dump(x) for x in b]) for b in hbs}) != 1:
                    raise Untranslatable('the handlers differ')
                # whatever the processor (or the look-up of the new uid) raises: the one reaction of both handlers, on the collection
                # as it stood (the replacement is the last thing the body does)
                return '(tryElseM %s\n      %s)' % (self.block(plain(s.body) + rest, env, cname, end, brk),
                                                   self.block(hbs[0] + rest, env, cname, end, brk))
            if isinstance(s, ast.Expr) and isinstance(s.value, ast.Call) and isinstance(s.value.func, ast.Attribute) and \
                    s.value.func.attr == 'replace_one' and len(s.value.args) == 2 and not s.value.keywords and \
                    isinstance(s.value.args[0], ast.Dict) and len(s.value.args[0].keys) == 1 and \
                    getattr(s.value.args[0].keys[0], 'value', None) == '_id':
                self.fresh += 1
                w = 'w%d' % self.fresh
                env2 = dict(env)
                env2['__w'] = '(pure %s)' % w
                return '(replaceOneM %s %s %s fun %s =>\n      %s)' % (
                    self.expr(s.value.args[0].values[0], env, cname), self.expr(s.value.args[1], env, cname), env['__w'], w,
                    self.block(rest, env2, cname, end, brk))
            if isinstance(s, ast.If) and not s.orelse and s.body and is_log_call(s.body[-1]) and \
                    all(isinstance(b, ast.Assign) and len(b.targets) == 1 and isinstance(b.targets[0], ast.Name) for b in s.body[:-1]):
                # a branch that only composes and writes a log message.  At level `error` it is the *report* of the pass: whether
                # it is written is part of the result (its text is not)
                if s.body[-1].value.func.attr == 'error':
                    et, ef = dict(env), dict(env)
                    et['__rep'], ef['__rep'] = 'cTrue', 'cFalse'
                    return '(iteM %s\n      %s\n      %s)' % (self.expr(s.test, env, cname), self.block(rest, et, cname, end, brk),
                                                             self.block(rest, ef, cname, end, brk))
                return self.block(rest, env, cname, end, brk)
        if getattr(self, 'effect_mode', None) == 'sql':
            def sess_call(c, name):
                return isinstance(c, ast.Call) and isinstance(c.func, ast.Attribute) and c.func.attr == name and \
                    isinstance(c.func.value, ast.Attribute) and c.func.value.attr == 'session' and \
                    isinstance(c.func.value.value, ast.Name) and c.func.value.value.id == 'self'

            def fresh_w():
                self.fresh += 1
                w = 'w%d' % self.fresh
                env2 = dict(env)
                env2['__w'] = '(pure %s)' % w
                return w, env2

            def plain(stmts):
                return [b for b in stmts if not is_log_call(b)]
            if isinstance(s, ast.Try) and not s.orelse and not s.finalbody and s.handlers and \
                    all(isinstance(h.type, ast.Name) and h.type.id in ('IntegrityError', 'FlushError') for h in s.handlers):
                # the handlers of a failed flush.  Which of the two exceptions SQLAlchemy raises for a key that is already taken
                # depends on its identity map; the translator insists that both handlers do the same in that case (the test on
                # the FlushError message being true for it) and translates that one reaction.
                bodies = []
                for h in s.handlers:
                    hb = plain(h.body)
                    if h.type.id == 'FlushError' and len(hb) == 1 and isinstance(hb[0], ast.If) and not hb[0].orelse and \
                            isinstance(hb[0].test, ast.Compare) and isinstance(hb[0].test.left, ast.Constant) and \
                            len(hb[0].test.ops) == 1 and isinstance(hb[0].test.ops[0], ast.In) and \
                            'conflicts with persistent instance' in str(hb[0].test.left.value):
                        hb = plain(hb[0].body)
                    bodies.append(hb)
                if len({repr([ast.dump(x) for x in b]) for b in bodies}) != 1:
                    raise Untranslatable('the handlers of a failed flush differ')
                self._flush_handler = bodies[0]
                try:
                    return self.block(s.body + rest, env, cname, end, brk)
                finally:
                    self._flush_handler = None
            if isinstance(s, ast.Try) and not s.orelse and not s.finalbody and len(s.handlers) == 1 and \
                    isinstance(s.handlers[0].type, ast.Name) and s.handlers[0].type.id == 'Exception':
                hb = plain(s.handlers[0].body)
                if hb and isinstance(hb[-1], ast.Raise) and hb[-1].exc is None:
                    # any exception in the body: the handler (here on the session as it stood - a rollback does not care what was
                    # pending) and the exception goes on
                    return '(tryElseM %s\n      %s)' % (self.block(s.body + rest, env, cname, end, brk),
                                                       self.block(hb, env, cname, end, brk))
            if isinstance(s, ast.Expr) and isinstance(s.value, ast.Yield) and s.value.value is not None and '__y' in env:
                s = ast.Assign(targets=[ast.Name(id='__y', ctx=ast.Store())],
                               value=ast.Call(func=ast.Name(id='__append__', ctx=ast.Load()),
                                              args=[ast.Name(id='__y', ctx=ast.Load()), s.value.value], keywords=[]))
            if isinstance(s, ast.Expr) and isinstance(s.value, ast.Call) and isinstance(s.value.func, ast.Attribute) and \
                    s.value.func.attr == '_check_limit_and_offset' and isinstance(s.value.func.value, ast.Name) and \
                    s.value.func.value.id == 'self' and len(s.value.args) == 2 and not s.value.keywords:
                w, env2 = fresh_w()
                return ('(callProcM (bindM %s fun a_limit => bindM %s fun a_offset => bindM %s fun a_w =>\n      '
                        'check_limit_and_offset_StorageS a_limit a_offset a_w) fun _r %s =>\n      %s)' % (
                            self.expr(s.value.args[0], env, cname), self.expr(s.value.args[1], env, cname), env['__w'], w,
                            self.block(rest, env2, cname, end, brk)))
            if isinstance(s, ast.Assign) and len(s.targets) == 1 and isinstance(s.targets[0], ast.Name) and \
                    isinstance(s.value, ast.Call) and isinstance(s.value.func, ast.Attribute) and s.value.func.attr == 'slice' and \
                    len(s.value.args) == 2 and isinstance(s.value.func.value, ast.Call) and \
                    isinstance(s.value.func.value.func, ast.Attribute) and s.value.func.value.func.attr == 'order_by' and \
                    sess_call(s.value.func.value.func.value, 'query') and len(s.value.func.value.args) == 1:
                ob = s.value.func.value.args[0]
                q = s.value.func.value.func.value
                if isinstance(ob, ast.Call) and isinstance(ob.func, ast.Attribute) and ob.func.attr == 'asc' and \
                        isinstance(ob.func.value, ast.Attribute) and ob.func.value.attr == 'uid' and \
                        len(q.args) == 1 and isinstance(q.args[0], ast.Name) and q.args[0].id == 'PolicyModel':
                    self.fresh += 1
                    r, w = 'r%d' % self.fresh, 'w%d' % self.fresh
                    env2 = dict(env)
                    env2[s.targets[0].id] = '(pure %s)' % r
                    env2['__w'] = '(pure %s)' % w
                    return '(sessSliceQueryM %s %s %s fun %s %s =>\n      %s)' % (
                        self.expr(s.value.args[0], env, cname), self.expr(s.value.args[1], env, cname), env['__w'], r, w,
                        self.block(rest, env2, cname, end, brk))
            if isinstance(s, ast.Expr) and sess_call(s.value, 'add') and len(s.value.args) == 1:
                w, env2 = fresh_w()
                return '(sessAddM %s %s fun %s =>\n      %s)' % (self.expr(s.value.args[0], env, cname), env['__w'], w,
                                                              self.block(rest, env2, cname, end, brk))
            if isinstance(s, ast.Expr) and sess_call(s.value, 'commit') and not s.value.args:
                w, env2 = fresh_w()
                if getattr(self, '_flush_handler', None):
                    self.fresh += 1
                    wc = 'w%d' % self.fresh
                    envc = dict(env)
                    envc['__w'] = '(pure %s)' % wc
                    handler = self._flush_handler
                    self._flush_handler = None
                    try:
                        hterm = self.block(handler, envc, cname, end, brk)
                    finally:
                        self._flush_handler = handler
                    return '(sessCommitTryM %s\n      (fun %s => %s)\n      (fun %s => %s))' % (
                        env['__w'], w, self.block(rest, env2, cname, end, brk), wc, hterm)
                return '(sessCommitM %s fun %s =>\n      %s)' % (env['__w'], w, self.block(rest, env2, cname, end, brk))
            if isinstance(s, ast.Expr) and sess_call(s.value, 'rollback') and not s.value.args:
                w, env2 = fresh_w()
                return '(sessRollbackM %s fun %s =>\n      %s)' % (env['__w'], w, self.block(rest, env2, cname, end, brk))
            if isinstance(s, ast.Assign) and len(s.targets) == 1 and isinstance(s.targets[0], ast.Name) and \
                    sess_call(s.value, 'get') and len(s.value.args) == 2 and isinstance(s.value.args[0], ast.Name) and \
                    s.value.args[0].id == 'PolicyModel':
                self.fresh += 1
                r, w = 'r%d' % self.fresh, 'w%d' % self.fresh
                env2 = dict(env)
                env2[s.targets[0].id] = '(pure %s)' % r
                env2['__w'] = '(pure %s)' % w
                return '(sessGetM %s %s fun %s %s =>\n      %s)' % (self.expr(s.value.args[1], env, cname), env['__w'], r, w,
                                                                   self.block(rest, env2, cname, end, brk))
            if isinstance(s, ast.Expr) and isinstance(s.value, ast.Call) and isinstance(s.value.func, ast.Attribute) and \
                    s.value.func.attr == 'update' and isinstance(s.value.func.value, ast.Name) and \
                    s.value.func.value.id in env and s.value.func.value.id != 'self' and len(s.value.args) == 1:
                w, env2 = fresh_w()
                return '(modelUpdateM %s %s %s fun %s =>\n      %s)' % (env[s.value.func.value.id], self.expr(s.value.args[0], env, cname),
                                                                       env['__w'], w, self.block(rest, env2, cname, end, brk))
            ELEMENT_MODELS = ('PolicySubjectModel', 'PolicyResourceModel', 'PolicyActionModel')
            if isinstance(s, ast.For) and not s.orelse and isinstance(s.target, ast.Name) and \
                    isinstance(s.iter, (ast.Tuple, ast.List)) and s.iter.elts and \
                    all(isinstance(x, ast.Name) and x.id in ELEMENT_MODELS for x in s.iter.elts):
                # a loop over (some of) the element models: unrolled, the loop variable replaced by each model in turn
                class _Subst(ast.NodeTransformer):
                    def __init__(self, frm, to):
                        self.frm, self.to = frm, to

                    def visit_Name(self, n):
                        return ast.copy_location(ast.Name(id=self.to, ctx=n.ctx), n) if n.id == self.frm else n
                import copy as _copy
                unrolled = []
                for x in s.iter.elts:
                    for b in s.body:
                        unrolled.append(ast.fix_missing_locations(_Subst(s.target.id, x.id).visit(_copy.deepcopy(b))))
                return self.block(unrolled + rest, env, cname, end, brk)
            if isinstance(s, ast.Expr) and isinstance(s.value, ast.Call) and isinstance(s.value.func, ast.Attribute) and \
                    s.value.func.attr == 'delete' and not s.value.args and isinstance(s.value.func.value, ast.Call) and \
                    isinstance(s.value.func.value.func, ast.Attribute) and s.value.func.value.func.attr == 'filter' and \
                    sess_call(s.value.func.value.func.value, 'query') and len(s.value.func.value.args) == 1:
                cond = s.value.func.value.args[0]
                q = s.value.func.value.func.value
                if isinstance(cond, ast.Compare) and len(cond.ops) == 1 and isinstance(cond.ops[0], ast.Eq) and \
                        isinstance(cond.left, ast.Attribute) and cond.left.attr == 'uid' and \
                        isinstance(cond.left.value, ast.Name) and cond.left.value.id in ELEMENT_MODELS and \
                        len(q.args) == 1 and isinstance(q.args[0], ast.Name) and q.args[0].id == cond.left.value.id:
                    # the element rows of one uid in one of the three element tables
                    w, env2 = fresh_w()
                    return '(sessElemDeleteM "%s" %s %s fun %s =>\n      %s)' % (q.args[0].id, self.expr(cond.comparators[0], env, cname),
                                                                               env['__w'], w, self.block(rest, env2, cname, end, brk))
                if isinstance(cond, ast.Compare) and len(cond.ops) == 1 and isinstance(cond.ops[0], ast.Eq) and \
                        isinstance(cond.left, ast.Attribute) and cond.left.attr == 'uid' and \
                        isinstance(cond.left.value, ast.Name) and cond.left.value.id == 'PolicyModel' and \
                        len(q.args) == 1 and isinstance(q.args[0], ast.Name) and q.args[0].id == 'PolicyModel':
                    w, env2 = fresh_w()
                    return '(sessBulkDeleteM %s %s fun %s =>\n      %s)' % (self.expr(cond.comparators[0], env, cname), env['__w'], w,
                                                                         self.block(rest, env2, cname, end, brk))
            if isinstance(s, ast.Raise) and isinstance(s.exc, ast.Call) and isinstance(s.exc.func, ast.Name):
                return '(raiseSqlM "%s" %s)' % (s.exc.func.id, env['__w'])
            if isinstance(s, ast.Raise) and s.exc is None:
                return '(raiseSqlM "re-raised" %s)' % env['__w']
            if isinstance(s, ast.Return):
                return '(pairM %s %s)' % (self.expr(s.value, env, cname) if s.value is not None else 'cNone', env['__w'])
        if getattr(self, 'effect_mode', None) == 'mongo':
            def coll_call(c, name):
                return isinstance(c, ast.Call) and isinstance(c.func, ast.Attribute) and c.func.attr == name and \
                    isinstance(c.func.value, ast.Attribute) and c.func.value.attr == 'collection' and \
                    isinstance(c.func.value.value, ast.Name) and c.func.value.value.id == 'self'

            def id_filter(n):
                """{'_id': X} -> X"""
                if isinstance(n, ast.Dict) and len(n.keys) == 1 and isinstance(n.keys[0], ast.Constant) and n.keys[0].value == '_id':
                    return n.values[0]
                return None

            def fresh_w():
                self.fresh += 1
                w = 'w%d' % self.fresh
                env2 = dict(env)
                env2['__w'] = '(pure %s)' % w
                return w, env2
            if isinstance(s, ast.Try) and not s.orelse and not s.finalbody and len(s.handlers) == 1 and \
                    isinstance(s.handlers[0].type, ast.Name) and s.handlers[0].type.id == 'DuplicateKeyError' and \
                    len(s.body) == 1 and isinstance(s.body[0], ast.Expr) and coll_call(s.body[0].value, 'insert_one') and \
                    len(s.body[0].value.args) == 1 and not s.body[0].value.keywords:
                w, env2 = fresh_w()
                self.fresh += 1
                wd = 'w%d' % self.fresh
                envd = dict(env)
                envd['__w'] = '(pure %s)' % wd
                return '(insertOneM %s %s\n      (fun %s => %s)\n      (fun %s => %s))' % (
                    self.expr(s.body[0].value.args[0], env, cname), env['__w'], w, self.block(rest, env2, cname, end, brk),
                    wd, self.block([b for b in s.handlers[0].body if not is_log_call(b)], envd, cname, end, brk))
            if isinstance(s, ast.Expr) and isinstance(s.value, ast.Yield) and s.value.value is not None and '__y' in env:
                s = ast.Assign(targets=[ast.Name(id='__y', ctx=ast.Store())],
                               value=ast.Call(func=ast.Name(id='__append__', ctx=ast.Load()),
                                              args=[ast.Name(id='__y', ctx=ast.Load()), s.value.value], keywords=[]))
            if isinstance(s, ast.Expr) and isinstance(s.value, ast.Call) and isinstance(s.value.func, ast.Attribute) and \
                    s.value.func.attr == '_check_limit_and_offset' and isinstance(s.value.func.value, ast.Name) and \
                    s.value.func.value.id == 'self' and len(s.value.args) == 2 and not s.value.keywords:
                w, env2 = fresh_w()
                return ('(callProcM (bindM %s fun a_limit => bindM %s fun a_offset => bindM %s fun a_w =>\n      '
                        'check_limit_and_offset_StorageM a_limit a_offset a_w) fun _r %s =>\n      %s)' % (
                            self.expr(s.value.args[0], env, cname), self.expr(s.value.args[1], env, cname), env['__w'], w,
                            self.block(rest, env2, cname, end, brk)))
            if isinstance(s, ast.Assign) and len(s.targets) == 1 and isinstance(s.targets[0], ast.Name) and \
                    coll_call(s.value, 'find') and not s.value.args:
                kw = {k.arg: k.value for k in s.value.keywords}
                srt = kw.get('sort')
                if set(kw) == {'limit', 'skip', 'sort'} and isinstance(srt, ast.List) and len(srt.elts) == 1 and \
                        isinstance(srt.elts[0], ast.Tuple) and getattr(srt.elts[0].elts[0], 'value', None) == '_id' and \
                        isinstance(srt.elts[0].elts[1], ast.Attribute) and srt.elts[0].elts[1].attr == 'ASCENDING':
                    self.fresh += 1
                    r, w = 'r%d' % self.fresh, 'w%d' % self.fresh
                    env2 = dict(env)
                    env2[s.targets[0].id] = '(pure %s)' % r
                    env2['__w'] = '(pure %s)' % w
                    return '(findPageM %s %s %s fun %s %s =>\n      %s)' % (
                        self.expr(kw['limit'], env, cname), self.expr(kw['skip'], env, cname), env['__w'], r, w,
                        self.block(rest, env2, cname, end, brk))
            if isinstance(s, ast.Assign) and len(s.targets) == 1 and isinstance(s.targets[0], ast.Name) and \
                    coll_call(s.value, 'find_one') and len(s.value.args) == 1 and not s.value.keywords:
                self.fresh += 1
                r, w = 'r%d' % self.fresh, 'w%d' % self.fresh
                env2 = dict(env)
                env2[s.targets[0].id] = '(pure %s)' % r
                env2['__w'] = '(pure %s)' % w
                return '(findOneM %s %s fun %s %s =>\n      %s)' % (self.expr(s.value.args[0], env, cname), env['__w'], r, w,
                                                                   self.block(rest, env2, cname, end, brk))
            if isinstance(s, ast.Expr) and coll_call(s.value, 'update_one') and len(s.value.args) == 2 and \
                    [(k.arg, getattr(k.value, 'value', None)) for k in s.value.keywords] == [('upsert', False)] and \
                    id_filter(s.value.args[0]) is not None and isinstance(s.value.args[1], ast.Dict) and \
                    len(s.value.args[1].keys) == 1 and getattr(s.value.args[1].keys[0], 'value', None) == '$set':
                w, env2 = fresh_w()
                return '(updateOneM %s %s %s fun %s =>\n      %s)' % (
                    self.expr(id_filter(s.value.args[0]), env, cname), self.expr(s.value.args[1].values[0], env, cname),
                    env['__w'], w, self.block(rest, env2, cname, end, brk))
            if isinstance(s, ast.Expr) and coll_call(s.value, 'delete_one') and len(s.value.args) == 1 and \
                    not s.value.keywords and id_filter(s.value.args[0]) is not None:
                w, env2 = fresh_w()
                return '(deleteOneM %s %s fun %s =>\n      %s)' % (self.expr(id_filter(s.value.args[0]), env, cname), env['__w'], w,
                                                                  self.block(rest, env2, cname, end, brk))
            if isinstance(s, ast.Raise) and isinstance(s.exc, ast.Call) and isinstance(s.exc.func, ast.Name):
                return '(raiseMongoM "%s" %s)' % (s.exc.func.id, env['__w'])
            if isinstance(s, ast.Return):
                return '(pairM %s %s)' % (self.expr(s.value, env, cname) if s.value is not None else 'cNone', env['__w'])
        if getattr(self, 'effect_mode', None) == 'redis':
            def is_collection(n):
                return isinstance(n, ast.Attribute) and n.attr == 'collection' and isinstance(n.value, ast.Name) and n.value.id == 'self'

            def client_call(c):
                """(primitive, argument terms) for a call of the Redis client / the registered script on this storage's hash"""
                if not (isinstance(c, ast.Call) and isinstance(c.func, ast.Attribute)):
                    return None
                f = c.func
                if isinstance(f.value, ast.Attribute) and f.value.attr == 'client' and isinstance(f.value.value, ast.Name) and \
                        f.value.value.id == 'self' and not c.keywords and c.args and is_collection(c.args[0]):
                    prim = {'hsetnx': ('hsetnxM', 2), 'hget': ('hgetM', 1), 'hdel': ('hdelM', 1), 'hgetall': ('hgetallM', 0)}.get(f.attr)
                    if prim and len(c.args) == 1 + prim[1]:
                        return prim[0], [self.expr(a, env, cname) for a in c.args[1:]]
                if f.attr == 'updater' and isinstance(f.value, ast.Attribute) and f.value.attr == 'scripts' and not c.args:
                    kw = {k.arg: k.value for k in c.keywords}
                    if set(kw) == {'keys', 'args'} and isinstance(kw['keys'], ast.List) and len(kw['keys'].elts) == 1 and \
                            is_collection(kw['keys'].elts[0]) and isinstance(kw['args'], ast.List) and len(kw['args'].elts) == 2:
                        return 'scriptUpdateM', [self.expr(a, env, cname) for a in kw['args'].elts]
                return None
            if isinstance(s, ast.Expr) and isinstance(s.value, ast.Yield) and s.value.value is not None and '__y' in env:
                s = ast.Assign(targets=[ast.Name(id='__y', ctx=ast.Store())],
                               value=ast.Call(func=ast.Name(id='__append__', ctx=ast.Load()),
                                              args=[ast.Name(id='__y', ctx=ast.Load()), s.value.value], keywords=[]))
            if isinstance(s, ast.Expr) and isinstance(s.value, ast.Call) and isinstance(s.value.func, ast.Attribute) and \
                    s.value.func.attr == '_check_limit_and_offset' and isinstance(s.value.func.value, ast.Name) and \
                    s.value.func.value.id == 'self' and len(s.value.args) == 2 and not s.value.keywords:
                self.fresh += 1
                w = 'w%d' % self.fresh
                env2 = dict(env)
                env2['__w'] = '(pure %s)' % w
                return ('(callProcM (bindM %s fun a_limit => bindM %s fun a_offset => bindM %s fun a_w =>\n      '
                        'check_limit_and_offset_StorageR a_limit a_offset a_w) fun _r %s =>\n      %s)' % (
                            self.expr(s.value.args[0], env, cname), self.expr(s.value.args[1], env, cname), env['__w'], w,
                            self.block(rest, env2, cname, end, brk)))
            if isinstance(s, ast.Assign) and len(s.targets) == 1 and isinstance(s.targets[0], ast.Name):
                cc = client_call(s.value)
                if cc:
                    self.fresh += 1
                    r, w = 'r%d' % self.fresh, 'w%d' % self.fresh
                    env2 = dict(env)
                    env2[s.targets[0].id] = '(pure %s)' % r
                    env2['__w'] = '(pure %s)' % w
                    return '(%s %s %s fun %s %s =>\n      %s)' % (cc[0], ' '.join(cc[1]), env['__w'], r, w,
                                                                 self.block(rest, env2, cname, end, brk))
            if isinstance(s, ast.Raise) and isinstance(s.exc, ast.Call) and isinstance(s.exc.func, ast.Name):
                return '(raiseRedisM "%s" %s)' % (s.exc.func.id, env['__w'])
            if isinstance(s, ast.Raise) and isinstance(s.exc, ast.Name):
                return '(raiseRedisM "re-raised" %s)' % env['__w']           # `raise e` in a handler
            if isinstance(s, ast.Try) and not s.orelse and not s.finalbody and len(s.handlers) == 1 and \
                    isinstance(s.handlers[0].type, ast.Name) and s.handlers[0].type.id == 'Exception':
                hb = [b for b in s.handlers[0].body if not is_log_call(b)]
                if len(hb) == 1 and isinstance(hb[0], ast.Raise):
                    # the handler only re-labels / re-raises: an exception in the body ends the method through it
                    return '(tryElseM %s\n      %s)' % (self.block(s.body + rest, env, cname, end, brk),
                                                       self.block(hb, env, cname, end, brk))
            if isinstance(s, ast.Return):
                return '(pairM %s %s)' % (self.expr(s.value, env, cname) if s.value is not None else 'cNone', env['__w'])
            if isinstance(s, ast.If) and not [b for b in s.body if not is_log_call(b)] and \
                    not [b for b in s.orelse if not is_log_call(b)] and isinstance(s.test, ast.Compare):
                # a branch that only logs: nothing to do (the test is a comparison of a local with a constant)
                return self.block(rest, env, cname, end, brk)
        if getattr(self, 'effect_mode', None) == 'gen':
            if isinstance(s, ast.Expr) and isinstance(s.value, ast.Yield) and s.value.value is not None:
                # yield x: one more item of what the generator produces
                s = ast.Assign(targets=[ast.Name(id='__y', ctx=ast.Store())],
                               value=ast.Call(func=ast.Name(id='__append__', ctx=ast.Load()),
                                              args=[ast.Name(id='__y', ctx=ast.Load()), s.value.value], keywords=[]))
            elif isinstance(s, ast.Return) and s.value is None:
                return env['__y']
            elif isinstance(s, ast.While) and isinstance(s.test, ast.Constant) and s.test.value is True and not s.orelse:
                # while True: a state-passing loop that is left by return (ending the generator) only; a fuel argument bounds the
                # number of rounds (the equivalence theorem is stated for every fuel, the model's own loop has the same bound)
                self.fresh += 1
                n = self.fresh
                carried = sorted(self._assigned(s.body) & set(env))
                st, k, b, r = 's%d' % n, 'k%d' % n, 'b%d' % n, 'r%d' % n
                env2 = dict(env)
                for i, name in enumerate(carried):
                    env2[name] = '(pure (stGet %s %d))' % (st, i)

                def vals(e):
                    return '[%s]' % ', '.join(self._vterm(e[name]) for name in carried)
                body = self.block(s.body, env2, cname, end=lambda e: '(%s %s)' % (k, vals(e)),
                                  brk=lambda e: '(%s %s)' % (b, vals(e)))
                env3 = dict(env)
                for i, name in enumerate(carried):
                    env3[name] = '(pure (stGet %s %d))' % (r, i)
                return '(whileS fuel (fun %s %s %s =>\n      %s)\n      %s\n      (fun %s => %s))' % (
                    st, k, b, body, vals(env), r, self.block(rest, env3, cname, end, brk))
        if getattr(self, 'effect_mode', None) == 'obj':
            def set_self(name_t, val_t):
                self.fresh += 1
                o = 'o%d' % self.fresh
                env2 = dict(env)
                env2['self'] = '(pure %s)' % o
                return '(objSetK %s %s %s fun %s =>\n      %s)' % (env['self'], name_t, val_t, o,
                                                                  self.block(rest, env2, cname, end, brk))
            if isinstance(s, ast.Expr) and isinstance(s.value, ast.Call) and isinstance(s.value.func, ast.Attribute) and \
                    isinstance(s.value.func.value, ast.Name):
                c = s.value
                if c.func.value.id == 'self' and c.func.attr in getattr(self, 'policy_emitted', ()):
                    # called for its exception only
                    return '(bindM %s fun _ =>\n      %s)' % (self.expr(c, env, cname), self.block(rest, env, cname, end, brk))
                if c.func.value.id == 'object' and c.func.attr == '__setattr__' and len(c.args) == 3 and \
                        isinstance(c.args[0], ast.Name) and c.args[0].id == 'self':
                    return set_self(self.expr(c.args[1], env, cname), self.expr(c.args[2], env, cname))
            if isinstance(s, ast.Assign) and len(s.targets) == 1 and isinstance(s.targets[0], ast.Attribute) and \
                    isinstance(s.targets[0].value, ast.Name) and s.targets[0].value.id == 'self' and \
                    '__setattr__' in getattr(self, 'policy_emitted', ()):
                # self.<name> = value in a class that defines __setattr__: the translated __setattr__ is what runs
                self.fresh += 1
                o = 'o%d' % self.fresh
                env2 = dict(env)
                env2['self'] = '(pure %s)' % o
                return ('(callProcM (bindM %s fun a_self => bindM %s fun a_val => setattr_Policy a_self (V.py (.str "%s".toList)) a_val) '
                        'fun _r %s =>\n      %s)' % (env['self'], self.expr(s.value, env, cname), s.targets[0].attr, o,
                                                      self.block(rest, env2, cname, end, brk)))
            if isinstance(s, ast.Assign) and len(s.targets) == 1 and isinstance(s.targets[0], ast.Attribute) and \
                    isinstance(s.targets[0].value, ast.Name) and s.targets[0].value.id == 'self':
                # self.<name> = value (a class without __setattr__ of its own: a plain write)
                return set_self('(cStr "%s")' % s.targets[0].attr, self.expr(s.value, env, cname))
            if isinstance(s, ast.Expr) and isinstance(s.value, ast.Call) and isinstance(s.value.func, ast.Attribute) and \
                    s.value.func.attr == 'warn' and isinstance(s.value.func.value, ast.Name) and \
                    s.value.func.value.id == 'warnings':
                return self.block(rest, env, cname, end, brk)            # a deprecation warning: nothing to the object
            if isinstance(s, ast.Pass):
                return self.block(rest, env, cname, end, brk)
            if isinstance(s, ast.Assign) and len(s.targets) == 1 and isinstance(s.targets[0], ast.Subscript) and \
                    isinstance(s.targets[0].value, ast.Attribute) and s.targets[0].value.attr == '__dict__' and \
                    isinstance(s.targets[0].value.value, ast.Name) and s.targets[0].value.value.id == 'self':
                return set_self(self.expr(s.targets[0].slice, env, cname), self.expr(s.value, env, cname))
        if audit:
            t = self._audit_stmt(s, rest, env, cname, end, brk)
            if t is not None:
                return t
        if isinstance(s, ast.Continue):
            if end == 'cNone':
                raise Untranslatable('continue outside a loop')
            return endf(env)
        if isinstance(s, ast.Break):
            if brk is None:
                raise Untranslatable('break outside a translated loop')
            return brk(env)
        if isinstance(s, ast.For) and not s.orelse and (isinstance(s.target, ast.Name) or (
                isinstance(s.target, ast.Tuple) and all(isinstance(t, ast.Name) for t in s.target.elts))):
            self.fresh += 1
            n = self.fresh
            carried = sorted(self._assigned(s.body) & set(env))
            stateful = bool(carried) or self._breaks(s.body)
            env2 = dict(env)
            inner_binds = []
            if isinstance(s.target, ast.Name):
                x = 'l%d_%s' % (n, s.target.id)
                env2[s.target.id] = '(pure %s)' % x
            else:
                x = 'l%d_pair' % n
                for i, t in enumerate(s.target.elts):
                    nm = 'l%d_%s' % (n, t.id)
                    env2[t.id] = '(pure %s)' % nm
                    inner_binds.append((nm, '(seqItemM (pure %s) %d)' % (x, i)))
            if not stateful:
                k = 'k%d' % n
                body = self.block(s.body, env2, cname, end=k, brk=None)
                for nm, val in reversed(inner_binds):
                    body = '(bindM %s fun %s =>\n      %s)' % (val, nm, body)
                return '(pyFor %s (fun %s %s =>\n      %s)\n      %s)' % (self.expr(s.iter, env, cname), x, k, body,
                                                                       self.block(rest, env, cname, end, brk))
            # the loop carries variables that are assigned in its body (and / or is left by `break`): the state is the
            # list of their values; the body receives the state, the continuation of the next iteration and that of break
            st, k, b, r = 's%d' % n, 'k%d' % n, 'b%d' % n, 'r%d' % n
            for i, name in enumerate(carried):
                env2[name] = '(pure (stGet %s %d))' % (st, i)

            def vals(e):
                return '[%s]' % ', '.join(self._vterm(e[name]) for name in carried)
            body = self.block(s.body, env2, cname, end=lambda e: '(%s %s)' % (k, vals(e)),
                              brk=lambda e: '(%s %s)' % (b, vals(e)))
            for nm, val in reversed(inner_binds):
                body = '(bindM %s fun %s =>\n      %s)' % (val, nm, body)
            env3 = dict(env)
            for i, name in enumerate(carried):
                env3[name] = '(pure (stGet %s %d))' % (r, i)
            return '(pyForS %s (fun %s %s %s %s =>\n      %s)\n      %s\n      (fun %s => %s))' % (
                self.expr(s.iter, env, cname), x, st, k, b, body, vals(env), r, self.block(rest, env3, cname, end, brk))
        if isinstance(s, ast.Try) and not s.orelse and not s.finalbody and len(s.handlers) == 1 and \
                isinstance(s.handlers[0].type, ast.Name) and s.handlers[0].type.id == 'ValueError' and len(s.body) == 2 and \
                all(isinstance(b, ast.Assign) and len(b.targets) == 1 and isinstance(b.targets[0], ast.Name) and
                    isinstance(b.value, ast.Call) and isinstance(b.value.func, ast.Attribute) and
                    isinstance(b.value.func.value, ast.Name) and b.value.func.value.id == 'ipaddress' and
                    len(b.value.args) == 1 for b in s.body) and \
                [b.value.func.attr for b in s.body] == ['ip_address', 'ip_network'] and len(rest) == 1 and \
                isinstance(rest[0], ast.Return) and isinstance(rest[0].value, ast.Compare) and \
                isinstance(rest[0].value.ops[0], ast.In) and isinstance(rest[0].value.left, ast.Name) and \
                rest[0].value.left.id == s.body[0].targets[0].id and isinstance(rest[0].value.comparators[0], ast.Name) and \
                rest[0].value.comparators[0].id == s.body[1].targets[0].id:
            # ip = ipaddress.ip_address(a); net = ipaddress.ip_network(n) under `except ValueError`, then `return ip in net`
            return '(ipInNetM %s %s\n      %s)' % (self.expr(s.body[0].value.args[0], env, cname),
                                                   self.expr(s.body[1].value.args[0], env, cname),
                                                   self.block([b for b in s.handlers[0].body if not is_log_call(b)], env, cname, end, brk))
        if isinstance(s, ast.Try) and not s.orelse and not s.finalbody and len(s.handlers) == 1 and \
                isinstance(s.handlers[0].type, ast.Name):
            h = s.handlers[0]
            body = [b for b in s.body if not is_log_call(b)]
            if h.type.id == 'KeyError' and len(body) == 1 and isinstance(body[0], ast.Assign) and \
                    len(body[0].targets) == 1 and isinstance(body[0].targets[0], ast.Name) and \
                    isinstance(body[0].value, ast.Subscript):
                sub = body[0].value
                name = 'v_' + body[0].targets[0].id
                env2 = dict(env)
                env2[body[0].targets[0].id] = '(pure %s)' % name
                return '(trySubscriptM %s %s\n      %s\n      (fun %s => %s))' % (
                    self.expr(sub.value, env, cname), self.expr(sub.slice, env, cname),
                    self.block(h.body + rest, env, cname, end, brk), name, self.block(rest, env2, cname, end, brk))
            if h.type.id == 'InvalidPatternError' and len(body) == 1 and isinstance(body[0], ast.Assign) and \
                    len(body[0].targets) == 1 and isinstance(body[0].targets[0], ast.Name) and \
                    isinstance(body[0].value, ast.Call) and isinstance(body[0].value.func, ast.Attribute) and \
                    isinstance(body[0].value.func.value, ast.Name) and body[0].value.func.value.id == 'self' and \
                    body[0].value.func.attr == 'compile' and len(body[0].value.args) == 3:
                # `self.compile` is compile_regex behind functools.lru_cache (the cache is transparent: C03)
                name = 'v_' + body[0].targets[0].id
                env2 = dict(env)
                env2[body[0].targets[0].id] = '(pure %s)' % name
                a = [self.expr(x, env, cname) for x in body[0].value.args]
                return '(tryCompileM %s %s %s\n      %s\n      (fun %s => %s))' % (
                    a[0], a[1], a[2], self.block(h.body + rest, env, cname, end, brk), name,
                    self.block(rest, env2, cname, end, brk))
            if h.type.id == 'Exception' and all(isinstance(r, ast.Return) and isinstance(r.value, ast.Name) for r in rest):
                # what follows the try statement only returns a name: it cannot raise, so it may move into both arms
                return '(catchAllM %s\n      %s)' % (self.block(s.body + rest, env, cname, end, brk),
                                                     self.block(h.body + rest, env, cname, end, brk))
            if h.type.id == 'Exception' and not rest and len(body) == 1 and isinstance(body[0], ast.Return):
                # `try: return E  except Exception: HANDLER` as the last statement
                return '(catchAllM %s\n      %s)' % (self.block(body, env, cname, end, brk),
                                                     self.block(h.body, env, cname, end, brk))
            raise Untranslatable('try / except ' + h.type.id)
        if getattr(self, 'effect_mode', None) == 'store':
            def is_policies(n):
                return isinstance(n, ast.Attribute) and n.attr == 'policies' and isinstance(n.value, ast.Name) and n.value.id == 'self'

            def fresh_world():
                self.fresh += 1
                w = 'w%d' % self.fresh
                env2 = dict(env)
                env2['__w'] = '(pure %s)' % w
                return w, env2
            if isinstance(s, ast.With) and len(s.items) == 1 and s.items[0].optional_vars is None and \
                    isinstance(s.items[0].context_expr, ast.Attribute) and s.items[0].context_expr.attr == 'lock' and \
                    isinstance(s.items[0].context_expr.value, ast.Name) and s.items[0].context_expr.value.id == 'self':
                # `with self.lock:` - sequentially the body simply runs (what the lock is for is C14's subject)
                return self.block(s.body + rest, env, cname, end, brk)
            if isinstance(s, ast.Assign) and len(s.targets) == 1 and isinstance(s.targets[0], ast.Subscript) and \
                    is_policies(s.targets[0].value):
                w, env2 = fresh_world()
                return '(dictSetM %s %s %s fun %s =>\n      %s)' % (
                    self.expr(s.targets[0].slice, env, cname), self.expr(s.value, env, cname), env['__w'], w,
                    self.block(rest, env2, cname, end, brk))
            if isinstance(s, ast.Delete) and len(s.targets) == 1 and isinstance(s.targets[0], ast.Subscript) and \
                    is_policies(s.targets[0].value):
                w, env2 = fresh_world()
                return '(dictDelM %s %s fun %s =>\n      %s)' % (self.expr(s.targets[0].slice, env, cname), env['__w'], w,
                                                               self.block(rest, env2, cname, end, brk))
            if isinstance(s, ast.Raise) and isinstance(s.exc, ast.Call) and isinstance(s.exc.func, ast.Name):
                return '(raiseWorldM "%s" %s)' % (s.exc.func.id, env['__w'])
            if isinstance(s, ast.Expr) and isinstance(s.value, ast.Call) and isinstance(s.value.func, ast.Attribute) and \
                    s.value.func.attr == '_check_limit_and_offset' and isinstance(s.value.func.value, ast.Name) and \
                    s.value.func.value.id == 'self' and len(s.value.args) == 2 and not s.value.keywords:
                # a call of the helper translated next to this method (check_limit_and_offset_Storage)
                w, env2 = fresh_world()
                return ('(callProcM (bindM %s fun a_limit => bindM %s fun a_offset => bindM %s fun a_w =>\n      '
                        'check_limit_and_offset_Storage a_limit a_offset a_w) fun _r %s =>\n      %s)' % (
                            self.expr(s.value.args[0], env, cname), self.expr(s.value.args[1], env, cname), env['__w'], w,
                            self.block(rest, env2, cname, end, brk)))
        if getattr(self, 'effect_mode', None) == 'store' and isinstance(s, ast.Expr) and isinstance(s.value, ast.Call) and \
                isinstance(s.value.func, ast.Attribute) and s.value.func.attr == 'notify' and not s.value.args and \
                isinstance(s.value.func.value, ast.Name) and s.value.func.value.id == 'self':
            # self.notify(): an effect on the world (the listeners are told)
            self.fresh += 1
            w = 'w%d' % self.fresh
            env2 = dict(env)
            env2['__w'] = '(pure %s)' % w
            return '(notifyM %s fun %s =>\n      %s)' % (env['__w'], w, self.block(rest, env2, cname, end, brk))
        if isinstance(s, ast.Return) and getattr(self, 'effect_mode', None) == 'store':
            # a method that acts on a world returns its value together with the world
            return '(pairM %s %s)' % (self.expr(s.value, env, cname) if s.value is not None else 'cNone', env['__w'])
        if isinstance(s, ast.Return):
            return self.expr(s.value, env, cname) if s.value is not None else 'cNone'
        if isinstance(s, ast.Raise):
            return 'raiseM'
        if isinstance(s, ast.If):
            return '(iteM %s\n      %s\n      %s)' % (self.expr(s.test, env, cname),
                                                     self.block(s.body + rest, env, cname, end, brk),
                                                     self.block(s.orelse + rest, env, cname, end, brk))
        if isinstance(s, ast.Assign) and len(s.targets) == 1 and isinstance(s.targets[0], ast.Tuple) and \
                isinstance(s.value, ast.Tuple) and len(s.targets[0].elts) == len(s.value.elts) and \
                all(isinstance(t, ast.Name) for t in s.targets[0].elts) and \
                all(isinstance(v, ast.Constant) or (isinstance(v, ast.List) and not v.elts) or
                    (isinstance(v, ast.Name) and v.id not in [t.id for t in s.targets[0].elts]) for v in s.value.elts):
            # a, b = c1, c2 with constants (or names that are not assigned here) on the right: the order of the single
            # assignments cannot matter
            singles = [ast.Assign(targets=[t], value=v) for t, v in zip(s.targets[0].elts, s.value.elts)]
            return self.block(singles + rest, env, cname, end, brk)
        if '__w' in env and isinstance(s, ast.Expr) and isinstance(s.value, ast.Call) and \
                isinstance(s.value.func, ast.Attribute) and s.value.func.attr in ('up', 'down') and not s.value.args and \
                isinstance(s.value.func.value, ast.Name) and s.value.func.value.id in env:
            # m.up() / m.down(): a step body - an effect on the world that may raise (which ends the request)
            self.fresh += 1
            w = 'w%d' % self.fresh
            env2 = dict(env)
            env2['__w'] = '(pure %s)' % w
            return '(stepBodyM .%s %s %s fun %s =>\n      %s)' % (s.value.func.attr, env[s.value.func.value.id], env['__w'], w,
                                                                 self.block(rest, env2, cname, end, brk))
        if '__w' in env and isinstance(s, ast.Expr) and isinstance(s.value, ast.Call) and \
                isinstance(s.value.func, ast.Attribute) and s.value.func.attr == 'save_applied_number' and \
                isinstance(s.value.func.value, ast.Name) and s.value.func.value.id == 'self' and len(s.value.args) == 1:
            self.fresh += 1
            w = 'w%d' % self.fresh
            env2 = dict(env)
            env2['__w'] = '(pure %s)' % w
            return '(saveAppliedM %s %s fun %s =>\n      %s)' % (self.expr(s.value.args[0], env, cname), env['__w'], w,
                                                               self.block(rest, env2, cname, end, brk))
        if isinstance(s, ast.Delete) and len(s.targets) == 1 and isinstance(s.targets[0], ast.Subscript) and \
                isinstance(s.targets[0].value, ast.Name) and s.targets[0].value.id in env and s.targets[0].value.id != 'self':
            # del d[k] on a local dictionary: the new value of d
            tgt = s.targets[0].value.id
            s = ast.Assign(targets=[ast.Name(id=tgt, ctx=ast.Store())],
                           value=ast.Call(func=ast.Name(id='__delitem__', ctx=ast.Load()),
                                          args=[ast.Name(id=tgt, ctx=ast.Load()), s.targets[0].slice], keywords=[]))
        if isinstance(s, ast.Assign) and len(s.targets) == 1 and isinstance(s.targets[0], ast.Subscript) and \
                isinstance(s.targets[0].value, ast.Name) and s.targets[0].value.id in env and s.targets[0].value.id != 'self':
            tgt = s.targets[0].value.id
            s = ast.Assign(targets=[ast.Name(id=tgt, ctx=ast.Store())],
                           value=ast.Call(func=ast.Name(id='__setitem__', ctx=ast.Load()),
                                          args=[ast.Name(id=tgt, ctx=ast.Load()), s.targets[0].slice, s.value], keywords=[]))
        if getattr(self, 'effect_mode', None) == 'parser' and isinstance(s, ast.Expr) and isinstance(s.value, ast.Call) and \
                isinstance(s.value.func, ast.Attribute) and s.value.func.attr == 'insert' and len(s.value.args) == 2 and \
                isinstance(s.value.func.value, ast.Name) and s.value.func.value.id in getattr(self, 'write_only', ()):
            # xs.insert(i, x) on a list that is never read: the two arguments are evaluated (they may raise), nothing else
            return '(bindM %s fun _ =>\n      (bindM %s fun _ =>\n      %s))' % (
                self.expr(s.value.args[0], env, cname), self.expr(s.value.args[1], env, cname),
                self.block(rest, env, cname, end, brk))
        if isinstance(s, ast.Expr) and isinstance(s.value, ast.Call) and isinstance(s.value.func, ast.Attribute) and \
                s.value.func.attr == 'append' and isinstance(s.value.func.value, ast.Name) and \
                s.value.func.value.id in env and len(s.value.args) == 1:
            # xs.append(e) on a local list: the new value of xs
            tgt = s.value.func.value.id
            s = ast.Assign(targets=[ast.Name(id=tgt, ctx=ast.Store())],
                           value=ast.Call(func=ast.Name(id='__append__', ctx=ast.Load()),
                                          args=[ast.Name(id=tgt, ctx=ast.Load()), s.value.args[0]], keywords=[]))
        if isinstance(s, ast.Assign) and len(s.targets) == 1 and isinstance(s.targets[0], ast.Subscript) and \
                isinstance(s.targets[0].value, ast.Attribute) and s.targets[0].value.attr == '__dict__' and \
                isinstance(s.targets[0].value.value, ast.Name) and s.targets[0].value.value.id in env:
            tgt = s.targets[0].value.value.id
            name = 'v_' + tgt
            val = '(setDictItemM %s %s %s)' % (env[tgt], self.expr(s.targets[0].slice, env, cname),
                                               self.expr(s.value, env, cname))
            env2 = dict(env)
            env2[tgt] = '(pure %s)' % name
            return '(bindM %s fun %s =>\n      %s)' % (val, name, self.block(rest, env2, cname, end, brk))
        if isinstance(s, ast.AugAssign) and isinstance(s.target, ast.Name) and isinstance(s.op, ast.Add):
            s = ast.Assign(targets=[ast.Name(id=s.target.id, ctx=ast.Store())],
                           value=ast.BinOp(left=ast.Name(id=s.target.id, ctx=ast.Load()), op=ast.Add(), right=s.value))
        if isinstance(s, ast.Assign) and len(s.targets) == 1 and isinstance(s.targets[0], ast.Name):
            name = 'v_' + s.targets[0].id
            val = 'cEmptyPyList' if (isinstance(s.value, ast.List) and not s.value.elts) else self.expr(s.value, env, cname)
            env2 = dict(env)
            env2[s.targets[0].id] = '(pure %s)' % name
            return '(bindM %s fun %s =>\n      %s)' % (val, name, self.block(rest, env2, cname, end, brk))
        if isinstance(s, ast.Assign) and len(s.targets) > 1 and all(isinstance(t, ast.Name) for t in s.targets):
            # a = b = c = E
            first = ast.Assign(targets=[s.targets[0]], value=s.value)
            others = [ast.Assign(targets=[t], value=ast.Name(id=s.targets[0].id, ctx=ast.Load())) for t in s.targets[1:]]
            return self.block([first] + others + rest, env, cname, end, brk)
        raise Untranslatable('statement ' + type(s).__name__)

    def rule(self, cname):
        f = self.method(cname, 'satisfied')
        if f is None:
            raise Untranslatable('no satisfied method')
        params = [a.arg for a in f.args.args]
        if params[:1] != ['self'] or len(params) != 3:
            raise Untranslatable('signature %r' % params)
        self.attrs, self.fresh = set(), 0
        env = {params[1]: '(pure what)', params[2]: '(pure inquiry)'}
        body = self.block(f.body, env, cname)
        attrs = sorted(self.attrs)
        sig = ' '.join('(self_%s : V)' % a for a in attrs)
        return attrs, 'def sat_%s %s (what inquiry : V) : M :=\n    %s\n' % (cname, sig, body)

    def checker_method(self, cname, mname):
        """a method `mname(self, a, b, ...)` of a checker class: one Lean parameter per Python parameter"""
        f = self.method(cname, mname)
        if f is None:
            raise Untranslatable('no %s method' % mname)
        params = [a.arg for a in f.args.args]
        static = any(isinstance(d, ast.Name) and d.id == 'staticmethod' for d in f.decorator_list)
        if not static:
            if params[:1] != ['self']:
                raise Untranslatable('signature %r' % params)
            params = params[1:]
        self.attrs, self.fresh = set(), 0
        env = {p: '(pure p_%s)' % p for p in params}
        body = self.block(f.body, env, cname)
        attrs = sorted(self.attrs)
        self.emitted[mname] = attrs
        sig = ' '.join(['self_%s' % a for a in attrs] + ['p_%s' % p for p in params])
        return '%s_%s (%s : V) : M :=\n    %s\n' % (mname.lstrip('_'), cname, sig, body)


def translate(repo):
    out = ['import Model.PyPrim', '/-! GENERATED by harness/pytolean.py from vakt/rules/*.py - do not edit -/',
           'set_option linter.unusedVariables false', 'namespace Vakt.GenRules', 'open Vakt Vakt.PyPrim', '']
    translated, untranslated = [], []
    for mod in MODULES:
        path = os.path.join(repo, 'vakt', 'rules', mod + '.py')
        tree = ast.parse(open(path).read())
        tr = Translator(tree)
        names = []
        for n in tree.body:
            if isinstance(n, ast.Assign) and any(isinstance(t, ast.Name) and t.id == '__all__' for t in n.targets):
                names = [e.value for e in n.value.elts if isinstance(e, ast.Constant)]
        for cname in names:
            if cname not in tr.classes:
                continue
            try:
                attrs, text = tr.rule(cname)
                out.append('/-- `vakt.rules.%s.%s.satisfied` -/' % (mod, cname))
                out.append(text)
                translated.append((mod, cname, attrs))
            except Untranslatable as e:
                untranslated.append((mod, cname, str(e)))
    out.append('/-- the rules whose bodies were translated, with the instance attributes they read -/')
    out.append('def translated : List (String × List String) := [%s]' % ', '.join(
        '("%s.%s", [%s])' % (m, c, ', '.join('"%s"' % a for a in attrs)) for m, c, attrs in translated))
    out.append('/-- rules outside the translated fragment, with the first construct that is outside it -/')
    out.append('def untranslated : List (String × String) := [%s]' % ', '.join(
        '("%s.%s", "%s")' % (m, c, r.replace('"', "'")) for m, c, r in untranslated))
    out.append('')
    out.append('end Vakt.GenRules')
    return '\n'.join(out) + '\n', translated, untranslated


def translate_checkers(repo):
    out = ['import Model.PyPrim', '/-! GENERATED by harness/pytolean.py from vakt/checker.py - do not edit -/',
           'set_option linter.unusedVariables false', 'namespace Vakt.GenCheckers', 'open Vakt Vakt.PyPrim', '']
    checkers, unchecked = [], []
    ctree = ast.parse(open(os.path.join(repo, 'vakt', 'checker.py')).read())
    ctr = Translator(ctree)
    for cname in CHECKER_CLASSES:
        try:
            pre = []
            for helper in CHECKER_HELPERS.get(cname, []):
                pre.append('/-- `vakt.checker.%s.%s` -/' % (cname, helper))
                pre.append('def ' + ctr.checker_method(cname, helper))
            text = ctr.checker_method(cname, 'fits')
            out.extend(pre)
            out.append('/-- `vakt.checker.%s.fits` -/' % cname)
            out.append('def ' + text)
            checkers.append(cname)
        except Untranslatable as e:
            unchecked.append((cname, str(e)))
    out.append('/-- the checker classes whose `fits` was translated -/')
    out.append('def translatedCheckers : List String := [%s]' % ', '.join('"%s"' % c for c in checkers))
    out.append('def untranslatedCheckers : List (String × String) := [%s]' % ', '.join(
        '("%s", "%s")' % (c, r.replace('"', "'")) for c, r in unchecked))
    out.append('')
    out.append('end Vakt.GenCheckers')
    return '\n'.join(out) + '\n', [('checker', c, []) for c in checkers], [('checker', c, r) for c, r in unchecked]


PARSER_FUNCTIONS = ['get_tag_indices', 'compile_regex']


AUDIT_MSG_CLASSES = ['PoliciesNopMsg', 'PoliciesUidMsg', 'PoliciesDescriptionMsg', 'PoliciesCountMsg']


def translate_audit_msgs(repo):
    out = ['import Model.PyPrim', '/-! GENERATED by harness/pytolean.py from vakt/audit.py - do not edit -/',
           'set_option linter.unusedVariables false', 'namespace Vakt.GenAuditMsg', 'open Vakt Vakt.PyPrim', '']
    done, failed = [], []
    tr = Translator(ast.parse(open(os.path.join(repo, 'vakt', 'audit.py')).read()))
    for c in AUDIT_MSG_CLASSES:
        try:
            f = tr.method(c, '__str__')
            if f is None:
                raise Untranslatable('no __str__')
            tr.attrs, tr.fresh = set(), 0
            body = tr.block(f.body, {}, c)
            attrs = sorted(tr.attrs)
            out.append('/-- `vakt.audit.%s.__str__` -/' % c)
            out.append('def str_%s %s: M :=\n    %s\n' % (c, ('(%s : V) ' % ' '.join('self_%s' % a for a in attrs)) if attrs else '', body))
            done.append(c)
        except Untranslatable as e:
            failed.append((c, str(e)))
    out.append('def translatedAuditMsgs : List String := [%s]' % ', '.join('"%s"' % c for c in done))
    out.append('def untranslatedAuditMsgs : List (String × String) := [%s]' % ', '.join(
        '("%s", "%s")' % (c, r.replace('"', "'")) for c, r in failed))
    out.append('')
    out.append('end Vakt.GenAuditMsg')
    return '\n'.join(out) + '\n', [('audit', c, []) for c in done], [('audit', c, r) for c, r in failed]


GUARD_AUDIT_METHODS = ['check_policies_allow', 'is_allowed_check', 'is_allowed']


def translate_inquiry(repo):
    out = ['import Model.PyPrim', '/-! GENERATED by harness/pytolean.py from vakt/guard.py (class Inquiry) - do not edit -/',
           'set_option linter.unusedVariables false', 'namespace Vakt.GenInquiry', 'open Vakt Vakt.PyPrim', '']
    done, failed = [], []
    tr = Translator(ast.parse(open(os.path.join(repo, 'vakt', 'guard.py')).read()))
    try:
        f = tr.method('Inquiry', '__init__')
        params = [a.arg for a in f.args.args]
        tr.attrs, tr.fresh = set(), 0
        tr.effect_mode = 'obj'
        env = {p: '(pure p_%s)' % p for p in params}
        body = tr.block(f.body, env, 'Inquiry', end=lambda e: '(pairM cNone %s)' % e['self'])
        out.append('/-- `vakt.guard.Inquiry.__init__` (the attribute writes as effects on the object being initialised) -/')
        out.append('def init_Inquiry (%s : V) : M :=\n    %s\n' % (' '.join('p_%s' % p for p in params), body))
        done.append('__init__')
    except Untranslatable as e:
        failed.append(('__init__', str(e)))
    out.append('def translatedInquiry : List String := [%s]' % ', '.join('"%s"' % c for c in done))
    out.append('def untranslatedInquiry : List (String × String) := [%s]' % ', '.join(
        '("%s", "%s")' % (c, r.replace('"', "'")) for c, r in failed))
    out.append('')
    out.append('end Vakt.GenInquiry')
    return '\n'.join(out) + '\n', [('inquiry', c, []) for c in done], [('inquiry', c, r) for c, r in failed]


def translate_guard_audit(repo):
    out = ['import Gen.Guard', '/-! GENERATED by harness/pytolean.py from vakt/guard.py - do not edit.  The decision methods once more, '
           'this time with what they write to the audit log and to the decision log made explicit as effects on a world value -/',
           'set_option linter.unusedVariables false', 'namespace Vakt.GenGuardAudit', 'open Vakt Vakt.PyPrim Vakt.GenGuard', '']
    done, failed = [], []
    tr = Translator(ast.parse(open(os.path.join(repo, 'vakt', 'guard.py')).read()))
    tr.checker_method('Guard', 'check_context_restriction')       # (pure: the definition of Gen/Guard.lean is used)
    tr.effect_mode = 'audit'
    tr.audit_emitted = {}
    for m in GUARD_AUDIT_METHODS:
        try:
            f = tr.method('Guard', m)
            params = [a.arg for a in f.args.args][1:]
            tr.attrs, tr.fresh = set(), 0
            env = {p: '(pure p_%s)' % p for p in params}
            env['__w'] = '(pure p_w)'
            body = tr.block(f.body, env, 'Guard', end=lambda e: '(pairM cNone %s)' % e['__w'])
            attrs = sorted(tr.attrs)
            tr.audit_emitted[m] = attrs
            out.append('/-- `vakt.guard.Guard.%s` with its log records (the last parameter is the log so far; the result is the '
                       'returned value with the log) -/' % m)
            out.append('def %s_GuardA (%s p_w : V) : M :=\n    %s\n' % (
                m, ' '.join(['self_%s' % a for a in attrs] + ['p_%s' % p for p in params]), body))
            done.append(m)
        except Untranslatable as e:
            failed.append((m, str(e)))
    out.append('def translatedGuardAudit : List String := [%s]' % ', '.join('"%s"' % c for c in done))
    out.append('def untranslatedGuardAudit : List (String × String) := [%s]' % ', '.join(
        '("%s", "%s")' % (c, r.replace('"', "'")) for c, r in failed))
    out.append('')
    out.append('end Vakt.GenGuardAudit')
    return '\n'.join(out) + '\n', [('guard-audit', c, []) for c in done], [('guard-audit', c, r) for c, r in failed]


def translate_parser(repo):
    out = ['import Model.PyPrim', '/-! GENERATED by harness/pytolean.py from vakt/parser.py - do not edit -/',
           'set_option linter.unusedVariables false', 'namespace Vakt.GenParser', 'open Vakt Vakt.PyPrim', '']
    done, failed = [], []
    tree = ast.parse(open(os.path.join(repo, 'vakt', 'parser.py')).read())
    tr = Translator(tree)
    for fname in PARSER_FUNCTIONS:
        try:
            f = tr.helpers[fname]
            params = [a.arg for a in f.args.args]
            tr.attrs, tr.fresh = set(), 0
            tr.effect_mode = 'parser'
            tr.parser_emitted = set(done)
            # local lists that are only ever the receiver of .insert(...): never read, so only the evaluation of what is inserted matters
            reads = [n.id for n in ast.walk(f) if isinstance(n, ast.Name) and isinstance(n.ctx, ast.Load)]
            inserts = [n.func.value.id for n in ast.walk(f) if isinstance(n, ast.Call) and isinstance(n.func, ast.Attribute) and
                       n.func.attr == 'insert' and isinstance(n.func.value, ast.Name)]
            tr.write_only = {x for x in set(inserts) if reads.count(x) == inserts.count(x)}
            env = {p: '(pure p_%s)' % p for p in params}
            body = tr.block(f.body, env, None)
            out.append('/-- `vakt.parser.%s` -/' % fname)
            out.append('def %s (%s : V) : M :=\n    %s\n' % (fname, ' '.join('p_%s' % p for p in params), body))
            done.append(fname)
        except (Untranslatable, KeyError) as e:
            failed.append((fname, str(e)))
    out.append('def translatedParser : List String := [%s]' % ', '.join('"%s"' % c for c in done))
    out.append('def untranslatedParser : List (String × String) := [%s]' % ', '.join(
        '("%s", "%s")' % (c, r.replace('"', "'")) for c, r in failed))
    out.append('')
    out.append('end Vakt.GenParser')
    return '\n'.join(out) + '\n', [('parser', c, []) for c in done], [('parser', c, r) for c, r in failed]


POLICY_METHODS = ['_calculate_type', '_check_field_type', '__setattr__', '__init__']


def translate_policy(repo):
    out = ['import Model.PyPrim', '/-! GENERATED by harness/pytolean.py from vakt/policy.py - do not edit -/',
           'set_option linter.unusedVariables false', 'namespace Vakt.GenPolicy', 'open Vakt Vakt.PyPrim', '']
    done, failed = [], []
    tr = Translator(ast.parse(open(os.path.join(repo, 'vakt', 'policy.py')).read()))
    for m in POLICY_METHODS:
        try:
            f = tr.method('Policy', m)
            params = [a.arg for a in f.args.args]
            tr.attrs, tr.fresh = set(), 0
            env = {p: '(pure p_%s)' % p for p in params}          # `self` is an ordinary (object) parameter here
            if m in ('__setattr__', '__init__'):
                # the object is what the method acts on: the two writes are effects, the result is (None, the object)
                tr.effect_mode = 'obj'
                body = tr.block(f.body, env, 'Policy', end=lambda e: '(pairM cNone %s)' % e['self'])
                tr.effect_mode = None
            else:
                body = tr.block(f.body, env, 'Policy')
            out.append('/-- `vakt.policy.Policy.%s` -/' % m)
            out.append('def %s_Policy (%s : V) : M :=\n    %s\n' % (m.strip('_'), ' '.join('p_%s' % p for p in params), body))
            done.append(m)
            tr.policy_emitted = getattr(tr, 'policy_emitted', set()) | {m}
        except Untranslatable as e:
            failed.append((m, str(e)))
    out.append('def translatedPolicy : List String := [%s]' % ', '.join('"%s"' % c for c in done))
    out.append('def untranslatedPolicy : List (String × String) := [%s]' % ', '.join(
        '("%s", "%s")' % (c, r.replace('"', "'")) for c, r in failed))
    out.append('')
    out.append('end Vakt.GenPolicy')
    return '\n'.join(out) + '\n', [('policy', c, []) for c in done], [('policy', c, r) for c, r in failed]


def translate_policy_json(repo):
    out = ['import Model.PyPrim', '/-! GENERATED by harness/pytolean.py from vakt/policy.py (Policy.from_json) - do not edit -/',
           'set_option linter.unusedVariables false', 'namespace Vakt.GenPolicyJson', 'open Vakt Vakt.PyPrim', '']
    done, failed = [], []
    tr = Translator(ast.parse(open(os.path.join(repo, 'vakt', 'policy.py')).read()))
    try:
        f = tr.method('Policy', 'from_json')
        params = [a.arg for a in f.args.args]
        tr.attrs, tr.fresh = set(), 0
        env = {p: '(pure p_%s)' % p for p in params}
        body = tr.block(f.body, env, 'Policy')
        out.append('/-- `vakt.policy.Policy.from_json` -/')
        out.append('def from_json_Policy (%s : V) : M :=\n    %s\n' % (' '.join('p_%s' % p for p in params), body))
        done.append('from_json')
    except Untranslatable as e:
        failed.append(('from_json', str(e)))
    out.append('def translatedPolicyJson : List String := [%s]' % ', '.join('"%s"' % c for c in done))
    out.append('def untranslatedPolicyJson : List (String × String) := [%s]' % ', '.join(
        '("%s", "%s")' % (c, r.replace('"', "'")) for c, r in failed))
    out.append('')
    out.append('end Vakt.GenPolicyJson')
    return '\n'.join(out) + '\n', [('policy-json', c, []) for c in done], [('policy-json', c, r) for c, r in failed]


MIGRATION_METHODS = ['_get_migrations', 'up', 'down']


def translate_migration(repo):
    out = ['import Model.PyPrim', '/-! GENERATED by harness/pytolean.py from vakt/storage/migration.py - do not edit -/',
           'set_option linter.unusedVariables false', 'namespace Vakt.GenMigration', 'open Vakt Vakt.PyPrim Vakt.Migration', '']
    done, failed = [], []
    tr = Translator(ast.parse(open(os.path.join(repo, 'vakt', 'storage', 'migration.py')).read()))
    for m in MIGRATION_METHODS:
        try:
            f = tr.method('MigrationSet', m)
            params = [a.arg for a in f.args.args]
            tr.attrs, tr.fresh = set(), 0
            env = {p: '(pure p_%s)' % p for p in params}
            env['__w'] = '(pure p_w)'
            # the method acts on a world (the store's recorded version and schema, the fault plan); it returns the world
            body = tr.block(f.body, env, 'MigrationSet', end=lambda e: e['__w'])
            if m == '_get_migrations':
                # no effect on the world: an ordinary function of its arguments
                body = tr.block(f.body, env, 'MigrationSet', end=lambda e: 'cNone')
                out.append('/-- `vakt.storage.migration.MigrationSet._get_migrations` -/')
                out.append('def get_migrations_MigrationSet (%s : V) : M :=\n    %s\n' % (' '.join('p_%s' % p for p in params), body))
                done.append(m)
                continue
            out.append('/-- `vakt.storage.migration.MigrationSet.%s` (its effects made explicit: the last parameter and the '
                       'result are the world it acts on) -/' % m)
            out.append('def %s_MigrationSet (%s p_w : V) : M :=\n    %s\n' % (m, ' '.join('p_%s' % p for p in params), body))
            done.append(m)
        except Untranslatable as e:
            failed.append((m, str(e)))
    out.append('def translatedMigration : List String := [%s]' % ', '.join('"%s"' % c for c in done))
    out.append('def untranslatedMigration : List (String × String) := [%s]' % ', '.join(
        '("%s", "%s")' % (c, r.replace('"', "'")) for c, r in failed))
    out.append('')
    out.append('end Vakt.GenMigration')
    return '\n'.join(out) + '\n', [('migration', c, []) for c in done], [('migration', c, r) for c, r in failed]


ENFOLD_METHODS = ['add', 'update', 'delete', 'get', 'get_all', 'populate', 'retrieve_all']


def translate_mongo_mig(repo):
    out = ['import Model.PyPrim', '/-! GENERATED by harness/pytolean.py from vakt/storage/mongo.py (MongoMigration._each_doc) - do not edit -/',
           'set_option linter.unusedVariables false', 'namespace Vakt.GenMongoMig', 'open Vakt Vakt.PyPrim', '']
    done, failed = [], []
    tr = Translator(ast.parse(open(os.path.join(repo, 'vakt', 'storage', 'mongo.py')).read()))
    tr.effect_mode = 'eachdoc'
    try:
        f = tr.method('MongoMigration', '_each_doc')
        params = [a.arg for a in f.args.args]
        tr.attrs, tr.fresh = set(), 0
        env = {p: '(pure p_%s)' % p for p in params}
        env['__w'] = '(pure p_w)'
        # the function returns None; what it reports (the documents it could not convert) is the value of `failed_policies` when it ends
        body = tr.block(f.body, env, 'MongoMigration', end=lambda e: '(pairM %s (pairM %s %s))' % (e.get('failed_policies', 'cNone'), e.get('__rep', 'cFalse'), e['__w']))
        out.append('/-- `vakt.storage.mongo.MongoMigration._each_doc` (the collection is the world; the result is the list of documents '
                   'that failed, whether the error-level report was written, and the world) -/')
        out.append('def each_doc_MongoMigration (%s p_w : V) : M :=\n    %s\n' % (' '.join('p_%s' % p for p in params), body))
        done.append('_each_doc')
    except Untranslatable as e:
        failed.append(('_each_doc', str(e)))
    out.append('def translatedMongoMig : List String := [%s]' % ', '.join('"%s"' % c for c in done))
    out.append('def untranslatedMongoMig : List (String × String) := [%s]' % ', '.join(
        '("%s", "%s")' % (c, r.replace('"', "'")) for c, r in failed))
    out.append('')
    out.append('end Vakt.GenMongoMig')
    return '\n'.join(out) + '\n', [('mongo-mig', c, []) for c in done], [('mongo-mig', c, r) for c, r in failed]


SQL_METHODS = ['add', 'get', 'update', 'delete']


def translate_sql(repo):
    out = ['import Model.PyPrim', '/-! GENERATED by harness/pytolean.py from vakt/storage/sql/__init__.py (class SQLStorage) - do not edit -/',
           'set_option linter.unusedVariables false', 'namespace Vakt.GenSql', 'open Vakt Vakt.PyPrim', '']
    done, failed = [], []
    try:
        tra = Translator(ast.parse(open(os.path.join(repo, 'vakt', 'storage', 'abc.py')).read()))
        tra.effect_mode = 'sql'
        f = tra.method('Storage', '_check_limit_and_offset')
        params = [a.arg for a in f.args.args]
        tra.attrs, tra.fresh = set(), 0
        env = {p: '(pure p_%s)' % p for p in params}
        env['__w'] = '(pure p_w)'
        body = tra.block(f.body, env, 'Storage', end=lambda e: '(pairM cNone %s)' % e['__w'])
        out.append('/-- `vakt.storage.abc.Storage._check_limit_and_offset`, as inherited by the SQL storage -/')
        out.append('def check_limit_and_offset_StorageS (%s p_w : V) : M :=\n    %s\n' % (' '.join('p_%s' % p for p in params), body))
        done.append('_check_limit_and_offset')
    except Untranslatable as e:
        failed.append(('_check_limit_and_offset', str(e)))
    tr = Translator(ast.parse(open(os.path.join(repo, 'vakt', 'storage', 'sql', '__init__.py')).read()))
    tr.effect_mode = 'sql'
    try:
        # get_all is itself a generator: the result is (the list of what it yields, the world)
        f = tr.method('SQLStorage', 'get_all')
        params = [a.arg for a in f.args.args]
        tr.attrs, tr.fresh = set(), 0
        tr._flush_handler = None
        env = {p: '(pure p_%s)' % p for p in params}
        env['__w'] = '(pure p_w)'
        env['__y'] = '(pure y0)'
        body = '(bindM cEmptyList fun y0 =>\n      %s)' % tr.block(f.body, env, 'SQLStorage',
                                                                    end=lambda e: '(pairM %s %s)' % (e['__y'], e['__w']))
        out.append('/-- `vakt.storage.sql.SQLStorage.get_all` - a generator: the list of what it yields, with the world -/')
        out.append('def get_all_SQLStorage (%s p_w : V) : M :=\n    %s\n' % (' '.join('p_%s' % p for p in params), body))
        done.append('get_all')
    except Untranslatable as e:
        failed.append(('get_all', str(e)))
    for m in SQL_METHODS:
        try:
            f = tr.method('SQLStorage', m)
            params = [a.arg for a in f.args.args]
            tr.attrs, tr.fresh = set(), 0
            tr._flush_handler = None
            env = {p: '(pure p_%s)' % p for p in params}
            env['__w'] = '(pure p_w)'
            body = tr.block(f.body, env, 'SQLStorage', end=lambda e: '(pairM cNone %s)' % e['__w'])
            if tr.attrs:
                raise Untranslatable('reads attributes %s' % sorted(tr.attrs))
            out.append('/-- `vakt.storage.sql.SQLStorage.%s` (the session calls as effects; the last parameter is the world, the result '
                       'the returned value with the world, or the world recording the exception) -/' % m)
            out.append('def %s_SQLStorage (%s p_w : V) : M :=\n    %s\n' % (m, ' '.join('p_%s' % p for p in params), body))
            done.append(m)
        except Untranslatable as e:
            failed.append((m, str(e)))
    out.append('def translatedSql : List String := [%s]' % ', '.join('"%s"' % c for c in done))
    out.append('def untranslatedSql : List (String × String) := [%s]' % ', '.join(
        '("%s", "%s")' % (c, r.replace('"', "'")) for c, r in failed))
    out.append('')
    out.append('end Vakt.GenSql')
    return '\n'.join(out) + '\n', [('sql', c, []) for c in done], [('sql', c, r) for c, r in failed]


MONGO_METHODS = ['add', 'get', 'update', 'delete', 'get_all']


def translate_mongo(repo):
    out = ['import Model.PyPrim', '/-! GENERATED by harness/pytolean.py from vakt/storage/mongo.py (class MongoStorage) - do not edit -/',
           'set_option linter.unusedVariables false', 'namespace Vakt.GenMongo', 'open Vakt Vakt.PyPrim', '']
    done, failed = [], []
    try:
        tra = Translator(ast.parse(open(os.path.join(repo, 'vakt', 'storage', 'abc.py')).read()))
        tra.effect_mode = 'mongo'
        f = tra.method('Storage', '_check_limit_and_offset')
        params = [a.arg for a in f.args.args]
        tra.attrs, tra.fresh = set(), 0
        env = {p: '(pure p_%s)' % p for p in params}
        env['__w'] = '(pure p_w)'
        body = tra.block(f.body, env, 'Storage', end=lambda e: '(pairM cNone %s)' % e['__w'])
        out.append('/-- `vakt.storage.abc.Storage._check_limit_and_offset`, as inherited by the MongoDB storage -/')
        out.append('def check_limit_and_offset_StorageM (%s p_w : V) : M :=\n    %s\n' % (' '.join('p_%s' % p for p in params), body))
        done.append('_check_limit_and_offset')
    except Untranslatable as e:
        failed.append(('_check_limit_and_offset', str(e)))
    tr = Translator(ast.parse(open(os.path.join(repo, 'vakt', 'storage', 'mongo.py')).read()))
    tr.effect_mode = 'mongo'
    try:
        f = tr.method('MongoStorage', '__feed_policies')
        params = [a.arg for a in f.args.args][1:]
        tr.attrs, tr.fresh = set(), 0
        env = {p: '(pure p_%s)' % p for p in params}
        env['__w'] = '(pure p_w)'
        env['__y'] = '(pure y0)'
        body = '(bindM cEmptyList fun y0 =>\n      %s)' % tr.block(f.body, env, 'MongoStorage', end=lambda e: e['__y'])
        out.append('/-- `vakt.storage.mongo.MongoStorage.__feed_policies` - a generator: the list of what it yields -/')
        out.append('def feed_policies_MongoStorage (%s : V) : M :=\n    %s\n' % (' '.join('p_%s' % p for p in params), body))
        done.append('__feed_policies')
    except Untranslatable as e:
        failed.append(('__feed_policies', str(e)))
    for m in MONGO_METHODS:
        try:
            f = tr.method('MongoStorage', m)
            params = [a.arg for a in f.args.args]
            tr.attrs, tr.fresh = set(), 0
            env = {p: '(pure p_%s)' % p for p in params}
            env['__w'] = '(pure p_w)'
            body = tr.block(f.body, env, 'MongoStorage', end=lambda e: '(pairM cNone %s)' % e['__w'])
            if tr.attrs:
                raise Untranslatable('reads attributes %s' % sorted(tr.attrs))
            out.append('/-- `vakt.storage.mongo.MongoStorage.%s` (the collection calls as effects; the last parameter is the world, the '
                       'result the returned value with the world, or the world recording the exception) -/' % m)
            out.append('def %s_MongoStorage (%s p_w : V) : M :=\n    %s\n' % (m, ' '.join('p_%s' % p for p in params), body))
            done.append(m)
        except Untranslatable as e:
            failed.append((m, str(e)))
    out.append('def translatedMongo : List String := [%s]' % ', '.join('"%s"' % c for c in done))
    out.append('def untranslatedMongo : List (String × String) := [%s]' % ', '.join(
        '("%s", "%s")' % (c, r.replace('"', "'")) for c, r in failed))
    out.append('')
    out.append('end Vakt.GenMongo')
    return '\n'.join(out) + '\n', [('mongo', c, []) for c in done], [('mongo', c, r) for c, r in failed]


REDIS_METHODS = ['add', 'get', 'update', 'delete', 'get_all', 'find_for_inquiry']


def translate_redis(repo):
    out = ['import Model.PyPrim', '/-! GENERATED by harness/pytolean.py from vakt/storage/redis.py (class RedisStorage) - do not edit -/',
           'set_option linter.unusedVariables false', 'namespace Vakt.GenRedis', 'open Vakt Vakt.PyPrim', '']
    done, failed = [], []
    try:
        tra = Translator(ast.parse(open(os.path.join(repo, 'vakt', 'storage', 'abc.py')).read()))
        tra.effect_mode = 'redis'
        f = tra.method('Storage', '_check_limit_and_offset')
        params = [a.arg for a in f.args.args]
        tra.attrs, tra.fresh = set(), 0
        env = {p: '(pure p_%s)' % p for p in params}
        env['__w'] = '(pure p_w)'
        body = tra.block(f.body, env, 'Storage', end=lambda e: '(pairM cNone %s)' % e['__w'])
        out.append('/-- `vakt.storage.abc.Storage._check_limit_and_offset`, as inherited by the Redis storage -/')
        out.append('def check_limit_and_offset_StorageR (%s p_w : V) : M :=\n    %s\n' % (' '.join('p_%s' % p for p in params), body))
        done.append('_check_limit_and_offset')
    except Untranslatable as e:
        failed.append(('_check_limit_and_offset', str(e)))
    tr = Translator(ast.parse(open(os.path.join(repo, 'vakt', 'storage', 'redis.py')).read()))
    tr.effect_mode = 'redis'
    try:
        f = tr.method('RedisStorage', '__feed_policies')
        params = [a.arg for a in f.args.args][1:]
        tr.attrs, tr.fresh = set(), 0
        env = {p: '(pure p_%s)' % p for p in params}
        env['__w'] = '(pure p_w)'
        env['__y'] = '(pure y0)'
        body = '(bindM cEmptyList fun y0 =>\n      %s)' % tr.block(f.body, env, 'RedisStorage', end=lambda e: e['__y'])
        out.append('/-- `vakt.storage.redis.RedisStorage.__feed_policies` - a generator: the list of what it yields (it only reads the '
                   'world: the serializer) -/')
        out.append('def feed_policies_RedisStorage (%s p_w : V) : M :=\n    %s\n' % (' '.join('p_%s' % p for p in params), body))
        done.append('__feed_policies')
    except Untranslatable as e:
        failed.append(('__feed_policies', str(e)))
    for m in REDIS_METHODS:
        try:
            f = tr.method('RedisStorage', m)
            params = [a.arg for a in f.args.args]
            tr.attrs, tr.fresh = set(), 0
            env = {p: '(pure p_%s)' % p for p in params}
            env['__w'] = '(pure p_w)'
            body = tr.block(f.body, env, 'RedisStorage', end=lambda e: '(pairM cNone %s)' % e['__w'])
            if tr.attrs:
                raise Untranslatable('reads attributes %s' % sorted(tr.attrs))
            out.append('/-- `vakt.storage.redis.RedisStorage.%s` (the client calls as effects on the hash; the last parameter is the '
                       'world, the result the returned value with the world, or the world recording the exception) -/' % m)
            out.append('def %s_RedisStorage (%s p_w : V) : M :=\n    %s\n' % (m, ' '.join('p_%s' % p for p in params), body))
            done.append(m)
        except Untranslatable as e:
            failed.append((m, str(e)))
    out.append('def translatedRedis : List String := [%s]' % ', '.join('"%s"' % c for c in done))
    out.append('def untranslatedRedis : List (String × String) := [%s]' % ', '.join(
        '("%s", "%s")' % (c, r.replace('"', "'")) for c, r in failed))
    out.append('')
    out.append('end Vakt.GenRedis')
    return '\n'.join(out) + '\n', [('redis', c, []) for c in done], [('redis', c, r) for c, r in failed]


MEMORY_METHODS = ['add', 'get', 'get_all', 'find_for_inquiry', 'update', 'delete']


def translate_memory(repo):
    out = ['import Model.PyPrim', '/-! GENERATED by harness/pytolean.py from vakt/storage/memory.py (class MemoryStorage) and '
           'vakt/storage/abc.py (Storage._check_limit_and_offset) - do not edit -/',
           'set_option linter.unusedVariables false', 'namespace Vakt.GenMemory', 'open Vakt Vakt.PyPrim', '']
    done, failed = [], []

    def one(tr, cls, m, lean_name, doc):
        try:
            f = tr.method(cls, m)
            params = [a.arg for a in f.args.args]
            if f.args.vararg or f.args.kwarg:
                raise Untranslatable('star parameters')
            tr.attrs, tr.fresh = set(), 0
            env = {p: '(pure p_%s)' % p for p in params}
            env['__w'] = '(pure p_w)'
            body = tr.block(f.body, env, cls, end=lambda e: '(pairM cNone %s)' % e['__w'])
            if tr.attrs:
                raise Untranslatable('reads attributes %s' % sorted(tr.attrs))
            out.append('/-- `%s` (the dictionary `self.policies` is the world the method acts on: the last parameter; the '
                       'result is the returned value with the world, or the world recording the exception) -/' % doc)
            out.append('def %s (%s p_w : V) : M :=\n    %s\n' % (lean_name, ' '.join('p_%s' % p for p in params), body))
            done.append((m, []))
        except Untranslatable as e:
            failed.append((m, str(e)))
    tr = Translator(ast.parse(open(os.path.join(repo, 'vakt', 'storage', 'abc.py')).read()))
    tr.effect_mode = 'store'
    one(tr, 'Storage', '_check_limit_and_offset', 'check_limit_and_offset_Storage', 'vakt.storage.abc.Storage._check_limit_and_offset')
    try:
        tr.effect_mode = 'gen'
        f = tr.method('Storage', 'retrieve_all')
        params = [a.arg for a in f.args.args]
        tr.attrs, tr.fresh = set(), 0
        env = {p: '(pure p_%s)' % p for p in params}
        env['__y'] = '(pure y0)'
        body = '(bindM cEmptyList fun y0 =>\n      %s)' % tr.block(f.body, env, 'Storage', end=lambda e: e['__y'])
        out.append('/-- `vakt.storage.abc.Storage.retrieve_all` - a generator: the result is the list of what it yields; `self` is '
                   'any storage (its `get_all`), `fuel` bounds the rounds of `while True` -/')
        out.append('def retrieve_all_Storage (fuel : Nat) (%s : V) : M :=\n    %s\n' % (' '.join('p_%s' % p for p in params), body))
        done.append(('retrieve_all', []))
    except Untranslatable as e:
        failed.append(('retrieve_all', str(e)))
    tr = Translator(ast.parse(open(os.path.join(repo, 'vakt', 'storage', 'memory.py')).read()))
    tr.effect_mode = 'store'
    for m in MEMORY_METHODS:
        one(tr, 'MemoryStorage', m, '%s_MemoryStorage' % m, 'vakt.storage.memory.MemoryStorage.%s' % m)
    out.append('def translatedMemory : List String := [%s]' % ', '.join('"%s"' % c for c, _ in done))
    out.append('def untranslatedMemory : List (String × String) := [%s]' % ', '.join(
        '("%s", "%s")' % (c, r.replace('"', "'")) for c, r in failed))
    out.append('')
    out.append('end Vakt.GenMemory')
    return '\n'.join(out) + '\n', [('memory', c, a) for c, a in done], [('memory', c, r) for c, r in failed]


OBSERVABLE_METHODS = ['add', 'update', 'delete', 'get', 'get_all', 'retrieve_all']


def translate_observable(repo):
    out = ['import Model.PyPrim', '/-! GENERATED by harness/pytolean.py from vakt/storage/observable.py (class ObservableMutationStorage) '
           '- do not edit -/',
           'set_option linter.unusedVariables false', 'namespace Vakt.GenObservable', 'open Vakt Vakt.PyPrim', '']
    done, failed = [], []
    tr = Translator(ast.parse(open(os.path.join(repo, 'vakt', 'storage', 'observable.py')).read()))
    tr.effect_mode = 'store'
    for m in OBSERVABLE_METHODS:
        try:
            f = tr.method('ObservableMutationStorage', m)
            params = [a.arg for a in f.args.args]
            if f.args.vararg and f.args.kwarg:
                params += [f.args.vararg.arg, f.args.kwarg.arg]        # the two collections, as values
            elif f.args.vararg or f.args.kwarg:
                raise Untranslatable('star parameters')
            tr.attrs, tr.fresh = set(), 0
            env = {p: '(pure p_%s)' % p for p in params}
            env['__w'] = '(pure p_w)'
            body = tr.block(f.body, env, 'ObservableMutationStorage', end=lambda e: '(pairM cNone %s)' % e['__w'])
            if tr.attrs:
                raise Untranslatable('reads attributes %s' % sorted(tr.attrs))
            out.append('/-- `vakt.storage.observable.ObservableMutationStorage.%s` (the call of the wrapped storage and the '
                       'notification made explicit as effects on a world) -/' % m)
            out.append('def %s_Observable (%s p_w : V) : M :=\n    %s\n' % (m, ' '.join('p_%s' % p for p in params), body))
            done.append(('Observable.' + m, []))
        except Untranslatable as e:
            failed.append(('Observable.' + m, str(e)))
    out.append('def translatedObservable : List String := [%s]' % ', '.join('"%s"' % c for c, _ in done))
    out.append('def untranslatedObservable : List (String × String) := [%s]' % ', '.join(
        '("%s", "%s")' % (c, r.replace('"', "'")) for c, r in failed))
    out.append('')
    out.append('end Vakt.GenObservable')
    return '\n'.join(out) + '\n', [('observable', c, a) for c, a in done], [('observable', c, r) for c, r in failed]


def translate_allowance(repo):
    out = ['import Model.PyPrim', '/-! GENERATED by harness/pytolean.py from vakt/cache.py (AllowanceCache.__init__) - do not edit -/',
           'set_option linter.unusedVariables false', 'namespace Vakt.GenAllowance', 'open Vakt Vakt.PyPrim', '']
    done, failed = [], []
    tr = Translator(ast.parse(open(os.path.join(repo, 'vakt', 'cache.py')).read()))
    tr.effect_mode = 'acache'
    try:
        f = tr.method('AllowanceCache', '__init__')
        if f.args.vararg or f.args.kwonlyargs or not f.args.kwarg:
            raise Untranslatable('another parameter list than (self, guard, cache_backend=None, **kwargs)')
        if [getattr(d, 'value', 0) for d in f.args.defaults] != [None]:
            raise Untranslatable('another default than cache_backend=None')
        params = [a.arg for a in f.args.args] + [f.args.kwarg.arg]           # the keyword collection, as a value
        tr.attrs, tr.fresh = set(), 0
        env = {p: '(pure p_%s)' % p for p in params}
        guard = params[1]
        body = tr.block(f.body, env, 'AllowanceCache', end=lambda e: '(pairM %s %s)' % (e['self'], e[guard]))
        if tr.attrs:
            raise Untranslatable('reads attributes %s' % sorted(tr.attrs))
        out.append('/-- `vakt.cache.AllowanceCache.__init__` (attribute writes as effects on the two objects it is given: the result is '
                   'the initialised cache object and the guard as it leaves) -/')
        out.append('def init_AllowanceCache (%s : V) : M :=\n    %s\n' % (' '.join('p_%s' % p for p in params), body))
        done.append('AllowanceCache.__init__')
    except Untranslatable as e:
        failed.append(('AllowanceCache.__init__', str(e)))
    try:
        f = tr.method('AllowanceCache', 'update')
        if f.args.vararg or f.args.kwonlyargs or f.args.kwarg or f.args.defaults or len(f.args.args) != 1:
            raise Untranslatable('parameters')
        tr.attrs, tr.fresh = set(), 0
        env = {'self': '(pure p_self)', '__out': '(pure p_out)'}
        body = tr.block(f.body, env, 'AllowanceCache', end=lambda e: '(pairM cNone %s)' % e['__out'])
        if tr.attrs:
            raise Untranslatable('reads attributes %s' % sorted(tr.attrs))
        out.append('/-- `vakt.cache.AllowanceCache.update` - what the publisher calls (the last parameter: the calls made out of the '
                   'method so far; the result: `None` with those calls) -/')
        out.append('def update_AllowanceCache (p_self p_out : V) : M :=\n    %s\n' % body)
        done.append('AllowanceCache.update')
    except Untranslatable as e:
        failed.append(('AllowanceCache.update', str(e)))
    out.append('def translatedAllowance : List String := [%s]' % ', '.join('"%s"' % c for c in done))
    out.append('def untranslatedAllowance : List (String × String) := [%s]' % ', '.join(
        '("%s", "%s")' % (c, r.replace('"', "'")) for c, r in failed))
    out.append('')
    out.append('end Vakt.GenAllowance')
    return '\n'.join(out) + '\n', [('allowance', c, []) for c in done], [('allowance', c, r) for c, r in failed]


SUBJECT_METHODS = ['__init__', 'add_listener', 'remove_listener', 'notify']


def translate_subject(repo):
    out = ['import Model.PyPrim', '/-! GENERATED by harness/pytolean.py from vakt/util.py (class Subject) - do not edit -/',
           'set_option linter.unusedVariables false', 'namespace Vakt.GenSubject', 'open Vakt Vakt.PyPrim', '']
    done, failed = [], []
    tr = Translator(ast.parse(open(os.path.join(repo, 'vakt', 'util.py')).read()))
    tr.effect_mode = 'subject'
    for m in SUBJECT_METHODS:
        try:
            f = tr.method('Subject', m)
            if f.args.vararg or f.args.kwarg or f.args.kwonlyargs or f.args.defaults:
                raise Untranslatable('parameters other than plain positional ones')
            params = [a.arg for a in f.args.args]
            tr.attrs, tr.fresh = set(), 0
            env = {p: '(pure p_%s)' % p for p in params}
            env['__w'] = '(pure p_w)'
            body = tr.block(f.body, env, 'Subject', end=lambda e: '(pairM cNone %s)' % e['__w'])
            if tr.attrs:
                raise Untranslatable('reads attributes %s' % sorted(tr.attrs))
            out.append('/-- `vakt.util.Subject.%s` (the world: the attached listeners and the `update()` calls made so far) -/' % m)
            out.append('def %s_Subject (%s p_w : V) : M :=\n    %s\n' % (m.strip('_'), ' '.join('p_%s' % p for p in params), body))
            done.append(('Subject.' + m, []))
        except Untranslatable as e:
            failed.append(('Subject.' + m, str(e)))
    out.append('def translatedSubject : List String := [%s]' % ', '.join('"%s"' % c for c, _ in done))
    out.append('def untranslatedSubject : List (String × String) := [%s]' % ', '.join(
        '("%s", "%s")' % (c, r.replace('"', "'")) for c, r in failed))
    out.append('')
    out.append('end Vakt.GenSubject')
    return '\n'.join(out) + '\n', [('subject', c, a) for c, a in done], [('subject', c, r) for c, r in failed]


def translate_enfold(repo):
    out = ['import Model.PyPrim', '/-! GENERATED by harness/pytolean.py from vakt/cache.py (class EnfoldCache) - do not edit -/',
           'set_option linter.unusedVariables false', 'namespace Vakt.GenEnfold', 'open Vakt Vakt.PyPrim', '']
    done, failed = [], []
    tr = Translator(ast.parse(open(os.path.join(repo, 'vakt', 'cache.py')).read()))
    tr.effect_mode = 'store'
    for m in ENFOLD_METHODS:
        try:
            f = tr.method('EnfoldCache', m)
            params = [a.arg for a in f.args.args]
            if f.args.vararg and f.args.kwarg:
                params += [f.args.vararg.arg, f.args.kwarg.arg]        # the two collections, as values
            elif f.args.vararg or f.args.kwarg:
                raise Untranslatable('star parameters')
            tr.attrs, tr.fresh = set(), 0
            env = {p: '(pure p_%s)' % p for p in params}
            env['__w'] = '(pure p_w)'
            body = tr.block(f.body, env, 'EnfoldCache', end=lambda e: '(pairM cNone %s)' % e['__w'])
            extra = ''.join(' self_%s' % a for a in sorted(tr.attrs))
            out.append('/-- `vakt.cache.EnfoldCache.%s` (the calls of the two storages made explicit as effects on a world: the last '
                       'parameter is the world, the result the returned value with the world) -/' % m)
            out.append('def %s_EnfoldCache (%s%s p_w : V) : M :=\n    %s\n' % (m, ' '.join('p_%s' % p for p in params), extra, body))
            done.append((m, sorted(tr.attrs)))
        except Untranslatable as e:
            failed.append((m, str(e)))
    out.append('def translatedEnfold : List String := [%s]' % ', '.join('"%s"' % c for c, _ in done))
    out.append('def untranslatedEnfold : List (String × String) := [%s]' % ', '.join(
        '("%s", "%s")' % (c, r.replace('"', "'")) for c, r in failed))
    out.append('')
    out.append('end Vakt.GenEnfold')
    return '\n'.join(out) + '\n', [('enfold', c, a) for c, a in done], [('enfold', c, r) for c, r in failed]


GUARD_METHODS = ['check_context_restriction', 'check_policies_allow', 'is_allowed_check']


def translate_guard(repo):
    out = ['import Model.PyPrim', '/-! GENERATED by harness/pytolean.py from vakt/guard.py - do not edit -/',
           'set_option linter.unusedVariables false', 'namespace Vakt.GenGuard', 'open Vakt Vakt.PyPrim', '']
    done, failed = [], []
    tr = Translator(ast.parse(open(os.path.join(repo, 'vakt', 'guard.py')).read()))
    for m in GUARD_METHODS:
        try:
            text = tr.checker_method('Guard', m)
            out.append('/-- `vakt.guard.Guard.%s` -/' % m)
            out.append('def ' + text)
            done.append(m)
        except Untranslatable as e:
            failed.append((m, str(e)))
    out.append('/-- the methods of `Guard` that were translated -/')
    out.append('def translatedGuard : List String := [%s]' % ', '.join('"%s"' % c for c in done))
    out.append('def untranslatedGuard : List (String × String) := [%s]' % ', '.join(
        '("%s", "%s")' % (c, r.replace('"', "'")) for c, r in failed))
    out.append('')
    out.append('end Vakt.GenGuard')
    return '\n'.join(out) + '\n', [('guard', c, []) for c in done], [('guard', c, r) for c, r in failed]


def _write(path, text):
    os.makedirs(os.path.dirname(path), exist_ok=True)
    old = open(path).read() if os.path.exists(path) else None
    if old != text:
        with open(path, 'w') as f:
            f.write(text)
    return old != text


def regenerate(repo, lean_dir):
    """(changed, translated, untranslated); never raises: a failure is written into the file as an empty translation"""
    path = os.path.join(lean_dir, 'Gen', 'Rules.lean')
    try:
        text, translated, untranslated = translate(repo)
    except Exception as e:     # e.g. a syntax error in a rule module: the equivalence theorems will not check
        text = ('import Model.PyPrim\n/-! GENERATED by harness/pytolean.py: translation failed: %s -/\n'
                'namespace Vakt.GenRules\ndef translated : List (String × List String) := []\n'
                'def untranslated : List (String × String) := []\nend Vakt.GenRules\n' % str(e).replace('-/', '- /')[:300])
        translated, untranslated = [], [('*', '*', str(e))]
    changed = _write(path, text)
    try:
        ctext, ctr, cun = translate_checkers(repo)
    except Exception as e:
        ctext = ('import Model.PyPrim\n/-! GENERATED by harness/pytolean.py: translation failed: %s -/\n'
                 'namespace Vakt.GenCheckers\ndef translatedCheckers : List String := []\n'
                 'def untranslatedCheckers : List (String × String) := []\nend Vakt.GenCheckers\n'
                 % str(e).replace('-/', '- /')[:300])
        ctr, cun = [], [('checker', '*', str(e))]
    changed = _write(os.path.join(lean_dir, 'Gen', 'Checkers.lean'), ctext) or changed
    try:
        gtext, gtr, gun = translate_guard(repo)
    except Exception as e:
        gtext = ('import Model.PyPrim\n/-! GENERATED by harness/pytolean.py: translation failed: %s -/\n'
                 'namespace Vakt.GenGuard\ndef translatedGuard : List String := []\n'
                 'def untranslatedGuard : List (String × String) := []\nend Vakt.GenGuard\n'
                 % str(e).replace('-/', '- /')[:300])
        gtr, gun = [], [('guard', '*', str(e))]
    changed = _write(os.path.join(lean_dir, 'Gen', 'Guard.lean'), gtext) or changed
    try:
        ptext, ptr, pun = translate_parser(repo)
    except Exception as e:
        ptext = ('import Model.PyPrim\n/-! GENERATED by harness/pytolean.py: translation failed: %s -/\n'
                 'namespace Vakt.GenParser\ndef translatedParser : List String := []\n'
                 'def untranslatedParser : List (String × String) := []\nend Vakt.GenParser\n'
                 % str(e).replace('-/', '- /')[:300])
        ptr, pun = [], [('parser', '*', str(e))]
    changed = _write(os.path.join(lean_dir, 'Gen', 'Parser.lean'), ptext) or changed
    try:
        otext, otr, oun = translate_policy(repo)
    except Exception as e:
        otext = ('import Model.PyPrim\n/-! GENERATED by harness/pytolean.py: translation failed: %s -/\n'
                 'namespace Vakt.GenPolicy\ndef translatedPolicy : List String := []\n'
                 'def untranslatedPolicy : List (String × String) := []\nend Vakt.GenPolicy\n'
                 % str(e).replace('-/', '- /')[:300])
        otr, oun = [], [('policy', '*', str(e))]
    changed = _write(os.path.join(lean_dir, 'Gen', 'Policy.lean'), otext) or changed
    try:
        mtext, mtr, mun = translate_migration(repo)
    except Exception as e:
        mtext = ('import Model.PyPrim\n/-! GENERATED by harness/pytolean.py: translation failed: %s -/\n'
                 'namespace Vakt.GenMigration\ndef translatedMigration : List String := []\n'
                 'def untranslatedMigration : List (String × String) := []\nend Vakt.GenMigration\n'
                 % str(e).replace('-/', '- /')[:300])
        mtr, mun = [], [('migration', '*', str(e))]
    changed = _write(os.path.join(lean_dir, 'Gen', 'Migration.lean'), mtext) or changed
    try:
        etext, etr, eun = translate_enfold(repo)
    except Exception as e:
        etext = ('import Model.PyPrim\n/-! GENERATED by harness/pytolean.py: translation failed: %s -/\n'
                 'namespace Vakt.GenEnfold\ndef translatedEnfold : List String := []\n'
                 'def untranslatedEnfold : List (String × String) := []\nend Vakt.GenEnfold\n'
                 % str(e).replace('-/', '- /')[:300])
        etr, eun = [], [('enfold', '*', str(e))]
    changed = _write(os.path.join(lean_dir, 'Gen', 'Enfold.lean'), etext) or changed
    more_tr, more_un = [], []
    for fn, ns, names, fname in ((translate_memory, 'GenMemory', ('translatedMemory', 'untranslatedMemory'), 'Memory.lean'),
                                 (translate_guard_audit, 'GenGuardAudit', ('translatedGuardAudit', 'untranslatedGuardAudit'),
                                  'GuardAudit.lean'),
                                 (translate_audit_msgs, 'GenAuditMsg', ('translatedAuditMsgs', 'untranslatedAuditMsgs'),
                                  'AuditMsg.lean'),
                                 (translate_inquiry, 'GenInquiry', ('translatedInquiry', 'untranslatedInquiry'), 'Inquiry.lean'),
                                 (translate_observable, 'GenObservable', ('translatedObservable', 'untranslatedObservable'),
                                  'Observable.lean'),
                                 (translate_subject, 'GenSubject', ('translatedSubject', 'untranslatedSubject'), 'Subject.lean'),
                                 (translate_allowance, 'GenAllowance', ('translatedAllowance', 'untranslatedAllowance'),
                                  'Allowance.lean'),
                                 (translate_policy_json, 'GenPolicyJson', ('translatedPolicyJson', 'untranslatedPolicyJson'),
                                  'PolicyJson.lean'),
                                 (translate_redis, 'GenRedis', ('translatedRedis', 'untranslatedRedis'), 'Redis.lean'),
                                 (translate_mongo, 'GenMongo', ('translatedMongo', 'untranslatedMongo'), 'Mongo.lean'),
                                 (translate_sql, 'GenSql', ('translatedSql', 'untranslatedSql'), 'Sql.lean'),
                                 (translate_mongo_mig, 'GenMongoMig', ('translatedMongoMig', 'untranslatedMongoMig'), 'MongoMig.lean')):
        try:
            xtext, xtr, xun = fn(repo)
        except Exception as e:
            xtext = ('import Model.PyPrim\n/-! GENERATED by harness/pytolean.py: translation failed: %s -/\n'
                     'namespace Vakt.%s\ndef %s : List String := []\n'
                     'def %s : List (String × String) := []\nend Vakt.%s\n'
                     % (str(e).replace('-/', '- /')[:300], ns, names[0], names[1], ns))
            xtr, xun = [], [(ns, '*', str(e))]
        changed = _write(os.path.join(lean_dir, 'Gen', fname), xtext) or changed
        more_tr += xtr
        more_un += xun
    return changed, translated + ctr + gtr + ptr + otr + mtr + etr + more_tr, \
        untranslated + cun + gun + pun + oun + mun + eun + more_un


if __name__ == '__main__':
    repo = sys.argv[1] if len(sys.argv) > 1 else os.environ.get('VAKT_REPO', '/repo')
    text, tr, un = translate(repo)
    if '--checkers' in sys.argv:
        text, tr, un = translate_checkers(repo)
    if '--guard' in sys.argv:
        text, tr, un = translate_guard(repo)
    if '--parser' in sys.argv:
        text, tr, un = translate_parser(repo)
    if '--policy' in sys.argv:
        text, tr, un = translate_policy(repo)
    if '--migration' in sys.argv:
        text, tr, un = translate_migration(repo)
    if '--inquiry' in sys.argv:
        text, tr, un = translate_inquiry(repo)
    if '--audit-msgs' in sys.argv:
        text, tr, un = translate_audit_msgs(repo)
    if '--guard-audit' in sys.argv:
        text, tr, un = translate_guard_audit(repo)
    if '--mongo-mig' in sys.argv:
        text, tr, un = translate_mongo_mig(repo)
    if '--sql' in sys.argv:
        text, tr, un = translate_sql(repo)
    if '--mongo' in sys.argv:
        text, tr, un = translate_mongo(repo)
    if '--redis' in sys.argv:
        text, tr, un = translate_redis(repo)
    if '--memory' in sys.argv:
        text, tr, un = translate_memory(repo)
    if '--policy-json' in sys.argv:
        text, tr, un = translate_policy_json(repo)
    if '--allowance' in sys.argv:
        text, tr, un = translate_allowance(repo)
    if '--subject' in sys.argv:
        text, tr, un = translate_subject(repo)
    if '--observable' in sys.argv:
        text, tr, un = translate_observable(repo)
    if '--enfold' in sys.argv:
        text, tr, un = translate_enfold(repo)
    sys.stdout.write(text)
    sys.stderr.write('translated %d, untranslated %d: %r\n' % (len(tr), len(un), un))
