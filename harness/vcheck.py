"""`./check Cxx [--tier quick|thorough] [--replay file]` - decide one property on /repo's working tree.

exit 0  the property held on everything explored (KNOWN-FINDING lines possible)
exit 1  a line `VIOLATION property=<id> replay=<path>` was printed
exit 2  the machinery itself is broken (never a verdict)
"""
import argparse
import importlib
import json
import os
import random
import sys
import time
import traceback

HERE = os.path.dirname(os.path.abspath(__file__))
sys.path.insert(0, HERE)
import warnings
warnings.simplefilter("ignore")
import common  # noqa: E402
from common import Broken, Failure, Outcome  # noqa: E402

sys.path.insert(0, common.REPO)


class Ctx:
    def __init__(self, pid, tier, seed, driver, replay=None, scale=1.0, salt=0):
        self.pid = pid
        self.tier = tier
        self.seed = seed
        self.scale = scale
        self.rng = random.Random((seed * 1000003) ^ hash_str(pid) ^ (salt * 7919))
        self.driver = driver
        self.replay = replay
        self.procs = min(16, os.cpu_count() or 1)

    def budget(self, quick, thorough):
        scale = float(os.environ.get('VERIF_BUDGET_SCALE', '1')) * self.scale
        return max(1, int((quick if self.tier == 'quick' else thorough) * scale))


def hash_str(s):
    h = 0
    for c in s:
        h = (h * 131 + ord(c)) & 0xFFFFFFFF
    return h


def main():
    ap = argparse.ArgumentParser()
    ap.add_argument('pid')
    ap.add_argument('--tier', default=os.environ.get('VERIF_TIER', 'quick'), choices=['quick', 'thorough'])
    ap.add_argument('--replay', default=None)
    args = ap.parse_args()
    pid = args.pid
    seed = int(os.environ.get('VERIF_SEED', '0') or 0)
    t0 = time.time()
    try:
        mod = importlib.import_module('props.%s' % pid.lower())
    except Exception as e:
        print('BROKEN: no usable check module for %s: %r' % (pid, e))
        traceback.print_exc()
        return 2

    try:
        import vakt  # noqa
        if not os.path.abspath(vakt.__file__).startswith(os.path.abspath(common.REPO)):
            raise Broken('vakt imported from %s' % vakt.__file__)
        vakt_import_error = None
    except Broken:
        raise
    except Exception as e:  # the working tree does not import: nothing can be decided
        vakt_import_error = e

    state = common.LeanState()
    try:
        hits = common.grep_forbidden()
        if hits:
            print('BROKEN: forbidden constructs in the Lean sources:\n  ' + '\n  '.join(hits))
            return 2
        common.lake_build(state, getattr(mod, 'EXTRA_BUILD', ()))
        theorems = list(mod.THEOREMS)
        gen_theorems = list(getattr(mod, 'GEN_THEOREMS', []))
        if state.build_ok:
            common.audit(state, pid, theorems, [mod.MODULE] + list(getattr(mod, 'EXTRA_IMPORTS', [])))
            if gen_theorems and state.extra_ok:
                # obligations over what was translated from /repo in this run (built as a separate target)
                common.audit(state, pid, gen_theorems, list(getattr(mod, 'GEN_IMPORTS', [])))
            theorems = theorems + gen_theorems
        unproved = []
        if not state.build_ok:
            unproved = ['(lake build failed)']
        else:
            for t in theorems:
                ax = state.axioms.get(t)
                if ax is None or not set(ax) <= common.ALLOWED_AXIOMS:
                    unproved.append(t)

        state.leanchecker = None
        if state.build_ok and args.tier == 'thorough' and not unproved:
            ok, log = common.leanchecker([mod.MODULE] + list(getattr(mod, 'EXTRA_IMPORTS', [])) +
                                         (list(getattr(mod, 'GEN_IMPORTS', [])) if state.extra_ok else []))
            state.leanchecker = 'ok' if ok else 'FAILED: ' + log[-400:]
            if not ok:
                unproved.append('(leanchecker rejected the compiled module)')

        if vakt_import_error is not None:
            print('BROKEN: /repo/vakt does not import: %r' % (vakt_import_error,))
            return 2

        driver = None
        if state.build_ok:
            driver = common.Driver()
        tier = args.tier
        tier_for_search = tier
        # a broken obligation triggers a wider failing-input search: four times the tier's budget
        ctx = Ctx(pid, tier_for_search, seed, driver, replay=args.replay, scale=4.0 if unproved else 1.0)
        ctx.tier_label = tier

        if args.replay:
            with open(args.replay) as f:
                rp = json.load(f)
            res = mod.replay(ctx, rp)
            print(json.dumps(res, indent=1, default=repr))
            return 1 if res.get('still_fails') else 0

        outcome = mod.run(ctx)
    except Broken as e:
        print('BROKEN: %s' % e)
        return 2
    except common.ImplDefect as e:
        # an object built through the public constructors is unusable: that construction is the failing input
        f = Failure('oracle', e.case, e.what, None, e.what, 'the property quantifies over policies built by the public '
                    'constructors; this one cannot even be inspected')
        f.signature = 'unusable-object'
        path = common.write_replay(pid, f, seed)
        print('VIOLATION property=%s replay=%s' % (pid, os.path.relpath(path, common.VERIF)))
        return 1
    except Exception as e:
        tb = traceback.extract_tb(e.__traceback__)
        inner = tb[-1].filename if tb else ''
        traceback.print_exc()
        # an object of a vakt class that lacks an attribute the harness reads (AttributeError.obj names the object)
        vakt_obj = isinstance(e, AttributeError) and \
            (getattr(type(getattr(e, 'obj', None)), '__module__', '') or '').split('.')[0] == 'vakt'
        if inner.startswith(os.path.join(common.REPO, 'vakt')) or vakt_obj:
            # the implementation raised where the harness (which passes on the pinned tree) has no reason to expect it:
            # the run cannot be completed, so no input is singled out, but the property is no longer shown to hold
            f = Failure('unproved', {'exception': '%s: %s' % (type(e).__name__, str(e)[:300]),
                                     'raised_in': '%s:%s %s' % (inner, tb[-1].lineno, tb[-1].name),
                                     'traceback': traceback.format_exception(e)[-12:]}, None, None, None,
                        'correspondence run aborted by an exception inside vakt / about an object of a vakt class',
                        text='the correspondence run could not be completed: vakt raised %s in %s (line %s); no failing '
                             'input could be searched for' % (type(e).__name__, tb[-1].name, tb[-1].lineno))
            path = common.write_replay(pid, f, seed)
            print('VIOLATION property=%s replay=%s no-failing-input-found' % (pid, os.path.relpath(path, common.VERIF)))
            return 1
        print('BROKEN: harness crashed')
        return 2

    # ---- verdict
    known = common.load_known()
    known_sigs = {k['signature']: k for k in known.get('known', []) if k.get('property') == pid}
    violations = []
    known_hits = {}
    for f in outcome.failures:
        sig = getattr(f, 'signature', None)
        if sig is not None and sig in known_sigs:
            known_hits.setdefault(sig, f)
        else:
            violations.append(f)
    for sig, f in sorted(known_hits.items()):
        print('KNOWN-FINDING: property=%s %s' % (pid, known_sigs[sig].get('what', sig)))

    exit_code = 0
    nviol = 0
    strong = [f for f in violations if not getattr(f, 'weak', False)]
    weak = [f for f in violations if getattr(f, 'weak', False)]
    if weak and not strong and tier_for_search == 'quick' and not args.replay:
        # a correspondence about something the property does not prescribe broke: search further (four times the
        # quick budget on fresh random inputs, direct oracles) for an input on which the property itself fails
        try:
            ctx2 = Ctx(pid, 'quick', seed, driver, scale=4.0, salt=1)
            ctx2.tier_label = tier
            deeper = mod.run(ctx2)
            for f in deeper.failures:
                sig = getattr(f, 'signature', None)
                if not getattr(f, 'weak', False) and not (sig is not None and sig in known_sigs):
                    strong.append(f)
            outcome.evaluations += deeper.evaluations
            outcome.extra['deeper_search_evaluations'] = deeper.evaluations
        except Broken as e:
            print('BROKEN: %s' % e)
            return 2
    if strong:
        violations = strong + weak
    if strong:
        strong.sort(key=lambda f: f.size)
        best = strong[0]
        path = common.write_replay(pid, best, seed, {'other_failures': len(violations) - 1,
                                                    'unproved_obligations': unproved})
        print('VIOLATION property=%s replay=%s' % (pid, os.path.relpath(path, common.VERIF)))
        nviol = len(violations)
        exit_code = 1
    elif weak:
        weak.sort(key=lambda f: f.size)
        best = weak[0]
        best.text = (best.text + ' ' if best.text else '') + (
            'CORRESPONDENCE NO LONGER CHECKS: %s (signature %s). The failing-input search (%d cases, direct oracles) '
            'found no input on which the implementation violates the property itself; the case recorded here is where '
            'model and implementation differ.' % (best.theorem, getattr(best, 'signature', '?'), outcome.evaluations))
        path = common.write_replay(pid, best, seed, {'other_failures': len(weak) - 1, 'unproved_obligations': unproved,
                                                    'correspondence_broken': sorted(set(
                                                        str(getattr(f, 'signature', '?')) for f in weak))})
        print('VIOLATION property=%s replay=%s no-failing-input-found' % (pid, os.path.relpath(path, common.VERIF)))
        nviol = len(weak)
        exit_code = 1
    elif unproved:
        f = Failure('unproved', {'unproved': unproved, 'build_log': state.build_log[-3000:],
                                 'audit_log': getattr(state, 'audit_log', '')[-2000:],
                                 'extract_error': state.extract_error},
                    None, None, None, ', '.join(unproved),
                    text='proof obligation(s) no longer check; the failing-input search (tier %s x4, %d cases) found no '
                         'input on which the implementation violates the property' % (tier_for_search,
                                                                                      outcome.evaluations))
        path = common.write_replay(pid, f, seed)
        print('VIOLATION property=%s replay=%s no-failing-input-found' % (pid, os.path.relpath(path, common.VERIF)))
        nviol = 1
        exit_code = 1

    floor = getattr(mod, 'FLOOR', {}).get(tier_for_search, 2)
    wall = time.time() - t0
    if not os.environ.get('VERIF_NO_EVIDENCE'):      # (set by tools/automut.py, which runs checks in parallel on scratch trees)
        common.write_evidence(pid, args.tier, seed, state, theorems, outcome, wall, nviol,
                              'cd /verif/lean && lake build && lake env lean <Audit: #print axioms of the %d theorems of %s>'
                              % (len(theorems), mod.MODULE),
                              extra_assumptions=getattr(mod, 'ASSUMPTIONS', []))
    if exit_code == 0 and len(outcome.nontrivial) < floor:
        print('BROKEN: inconclusive - only %d distinct non-trivial cases (floor %d)' % (len(outcome.nontrivial), floor))
        return 2
    print('%s %s: %d cases, %d distinct non-trivial, %d unmodelled, %d/%d theorems audited, %.1fs%s' % (
        pid, args.tier, outcome.evaluations, len(outcome.nontrivial), outcome.unmodelled,
        len(theorems) - len([u for u in unproved if not u.startswith('(')]) if state.build_ok else 0, len(theorems),
        wall, (', leanchecker %s' % state.leanchecker[:6] if getattr(state, 'leanchecker', None) else '') +
        ('' if exit_code == 0 else ' - VIOLATION')))
    return exit_code


if __name__ == '__main__':
    sys.exit(main())
