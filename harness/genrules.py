"""Target-first generators of rule trees, policy elements, policies and inquiries."""
from gen import (pick, gen_str, gen_value, gen_atom, gen_hashable, mutate_value, mutate_str, gen_num, gen_ip,
                 gen_cidr_for, regex_for, KEYS, WORDS, valid_ip)

LEAF_KINDS = ['eq', 'ne', 'gt', 'lt', 'ge', 'le', 'in', 'nin', 'allin', 'allnin', 'anyin', 'anynin', 'truthy',
              'falsy', 'any', 'neither', 'streq', 'starts', 'ends', 'contains', 'pairs', 'regex', 'cidr', 'match',
              'subjeq', 'acteq', 'resin', 'raise', 'const']


def proto_raise_names():
    import proto
    return proto.RAISE_NAMES


def _near(rng, what):
    """`what` itself, something equal to it, or a one-point mutation"""
    r = rng.random()
    if r < 0.5:
        return what
    if r < 0.6 and isinstance(what, list):
        return tuple(what)
    return mutate_value(rng, what)


def _hashable_of(rng, v):
    try:
        hash(v)
        return v
    except TypeError:
        if isinstance(v, list):
            try:
                t = tuple(v)
                hash(t)
                return t
            except TypeError:
                pass
        return gen_hashable(rng)


def gen_leaf(rng, what, inq=None, kind=None):
    kind = kind or pick(rng, LEAF_KINDS)
    if kind in ('eq', 'ne'):
        return (kind, _near(rng, what))
    if kind in ('gt', 'lt', 'ge', 'le'):
        r = rng.random()
        if r < 0.75:
            return (kind, _near(rng, what))
        return (kind, gen_value(rng, 1))
    if kind in ('in', 'nin'):
        data = [gen_hashable(rng) for _ in range(rng.randint(0, 3))]
        if rng.random() < 0.5:
            data.insert(rng.randint(0, len(data)), _hashable_of(rng, _near(rng, what)))
        return (kind, data)
    if kind in ('allin', 'allnin', 'anyin', 'anynin'):
        data = [gen_hashable(rng) for _ in range(rng.randint(0, 2))]
        if isinstance(what, list):
            for x in what:
                if rng.random() < 0.6:
                    data.append(_hashable_of(rng, x if rng.random() < 0.8 else mutate_value(rng, x)))
        rng.shuffle(data)
        return (kind, data)
    if kind in ('truthy', 'falsy', 'any', 'neither', 'pairs', 'subjeq', 'acteq', 'resin'):
        return (kind,)
    if kind == 'raise':
        return ('raise', pick(rng, proto_raise_names()))
    if kind == 'const':
        return ('const', rng.random() < 0.5)
    if kind in ('streq', 'starts', 'ends', 'contains'):
        ci = rng.random() < 0.5
        if isinstance(what, str):
            s = what
            if kind == 'starts' and s:
                s = s[:rng.randint(0, len(s))]
            elif kind == 'ends' and s:
                s = s[rng.randint(0, len(s)):]
            elif kind == 'contains' and s:
                i = rng.randint(0, len(s))
                j = rng.randint(i, len(s))
                s = s[i:j]
            r = rng.random()
            if r < 0.2:
                s = s.swapcase()
            elif r < 0.35:
                s = s.upper()
            elif r < 0.5:
                s = s.lower()
            elif r < 0.65:
                s = mutate_str(rng, s)
            if 'Σ' in s or 'ς' in s:
                s = s.replace('Σ', 'σ').replace('ς', 'σ')
            return (kind, s, ci)
        return (kind, gen_str(rng), ci)
    if kind == 'regex':
        from gen import MALFORMED_PATTERNS  # noqa
        base = None
        if what is None or isinstance(what, (bool, int, str)):
            base = str(what)
        if base is not None and rng.random() < 0.8:
            if isinstance(what, (int, bool)) and rng.random() < 0.5:
                return ('regex', pick(rng, ['^%s$', '%s$', '(%s)$']) % __import__('re').escape(base))
            return ('regex', regex_for(rng, base))
        return ('regex', regex_for(rng, gen_str(rng)))
    if kind == 'cidr':
        if isinstance(what, str) and rng.random() < 0.9:
            return ('cidr', gen_cidr_for(rng, what))
        return ('cidr', pick(rng, ['10.0.0.0/8', '0.0.0.0/0', '192.168.0.0/16']))
    if kind == 'match':
        f = pick(rng, ['s', 'a', 'r'])
        if rng.random() < 0.5:
            return ('match', f, None)
        attr = pick(rng, KEYS + [0, None, ('t',), 1.5]) if rng.random() < 0.85 else pick(rng, [['l'], {'d': 1}])
        if attr is None:
            return ('match', f, None)
        return ('match', f, ('attr', attr))
    raise ValueError(kind)


def deep_wrap(rng, rule):
    """the rule under 10-45 levels of Not / single-operand And / Or (an even number of Nots: same meaning)"""
    n = rng.randint(10, 45)
    nots = 0
    for i in range(n):
        c = rng.random()
        if c < 0.5:
            rule = ('not', rule)
            nots += 1
        else:
            rule = (pick(rng, ['and', 'or']), [rule])
    if nots % 2:
        rule = ('not', rule)
    return rule


def gen_rule(rng, what, inq=None, depth=2, kinds=None):
    r = rng.random()
    if depth >= 1 and kinds is None and rng.random() < 0.02:
        return deep_wrap(rng, gen_leaf(rng, what, inq))
    if depth <= 0 or r < 0.6:
        return gen_leaf(rng, what, inq, kind=pick(rng, kinds) if kinds else None)
    if r < 0.75:
        return ('not', gen_rule(rng, what, inq, depth - 1, kinds))
    n = pick(rng, [0, 1, 2, 2, 3])
    return (pick(rng, ['and', 'or']), [gen_rule(rng, what, inq, depth - 1, kinds) for _ in range(n)])


def rule_kinds(r, acc=None):
    acc = set() if acc is None else acc
    acc.add(r[0])
    if r[0] in ('and', 'or'):
        for x in r[1]:
            rule_kinds(x, acc)
    elif r[0] == 'not':
        rule_kinds(r[1], acc)
    return acc


def rule_depth(r):
    if r[0] in ('and', 'or'):
        return 1 + max([rule_depth(x) for x in r[1]] or [0])
    if r[0] == 'not':
        return 1 + rule_depth(r[1])
    return 0


# ------------------------------------------------------------------ inquiries

def gen_field_value(rng, dictish=None):
    """an inquiry field: scalar or attribute dictionary"""
    if dictish is None:
        dictish = rng.random() < 0.5
    if dictish:
        ks = rng.sample(KEYS[:6], rng.randint(1, 3))
        return {k: gen_value(rng, 1) for k in ks}
    r = rng.random()
    if r < 0.7:
        return gen_str(rng)
    return gen_value(rng, 1)


def gen_inquiry(rng, dictish=None):
    ctx = {}
    if rng.random() < 0.7:
        for k in rng.sample(KEYS[:6], rng.randint(0, 3)):
            ctx[k] = pick(rng, [gen_value(rng, 1), gen_ip(rng), gen_str(rng)])
    r = rng.random()
    if r < 0.04:
        ctx = pick(rng, [None, [], 'ctx', ['a'], 5, ()])
    return {'resource': gen_field_value(rng, dictish), 'action': gen_field_value(rng, dictish),
            'subject': gen_field_value(rng, dictish), 'context': ctx}


# ------------------------------------------------------------------ elements and policies

def gen_attr_elem(rng, what, inq, hit=None):
    """attribute-dictionary element aimed at the dict value `what`"""
    hit = rng.random() < 0.6 if hit is None else hit
    kvs = []
    if isinstance(what, dict) and what:
        ks = rng.sample(list(what), rng.randint(1, len(what)))
        for k in ks:
            kvs.append((k, gen_rule(rng, what[k], inq, 1) if not hit else _true_rule(rng, what[k], inq)))
    else:
        for k in rng.sample(KEYS[:5], rng.randint(0, 2)):
            kvs.append((k, gen_rule(rng, gen_atom(rng), inq, 1)))
    r = rng.random()
    if r < 0.12:
        kvs.append((pick(rng, KEYS), gen_rule(rng, gen_atom(rng), inq, 0)))     # probably a missing attribute
    elif r < 0.2:
        kvs.insert(rng.randint(0, len(kvs)), (pick(rng, KEYS + ['zz']), ('junk', pick(rng, [5, 'str', None]))))
    elif r < 0.25:
        kvs = []
    # keys distinct
    seen, out = set(), []
    for k, a in kvs:
        if k not in seen:
            seen.add(k)
            out.append((k, a))
    return ('A', out)


def _true_rule(rng, what, inq):
    """a rule that is (very probably) satisfied by `what`"""
    c = rng.random()
    if c < 0.4:
        return ('eq', what if not isinstance(what, tuple) else list(what))
    if c < 0.5:
        return ('any',)
    if c < 0.6:
        try:
            hash(what)
            return ('in', [what, 'zz'])
        except TypeError:
            return ('eq', what)
    if c < 0.7 and isinstance(what, str):
        return ('streq', what.swapcase(), True)
    if c < 0.8 and isinstance(what, str):
        return ('starts', what[:1], False)
    if c < 0.9:
        return ('or', [('neither',), ('eq', what)])
    return ('not', ('ne', what))


def gen_rule_elem(rng, what, inq):
    r = rng.random()
    if isinstance(what, dict) and r < 0.7:
        return gen_attr_elem(rng, what, inq)
    if r < 0.1:
        return gen_attr_elem(rng, what, inq)
    if r < 0.5:
        return ('R', _true_rule(rng, what, inq))
    return ('R', gen_rule(rng, what, inq, 2))


def wrap_tags(s, stag='<', etag='>'):
    return stag + s + etag


def _seg_regex(rng, base):
    """a regular expression for `base`; anchors (outside the modelled subset, judged by the direct oracle only) are
    kept in a quarter of the cases"""
    r = regex_for(rng, base)
    if rng.random() < 0.75:
        r = r.lstrip('^')
        while r.endswith('$') and not r.endswith('\\$'):
            r = r[:-1]
    return r


def gen_str_elem(rng, what, stag='<', etag='>'):
    """string element aimed at the (string) value `what` for the three string checkers"""
    import re
    base = what if isinstance(what, str) else gen_str(rng)
    r = rng.random()
    if r < 0.25:
        return ('S', base)
    if r < 0.33:
        return ('S', wrap_tags(base, stag, etag))
    if r < 0.35:
        return ('S', wrap_tags(wrap_tags(base, stag, etag), stag, etag))      # wrapped twice: the inner text keeps one pair
    if r < 0.5:
        # tagged regex over the whole value
        return ('S', wrap_tags(_seg_regex(rng, base).replace(stag, '').replace(etag, ''), stag, etag))
    if r < 0.65 and base:
        i = rng.randint(0, len(base))
        j = rng.randint(i, len(base))
        mid = _seg_regex(rng, base[i:j]).replace(stag, '').replace(etag, '')
        return ('S', base[:i] + wrap_tags(mid, stag, etag) + base[j:])
    if r < 0.72 and len(base) >= 2:
        i = rng.randint(0, len(base) - 1)
        j = rng.randint(i, len(base))
        k = rng.randint(j, len(base))
        l = rng.randint(k, len(base))
        if rng.random() < 0.4:
            i, l = 0, len(base)        # the element begins with a segment and ends with another one
            j = min(max(j, i), k)
        return ('S', base[:i] + wrap_tags(re.escape(base[i:j]).replace(stag, '.').replace(etag, '.'), stag, etag) +
                base[j:k] + wrap_tags(pick(rng, ['.*', re.escape(base[k:l]).replace(stag, '.').replace(etag, '.'), '.+']), stag, etag) + base[l:])
    if r < 0.8:
        return ('S', base + pick(rng, ['x', ' ', '\n', 's']) if rng.random() < 0.5 else pick(rng, ['x', ' ']) + base)
    if r < 0.88:
        return ('S', mutate_str(rng, base))
    if r < 0.93:
        return ('S', pick(rng, ['', stag, etag, stag + etag, stag + stag + base + etag, base + etag, stag + base,
                                stag + '[' + etag, stag + '*' + etag, stag + '(' + etag]))
    return ('S', gen_str(rng))


def gen_policy(rng, uid, inq, kind, stag='<', etag='>', effect=None, hit=None):
    """a policy aimed at the inquiry `inq`; kind in {'str', 'rule'}"""
    hit = rng.random() < 0.6 if hit is None else hit
    p = {'uid': uid, 'desc': pick(rng, [None, 'desc %s' % (uid,), '', "it's"]), 'stag': stag, 'etag': etag}
    if effect is None:
        # junk: case variants, padded, fragments and extensions of the two constants, other types
        x = rng.random()
        effect = 'allow' if x < 0.46 else 'deny' if x < 0.62 else \
            pick(rng, ['ALLOW', 'Allow', ' allow', 'allow ', None, '', 0, 1, True, 'permit', 'a', 'all', 'allo', 'low', 'llo',
                       'w', 'allowed', 'allowdeny', 'den', 'y', 'denyallow', 'allow\n'])
    p['effect'] = effect
    for fld, key in (('subjects', 'subject'), ('resources', 'resource'), ('actions', 'action')):
        what = inq[key]
        n = pick(rng, [0, 1, 1, 1, 2, 2, 3]) if not hit else pick(rng, [1, 1, 2, 3])
        es = []
        for _ in range(n):
            if kind == 'str':
                es.append(gen_str_elem(rng, what, stag, etag))
            else:
                es.append(gen_rule_elem(rng, what, inq))
        if hit and es and rng.random() < 0.8:
            # make one element (at a random position) match by construction
            i = rng.randrange(len(es))
            if kind == 'str':
                es[i] = ('S', what if isinstance(what, str) and stag not in what and etag not in what else 'zz')
            else:
                if isinstance(what, dict) and what and rng.random() < 0.7:
                    es[i] = gen_attr_elem(rng, what, inq, hit=True)
                else:
                    es[i] = ('R', _true_rule(rng, what, inq))
                    if rng.random() < 0.05:
                        # the deciding rule under many levels of logic rules (same meaning): a persistence path that
                        # truncates or flattens deep structures changes which inquiries the stored policy matches
                        es[i] = ('R', deep_wrap(rng, es[i][1]))
        p[fld] = es
    ctx = []
    if rng.random() < 0.4:
        qctx = inq['context'] if isinstance(inq['context'], dict) else {}
        keys = list(qctx)
        for _ in range(rng.randint(1, 2)):
            if keys and rng.random() < 0.8:
                k = pick(rng, keys)
                rule = _true_rule(rng, qctx[k], inq) if rng.random() < 0.6 else gen_rule(rng, qctx[k], inq, 1)
                if rng.random() < 0.04:
                    rule = deep_wrap(rng, rule)
            else:
                k = pick(rng, KEYS)
                rule = gen_rule(rng, gen_atom(rng), inq, 1)
            if rng.random() < 0.04:
                rule = ('junk', pick(rng, [5, 'notarule']))
            if k not in [x[0] for x in ctx]:
                ctx.append((k, rule))
    p['context'] = ctx
    return p
