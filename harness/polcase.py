"""Policy-set level cases shared by C01, C02, C03, C04, C06, C16, C17: generation, building the real
objects, protocol lines, the direct (model-free) oracle."""
import logging

import proto
from gen import pick, gen_str, gen_value
from genrules import gen_policy, gen_inquiry

from vakt.checker import RegexChecker, StringExactChecker, StringFuzzyChecker, RulesChecker
from vakt.guard import Guard
from vakt.storage.memory import MemoryStorage
from vakt.effects import ALLOW_ACCESS

logging.getLogger('vakt').setLevel(logging.CRITICAL)

CHECKERS = {'KR': RegexChecker, 'KX': StringExactChecker, 'KF': StringFuzzyChecker, 'KU': RulesChecker}
TAGS = [('<', '>')] * 7 + [('{', '}'), ('[', ']'), ('|', '|'), ('(', ')'), ('«', '»')]
UIDS = ['a', 'b', 'c', 'd', 'e', 'f', '1', '2', 1, 2, 3, 'uid-7', 'Ü', '', 0, ('t', 2), ('solo',)]


class UserRegexChecker(RegexChecker):
    """a user's own checker classes: subclasses that change nothing (a checker is recognised by what it is an instance of)"""


class UserExactChecker(StringExactChecker):
    pass


class UserFuzzyChecker(StringFuzzyChecker):
    pass


class UserRulesChecker(RulesChecker):
    pass


USER_CHECKERS = {'KR': UserRegexChecker, 'KX': UserExactChecker, 'KF': UserFuzzyChecker, 'KU': UserRulesChecker}
_made = [0]


def make_checker(k, cache=None):
    """the checker of kind k; every fifth one is an instance of a user subclass of the shipped class"""
    _made[0] += 1
    classes = USER_CHECKERS if _made[0] % 5 == 0 else CHECKERS
    if k == 'KR' and cache is not None:
        return classes[k](cache[0])
    return classes[k]()


def gen_store_case(rng, k=None, npol=None, store=None, inq=None):
    k = k or pick(rng, ['KR', 'KX', 'KF', 'KU'])
    store = store or pick(rng, ['str', 'rule', 'mixed'] if rng.random() < 0.3 else
                          (['rule'] if k == 'KU' else ['str']))
    dictish = None if k == 'KU' else (rng.random() < 0.06)
    inq = inq if inq is not None else gen_inquiry(rng, dictish=dictish)
    if k != 'KU' and rng.random() < 0.9:
        for f in ('resource', 'action', 'subject'):
            if not isinstance(inq[f], str):
                inq[f] = gen_str(rng)
    n = npol if npol is not None else pick(rng, [1, 2, 2, 3, 3, 4, 5, 6])
    uids = rng.sample(UIDS, n)
    pols = []
    for u in uids:
        kind = store if store != 'mixed' else pick(rng, ['str', 'rule'])
        st, et = pick(rng, TAGS) if kind == 'str' else ('<', '>')
        if '«' in (st, et):
            st, et = '<', '>'
        pols.append(gen_policy(rng, u, inq, kind, st, et))
    return {'k': k, 'policies': pols, 'inquiry': inq}


def build_case(case):
    objs = [proto.build_policy(p) for p in case['policies']]
    inq = proto.build_inquiry(case['inquiry'])
    return objs, inq


def pol_line(p, obj):
    return proto.enc_policy(p, effect=(obj.effect,))


def decide_line(case, objs, inq_obj, ans='AI', fail_at=None, order=None):
    idx = list(range(len(objs))) if order is None else order
    if ans == 'AI':
        a = ' '.join(['AI', str(len(idx))] + [pol_line(case['policies'][i], objs[i]) for i in idx] +
                     ['-' if fail_at is None else str(fail_at)])
    else:
        a = ans
    return 'DECIDE %s %s %s' % (case['k'], a, proto.enc_inquiry_obj(inq_obj))


def _val_len(toks, i):
    """number of tokens of the protocol value starting at toks[i]"""
    t = toks[i]
    if t[0] in 'LU' and t[1:].isdigit():
        n, j = int(t[1:]), i + 1
        for _ in range(n):
            j += _val_len(toks, j)
        return j - i
    if t[0] == 'M' and t[1:].isdigit():
        n, j = int(t[1:]), i + 1
        for _ in range(n):
            j += 1                      # key
            j += _val_len(toks, j)
        return j - i
    return 1


def _take_vals(toks, n):
    """the first n protocol values of toks (each joined back into one string), and the rest"""
    out, i = [], 0
    for _ in range(n):
        k = _val_len(toks, i)
        out.append(' '.join(toks[i:i + k]))
        i += k
    return out, toks[i:]


def parse_decide(out):
    """'ok T audit T cand n uid.. dec n uid..' -> dict"""
    if out in ('unmodelled', 'bad-op') or out is None:
        return {'kind': out}
    toks = out.split(' ')
    res = {'kind': 'ok', 'answer': toks[1] == 'T', 'audit': None}
    if len(toks) > 2 and toks[2] == 'audit':
        res['audit'] = {'allow': toks[3] == 'T', 'rest': ' '.join(toks[4:])}
        rest = toks[4:]
        assert rest[0] == 'cand'
        n = int(rest[1])
        res['audit']['candidates'], rest = _take_vals(rest[2:], n)
        assert rest[0] == 'dec'
        m = int(rest[1])
        res['audit']['deciders'], _ = _take_vals(rest[2:], m)
    return res


def real_decision(k, objs, inq_obj, order=None, cache=None):
    st = MemoryStorage()
    for i in (order if order is not None else range(len(objs))):
        st.add(objs[i])
    g = Guard(st, make_checker(k, cache))
    try:
        r = g.is_allowed(inq_obj)
    except BaseException as e:  # noqa - escaping exception is itself a C02 violation
        return ('escaped', type(e).__name__)
    return r


def ctx_direct(p, inq):
    """every context key of the policy is present in the inquiry's context and its rule is satisfied"""
    for key, rule in p.context.items():
        ctx = inq.context
        if not isinstance(ctx, dict):
            raise TypeError('context is not a mapping')
        if key not in ctx:
            return False
        if not rule.satisfied(ctx[key], inq):
            return False
    return True


def direct_matches(k, objs, inq_obj, internal=None):
    """model-free restatement of 'policy matches the inquiry': four separate calls per policy.
    returns list of True / False / 'raise' per policy; `internal` (a list) receives, per policy, the
    names of exceptions that pattern compilation raised *inside* the checker while that policy was evaluated"""
    ch = make_checker(k)
    raised = []
    if k == 'KR':
        inner = ch.compile

        def recording(*a, _inner=inner):
            try:
                return _inner(*a)
            except Exception as e:
                raised.append(type(e).__name__)
                raise
        ch.compile = recording
    out = []
    for p in objs:
        del raised[:]
        try:
            m = bool(ch.fits(p, 'actions', inq_obj.action, inq_obj)) and \
                bool(ch.fits(p, 'subjects', inq_obj.subject, inq_obj)) and \
                bool(ch.fits(p, 'resources', inq_obj.resource, inq_obj)) and \
                ctx_direct(p, inq_obj)
            out.append(m)
        except Exception:
            out.append('raise')
        if internal is not None:
            internal.append(list(raised))
    return out


def oracle_decision(objs, matches):
    """C01/C02: allow iff nothing raised, at least one match, every match has the exact allow effect"""
    if 'raise' in matches:
        return False
    hit = [p for p, m in zip(objs, matches) if m is True]
    return len(hit) > 0 and all(type(p.effect) is str and p.effect == ALLOW_ACCESS for p in hit)


def _canon_any(o, depth=0):
    """content of a rule argument / element, insensitive to list-vs-tuple and to set iteration order"""
    import re as _re
    if depth > 12:
        return '<deep>'
    if isinstance(o, (type(None), bool, int, float, str)):
        return (type(o).__name__, o)
    if isinstance(o, (list, tuple)):
        return ('seq', tuple(_canon_any(x, depth + 1) for x in o))
    if isinstance(o, (set, frozenset)):
        return ('set', tuple(sorted((_canon_any(x, depth + 1) for x in o), key=repr)))
    if isinstance(o, dict):
        return ('dict', tuple(sorted(((str(k), _canon_any(v, depth + 1)) for k, v in o.items()), key=repr)))
    if isinstance(o, _re.Pattern):
        return ('re', o.pattern, o.flags)
    if hasattr(o, '__dict__'):
        return (type(o).__module__ + '.' + type(o).__name__,
                tuple(sorted((k, _canon_any(v, depth + 1)) for k, v in vars(o).items())))
    return ('obj', repr(o))


def policy_key(p):
    """canonical content of a policy object: what must survive storage (uid, effect, description, type, elements
    in order, context)"""
    return repr((_canon_any(p.uid), _canon_any(p.effect), _canon_any(p.description), p.type,
                 [_canon_any(e) for e in p.subjects], [_canon_any(e) for e in p.resources],
                 [_canon_any(e) for e in p.actions], _canon_any(p.context)))
