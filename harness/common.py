"""Shared machinery of the checks: paths, Lean build + axiom audit, the model driver, evidence,
replays, known findings, the verdict."""
import fcntl
import hashlib
import json
import os
import re
import subprocess
import sys
import time

HERE = os.path.dirname(os.path.abspath(__file__))
VERIF = os.path.dirname(HERE)
LEAN = os.environ.get('VERIF_LEAN_DIR') or os.path.join(VERIF, 'lean')   # (override: parallel tooling runs only)
REPO = os.environ.get('VAKT_REPO', '/repo')
DRV = os.path.join(LEAN, '.lake', 'build', 'bin', 'vaktdrv')
ALLOWED_AXIOMS = {'propext', 'Classical.choice', 'Quot.sound'}
FORBIDDEN = re.compile(r'\bsorry\b|\badmit\b|^\s*axiom\s|native_decide|bv_decide|implemented_by|\bunsafe\s|maxHeartbeats\s+0')

TRUSTED_BASE = [
    'Lean 4.33 kernel (thorough tier: leanchecker re-check of the compiled .olean files)',
    'axioms allowed: propext, Classical.choice, Quot.sound (audited with #print axioms on every run)',
    'the hand-written Lean model, tied to /repo by the executed correspondence run and by Model/Generated.lean '
    '(regenerated from /repo on every run)',
    'the Python harness: generators, protocol codecs (round-trip tested each run via ECHO), canonicalisers, direct oracles',
    'CPython 3.12 semantics of ==, <, in, str methods, dict, re (on the modelled subset), functools.lru_cache',
]


class Broken(Exception):
    """the machinery itself failed (exit 2) - never a verdict"""


def repo_head():
    try:
        h = subprocess.run(['git', '-C', REPO, 'rev-parse', 'HEAD'], capture_output=True, text=True).stdout.strip()
        d = subprocess.run(['git', '-C', REPO, 'status', '--porcelain', '--', 'vakt'], capture_output=True,
                           text=True).stdout.strip()
        return h + ('+dirty' if d else '')
    except Exception:
        return 'unknown'


# ------------------------------------------------------------------ Lean side

def lean_sources():
    out = []
    for root, dirs, files in os.walk(LEAN):
        dirs[:] = [d for d in dirs if d != '.lake']
        for f in files:
            if f.endswith('.lean'):
                out.append(os.path.join(root, f))
    return sorted(out)


def strip_comments(text):
    # block comments (nested not handled beyond one level, enough for our sources) and line comments
    text = re.sub(r'/-.*?-/', '', text, flags=re.S)
    text = re.sub(r'--.*', '', text)
    return text


def grep_forbidden():
    hits = []
    for p in lean_sources():
        with open(p, encoding='utf-8') as f:
            body = strip_comments(f.read())
        for i, line in enumerate(body.splitlines(), 1):
            if FORBIDDEN.search(line):
                hits.append('%s: %s' % (os.path.relpath(p, VERIF), line.strip()[:120]))
    return hits


class LeanState:
    def __init__(self):
        self.build_ok = False
        self.build_s = 0.0
        self.build_log = ''
        self.audit_s = 0.0
        self.axioms = {}        # theorem -> list of axioms (or None when missing / failed)
        self.generated_sha = None
        self.generated_changed = False
        self.extract_error = None
        self.extra_ok, self.extra_log = True, ''
        self.gen_translated, self.gen_untranslated, self.gen_changed = [], [], False


def lake_build(state, extra_targets=()):
    """regenerate Generated.lean from /repo, then `lake build` under a lock"""
    sys.path.insert(0, HERE)
    import extract
    t0 = time.time()
    os.makedirs(os.path.join(LEAN, '.lake'), exist_ok=True)
    with open(os.path.join(LEAN, '.lake', 'verif.lock'), 'w') as lk:
        fcntl.flock(lk, fcntl.LOCK_EX)
        try:
            try:
                state.generated_changed, state.generated_sha, _ = extract.regenerate()
            except extract.ExtractError as e:
                state.extract_error = str(e)
                state.build_ok = False
                state.build_log = 'extract: %s' % e
                return state
            pr = subprocess.run(['lake', 'build'], cwd=LEAN, capture_output=True, text=True, timeout=3000)
            state.build_log = (pr.stdout + pr.stderr)[-6000:]
            state.build_ok = pr.returncode == 0 and os.path.exists(DRV)
            # extra targets of this property only (e.g. `Gen`: the rule bodies translated from /repo and their
            # equivalence with the model): a failure there concerns this property's obligations, not the whole build
            state.extra_ok, state.extra_log = True, ''
            if state.build_ok and extra_targets:
                try:
                    import pytolean
                    state.gen_changed, state.gen_translated, state.gen_untranslated = pytolean.regenerate(REPO, LEAN)
                except Exception as e:          # pragma: no cover - regenerate() does not raise
                    state.gen_translated, state.gen_untranslated = [], [('*', '*', repr(e))]
                pr2 = subprocess.run(['lake', 'build'] + list(extra_targets), cwd=LEAN, capture_output=True, text=True,
                                     timeout=3000)
                state.extra_ok = pr2.returncode == 0
                state.extra_log = (pr2.stdout + pr2.stderr)[-4000:]
        finally:
            fcntl.flock(lk, fcntl.LOCK_UN)
    state.build_s = time.time() - t0
    return state


def audit(state, pid, theorems, module):
    """#print axioms for every listed theorem; fills state.axioms"""
    t0 = time.time()
    d = os.path.join(LEAN, '.lake', 'audit')
    os.makedirs(d, exist_ok=True)
    path = os.path.join(d, 'Audit_%s_%d.lean' % (pid, os.getpid()))
    with open(path, 'w') as f:
        for mname in ([module] if isinstance(module, str) else module):
            f.write('import %s\n' % mname)
        for t in theorems:
            f.write('#print axioms %s\n' % t)
    pr = subprocess.run(['lake', 'env', 'lean', path], cwd=LEAN, capture_output=True, text=True, timeout=1200)
    out = pr.stdout + pr.stderr
    try:
        os.unlink(path)
    except OSError:
        pass
    state.audit_s = time.time() - t0
    flat = re.sub(r'\s+', ' ', out)
    for t in theorems:
        m = re.search(r"'%s' depends on axioms: \[([^\]]*)\]" % re.escape(t), flat)
        if m:
            state.axioms[t] = [a.strip() for a in m.group(1).split(',') if a.strip()]
        elif re.search(r"'%s' does not depend on any axioms" % re.escape(t), flat):
            state.axioms[t] = []
        else:
            state.axioms[t] = None
    state.audit_log = out[-3000:]
    return state


def leanchecker(modules):
    pr = subprocess.run(['lake', 'env', 'leanchecker'] + modules, cwd=LEAN, capture_output=True, text=True,
                        timeout=3000)
    return pr.returncode == 0, (pr.stdout + pr.stderr)[-2000:]


# ------------------------------------------------------------------ driver

class Driver:
    """batch interface to the compiled model driver"""
    def __init__(self):
        if not os.path.exists(DRV):
            raise Broken('model driver not built: %s' % DRV)

    def run(self, lines, timeout=1200):
        if not lines:
            return []
        data = '\n'.join(lines) + '\n'
        pr = subprocess.run([DRV], input=data, capture_output=True, text=True, timeout=timeout)
        if pr.returncode != 0:
            raise Broken('driver exited %d: %s' % (pr.returncode, pr.stderr[-500:]))
        out = pr.stdout.split('\n')
        if out and out[-1] == '':
            out.pop()
        if len(out) != len(lines):
            raise Broken('driver answered %d lines for %d' % (len(out), len(lines)))
        return out

    def echo_check(self, kind, payloads):
        """codec round trip: every payload must come back byte-identical"""
        lines = ['ECHO %s %s' % (kind, p) for p in payloads]
        outs = self.run(lines)
        for l, o in zip(lines, outs):
            if l != o:
                raise Broken('codec round-trip mismatch:\n sent %s\n got  %s' % (l[:300], o[:300]))
        return len(lines)


class Runaway(Exception):
    """a listing that should be finite keeps yielding"""


def capped(iterable, cap=3000):
    """list(iterable), but give up (Runaway) after `cap` items: no storage in any check holds that many policies"""
    out = []
    try:
        it = iter(iterable)
    except TypeError:
        # a listing / search that hands back something that cannot be iterated at all (None, a bool ...)
        raise ImplDefect('a storage read returned %r where an iterable of policies is documented' % (iterable,),
                         {'returned': repr(iterable)[:200]})
    for x in it:
        out.append(x)
        if len(out) > cap:
            raise Runaway('more than %d items' % cap)
    return out


def listing_diff_is_order_only(a, b):
    """two 'pols x,y,z' outputs (a listing or a page) that hold the same number of policies: which policies land on
    which page, and in what order, depends on the listing order of the backend, which no property prescribes"""
    if not (isinstance(a, str) and isinstance(b, str) and a.startswith('pols ') and b.startswith('pols ')):
        return False
    xa, xb = [x for x in a[5:].split(',') if x], [x for x in b[5:].split(',') if x]
    return len(xa) == len(xb)


# ------------------------------------------------------------------ results

class ImplDefect(BaseException):
    """an object built through vakt's public constructors is not usable at all (not an Exception: the generators'
    `except Exception: skip this case` must not hide it)"""
    def __init__(self, what, case):
        super().__init__(what)
        self.what, self.case = what, case


class Failure:
    def __init__(self, kind, case, impl, model, oracle, theorem, text='', line=None, size=None):
        self.kind = kind            # 'disagreement' | 'oracle' | 'unproved'
        self.case = case            # JSON-able description of the input
        self.impl = impl
        self.model = model
        self.oracle = oracle
        self.theorem = theorem
        self.text = text
        self.line = line
        self.size = size if size is not None else len(json.dumps(case, default=repr))
        # a disagreement between model and implementation about something the property does not itself prescribe
        # (an encoding, an internal trace, a candidate set beyond the required superset ...): the correspondence no
        # longer checks, which by itself is not an input on which the property fails
        self.weak = False


class Outcome:
    def __init__(self):
        self.evaluations = 0
        self.nontrivial = set()
        self.rule = ''
        self.samples = []
        self.failures = []
        self.unmodelled = 0
        self.distribution = {}
        self.traces = 0
        self.exhaustive = False
        self.assumptions = []
        self.extra = {}

    def count(self, key, n=1):
        self.distribution[key] = self.distribution.get(key, 0) + n

    def nontriv(self, canonical):
        self.nontrivial.add(hashlib.sha1(canonical.encode('utf-8', 'surrogatepass')).digest()[:8])


def load_known():
    p = os.path.join(VERIF, 'known_findings.json')
    if not os.path.exists(p):
        return {'known': [], 'fixed': []}
    with open(p) as f:
        return json.load(f)


def write_replay(pid, failure, seed, extra=None):
    os.makedirs(os.path.join(VERIF, 'replays'), exist_ok=True)
    body = {
        'property': pid,
        'kind': 'unproved' if failure.kind == 'unproved' else
                ('correspondence-broken' if getattr(failure, 'weak', False) else 'failing-input'),
        'detected_by': failure.kind,
        'seed': seed,
        'case': failure.case,
        'line': failure.line,
        'impl': failure.impl,
        'model': failure.model,
        'oracle': failure.oracle,
        'theorem': failure.theorem,
        'notes': failure.text,
        'repo_head': repo_head(),
    }
    if extra:
        body.update(extra)
    blob = json.dumps(body, indent=1, default=repr, sort_keys=True)
    h = hashlib.sha1(json.dumps(failure.case, default=repr, sort_keys=True).encode()).hexdigest()[:12]
    path = os.path.join(VERIF, 'replays', '%s-%s.json' % (pid, h))
    with open(path, 'w') as f:
        f.write(blob)
    return path


def write_evidence(pid, tier, seed, state, theorems, outcome, wall, violations, checker_cmd, extra_assumptions=()):
    os.makedirs(os.path.join(VERIF, 'evidence'), exist_ok=True)
    discharged = sum(1 for t in theorems if state.axioms.get(t) is not None and
                     set(state.axioms[t]) <= ALLOWED_AXIOMS) if state.build_ok else 0
    cov = {
        'obligations': len(theorems),
        'discharged': discharged,
        'checker_cmd': checker_cmd,
        'trusted_base': TRUSTED_BASE,
        'evaluations': outcome.evaluations,
        'distinct_nontrivial': len(outcome.nontrivial),
        'rule': outcome.rule,
        'samples': outcome.samples[:6] if outcome.samples else ['(no case was run)'],
        'traces_validated_against_impl': outcome.traces,
        'unmodelled': outcome.unmodelled,
        'distribution': outcome.distribution,
        'exhaustive': bool(outcome.exhaustive),
        'lean': {'build_ok': state.build_ok, 'build_s': round(state.build_s, 2), 'audit_s': round(state.audit_s, 2),
                 'axioms': {t: state.axioms.get(t) for t in theorems},
                 'leanchecker': getattr(state, 'leanchecker', None),
                 'translated_from_source': {
                     'extra_targets_ok': state.extra_ok,
                     'rule_bodies': ['%s.%s' % (m, c) for m, c, _ in state.gen_translated],
                     'outside_the_fragment': ['%s.%s (%s)' % (m, c, r[:40]) for m, c, r in state.gen_untranslated]}
                 if (state.gen_translated or state.gen_untranslated) else None},
        'repo_head': repo_head(),
        'generated_lean_sha': state.generated_sha,
    }
    cov.update(outcome.extra)
    ev = {
        'property_id': pid, 'tier': tier, 'seed': seed, 'level': 'proof',
        'coverage': cov,
        'assumptions': list(outcome.assumptions) + list(extra_assumptions),
        'wall_s': round(wall, 2),
        'violations': violations,
    }
    path = os.path.join(VERIF, 'evidence', '%s.json' % pid)
    tmp = path + '.tmp.%d' % os.getpid()
    with open(tmp, 'w') as f:
        json.dump(ev, f, indent=1, default=repr)
    os.replace(tmp, path)
    return path
