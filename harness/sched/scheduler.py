"""Deterministic scheduler for real threads.

Threads run one at a time; control changes hands only at *yield points*: every access to the
instrumented shared objects (the storage's dict, its lock, the decision cache) and - in 'line' mode -
every source line executed inside vakt (bytecode instruction inside vakt/storage/memory.py), via
sys.settrace.  A schedule is a set of preemptions {global step index -> thread to switch to}; without
a preemption the running thread continues, and when it finishes or blocks on the lock the lowest
runnable thread goes on.  Every wait has a timeout: a stuck run is reported as broken, never judged.
"""
import sys
import threading
import os

WAIT = 20.0


# modules whose code touches no state shared between threads (policies are not changed by a decision)
PURE_MODULES = ('checker.py', 'parser.py', 'policy.py', 'audit.py', 'exceptions.py', 'effects.py')


class Stuck(Exception):
    pass


class Deadlock(Exception):
    pass


class Scheduler:
    def __init__(self, preemptions=None, line_mode=False, repo=None, random_switch=None, cyclic=False, coarse=False):
        self.preempt = dict(preemptions or {})
        self.line_mode = line_mode
        self.cyclic = cyclic              # when a thread finishes the next one in cyclic order goes on (round robin)
        self.coarse = coarse              # line mode without yield points in the modules that only compute on local data
        self.repo = os.path.join(repo or os.environ.get('VAKT_REPO', '/repo'), 'vakt')
        self.memory_py = os.path.join(self.repo, 'storage', 'memory.py')
        self.random_switch = random_switch        # (rng, probability) for random deep schedules
        self.step = 0
        self.trace = []          # (step, tid, label, runnable tids)
        self.tids = {}
        self.go = []
        self.state = []          # 'new' | 'run' | 'blocked' | 'done'
        self.results = []
        self.cur = None
        self.error = None
        self.mutex = threading.Lock()

    # ---- called by worker threads
    def me(self):
        return self.tids.get(threading.get_ident())

    def runnable(self):
        return [i for i, s in enumerate(self.state) if s in ('new', 'run')]

    def _hand_over(self, tid, nxt):
        self.cur = nxt
        self.go[tid].clear()
        self.go[nxt].set()
        if not self.go[tid].wait(WAIT):
            self.error = Stuck('thread %d never got the turn back' % tid)
            raise self.error

    def yield_point(self, label):
        tid = self.me()
        if tid is None or self.cur != tid:
            return
        self.step += 1
        run = self.runnable()
        self.trace.append((self.step, tid, label, tuple(run)))
        nxt = self.preempt.get(self.step)
        if nxt is None and self.random_switch is not None:
            rng, p = self.random_switch
            if len(run) > 1 and rng.random() < p:
                nxt = rng.choice([r for r in run if r != tid])
        if nxt is not None and nxt != tid and nxt in run:
            self._hand_over(tid, nxt)

    def block(self, tid):
        """the running thread cannot proceed (lock held by another): let someone else run"""
        self.state[tid] = 'blocked'
        others = self.runnable()
        if not others:
            self.state[tid] = 'run'
            self.error = Deadlock('all threads blocked')
            raise self.error
        self._hand_over(tid, others[0])
        self.state[tid] = 'run'

    def unblock_all(self):
        for i, s in enumerate(self.state):
            if s == 'blocked':
                self.state[i] = 'run'

    # ---- tracing (line mode)
    def _tracer(self, frame, event, arg):
        fn = frame.f_code.co_filename
        if not fn.startswith(self.repo):
            return None
        if self.coarse and (os.path.basename(fn) in PURE_MODULES or os.sep + 'rules' + os.sep in fn):
            return None
        if fn == self.memory_py:
            frame.f_trace_opcodes = True
        if event in ('line', 'opcode'):
            self.yield_point('%s:%s:%s' % (event, os.path.basename(fn), frame.f_lineno))
        return self._tracer

    # ---- running
    def run(self, bodies):
        n = len(bodies)
        self.go = [threading.Event() for _ in range(n)]
        self.state = ['new'] * n
        self.results = [None] * n
        done = threading.Event()

        def worker(i):
            self.tids[threading.get_ident()] = i
            if not self.go[i].wait(WAIT):
                return
            self.state[i] = 'run'
            if self.line_mode:
                sys.settrace(self._tracer)
            try:
                self.results[i] = ('ok', bodies[i]())
            except (Stuck, Deadlock) as e:
                self.results[i] = ('sched', repr(e))
            except BaseException as e:  # noqa
                self.results[i] = ('raise', type(e).__name__, str(e)[:120])
            finally:
                if self.line_mode:
                    sys.settrace(None)
                self.state[i] = 'done'
                self.unblock_all()
                rest = [j for j, s in enumerate(self.state) if s in ('new', 'run', 'blocked')]
                if rest:
                    nxt = rest[0]
                    if self.cyclic:
                        later = [j for j in rest if j > i]
                        nxt = later[0] if later else rest[0]
                    self.cur = nxt
                    self.go[nxt].set()
                else:
                    done.set()
        ts = [threading.Thread(target=worker, args=(i,), daemon=True) for i in range(n)]
        for t in ts:
            t.start()
        first = self.preempt.get(0, 0)
        self.cur = first
        self.go[first].set()
        if not done.wait(WAIT * 3):
            raise Stuck('schedule did not finish: states %r, step %d' % (self.state, self.step))
        for t in ts:
            t.join(1.0)
        if self.error is not None and not isinstance(self.error, Deadlock):
            raise self.error
        return self.results


_REAL_LOCK = type(threading.Lock())
_REAL_RLOCK = type(threading.RLock())


class SchedLock:
    """scheduler-aware replacement for threading.Lock (or, with reentrant=True, threading.RLock)"""
    def __init__(self, sched, log=None, reentrant=False):
        self.sched = sched
        self.owner = None
        self.depth = 0
        self.reentrant = reentrant
        self.log = log

    def acquire(self, *a, **k):
        s = self.sched
        tid = s.me()
        if self.reentrant and self.owner is not None and self.owner == tid:
            self.depth += 1
            return True
        s.yield_point('lock.acquire')
        while self.owner is not None:
            if tid is None:           # not a scheduled thread (set-up / tear-down code): nobody to wait for
                break
            s.block(tid)
        self.owner = tid if tid is not None else -1
        self.depth = 1
        if self.log is not None:
            self.log.append((tid, 'acquire'))
        return True

    def release(self):
        s = self.sched
        if self.reentrant and self.depth > 1:
            self.depth -= 1
            return
        s.yield_point('lock.release')
        if self.log is not None:
            self.log.append((s.me(), 'release'))
        self.owner = None
        self.depth = 0
        s.unblock_all()

    def __enter__(self):
        self.acquire()
        return self

    def __exit__(self, *exc):
        self.release()
        return False

    def locked(self):
        return self.owner is not None


class SharedDict(dict):
    """the storage's dict: every access is a yield point and is logged with the thread that made it"""
    def __init__(self, sched, log, versions):
        super().__init__()
        self.sched, self.log, self.versions = sched, log, versions

    def _y(self, what, *a):
        self.sched.yield_point('dict.' + what)
        self.log.append((self.sched.me(), what) + a)

    def _bump(self):
        self.versions.append(dict(dict.items(self)))

    def __contains__(self, k):
        self._y('contains', k)
        return dict.__contains__(self, k)

    def __setitem__(self, k, v):
        self._y('setitem', k)
        dict.__setitem__(self, k, v)
        self._bump()

    def __delitem__(self, k):
        self._y('delitem', k)
        dict.__delitem__(self, k)
        self._bump()

    def get(self, k, d=None):
        self._y('get', k)
        return dict.get(self, k, d)

    def values(self):
        self._y('values')
        return SharedValues(self)

    def __iter__(self):
        self._y('iter')
        return dict.__iter__(self)


class SharedValues:
    """a live view: every iterator step is a yield point and fails like dict_values when the size changed"""
    def __init__(self, d):
        self.d = d

    def __iter__(self):
        it = dict.values(self.d).__iter__()
        while True:
            self.d._y('iternext')
            try:
                yield next(it)
            except StopIteration:
                return

    def __len__(self):
        return dict.__len__(self.d)


def instrument_locks(sched, roots, log=None, depth=4):
    """replace every real threading.Lock / RLock reachable from the given objects' attributes (a refactored storage or
    cache may create its own) by a scheduler-aware lock, so that a preempted holder cannot block the whole process"""
    seen = set()

    def walk(obj, d):
        if d < 0 or id(obj) in seen:
            return
        seen.add(id(obj))
        try:
            attrs = vars(obj)
        except TypeError:
            return
        for k, v in list(attrs.items()):
            if isinstance(v, _REAL_LOCK):
                try:
                    setattr(obj, k, SchedLock(sched, log))
                except Exception:
                    pass
            elif isinstance(v, _REAL_RLOCK):
                try:
                    setattr(obj, k, SchedLock(sched, log, reentrant=True))
                except Exception:
                    pass
            elif isinstance(v, SchedLock):
                continue
            elif hasattr(v, '__dict__') and not isinstance(v, type) and type(v).__module__.split('.')[0] in ('vakt', 'functools'):
                walk(v, d - 1)
            elif callable(v) and hasattr(v, '__self__'):
                walk(v.__self__, d - 1)
            elif callable(v) and getattr(v, '__closure__', None):
                for cell in v.__closure__:
                    try:
                        c = cell.cell_contents
                    except ValueError:
                        continue
                    if hasattr(c, '__dict__') and type(c).__module__.split('.')[0] == 'vakt':
                        walk(c, d - 1)
    for r in roots:
        walk(r, depth)
