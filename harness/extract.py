"""Regenerate lean/Model/Generated.lean from the *current* /repo working tree and the running CPython.

Constants are read as values (attributes / behavioural probes of small predicates), so a
harmless rewrite of the source keeps the tie, while a changed value changes the generated
text and every Lean theorem that mentions it is re-checked.

Anything that cannot be found in the expected shape raises ExtractError (a *broken tie*);
the caller turns that into the failing-input search, never into a silent default.
"""
import hashlib
import os
import re
import sys

REPO = os.environ.get('VAKT_REPO', '/repo')
HERE = os.path.dirname(os.path.abspath(__file__))
OUT = os.path.join(os.environ.get('VERIF_LEAN_DIR') or os.path.join(os.path.dirname(HERE), 'lean'), 'Model', 'Generated.lean')


class ExtractError(Exception):
    pass


# the alphabet of the model: every generated string stays inside it
ALPHABET = (
    [chr(c) for c in range(32, 127)] + ['\n', '\t', '\r']
    + list(' éÉßüÜ')          # nbsp é É ß ü Ü
    + list('αΑβΒωΩ')          # α Α β Β ω Ω   (no Σ: final-sigma rule)
    + list('дДжЖ')                      # д Д ж Ж
    + list('中文')                                  # 中 文
    + list('İ̇ı')                            # İ, combining dot, ı
    + list('٣१')                                  # Arabic-Indic 3, Devanagari 1 (Unicode \d)
)


def lean_str(s):
    out = []
    for ch in s:
        if ch == '"':
            out.append('\\"')
        elif ch == '\\':
            out.append('\\\\')
        elif ch == '\n':
            out.append('\\n')
        elif ch == '\t':
            out.append('\\t')
        elif ch == '\r':
            out.append('\\r')
        elif 32 <= ord(ch) < 127:
            out.append(ch)
        else:
            out.append('\\u{%x}' % ord(ch))
    return '"' + ''.join(out) + '"'


def lean_bool(b):
    return 'true' if b else 'false'


def char_table():
    rows = []
    for ch in ALPHABET:
        low = [ord(c) for c in ch.lower()]
        rows.append((ord(ch), low,
                     re.fullmatch(r'\d', ch) is not None,
                     re.fullmatch(r'\w', ch) is not None,
                     re.fullmatch(r'\s', ch) is not None))
    return rows


def probe_failed(g, name, exc, defaults):
    """a behavioural probe could not be run (the probed internals were reshaped): the tables it feeds are emitted
    empty so that the model still builds, and the probe is named in `Generated.probeFailures`; the properties that
    rest on those tables carry an obligation `probes_ok` that fails then - the other properties are not affected"""
    g.setdefault('probeFailures', []).append(name)
    g.setdefault('probeErrors', {})[name] = repr(exc)[:300]
    for k, v in defaults.items():
        g[k] = v


def extract():
    if REPO not in sys.path:
        sys.path.insert(0, REPO)
    try:
        import vakt
        import vakt.effects as effects
        import vakt.policy as policy
        from vakt.checker import RegexChecker
        from vakt.guard import Inquiry
    except Exception as e:  # pragma: no cover
        raise ExtractError('cannot import vakt from %s: %r' % (REPO, e))
    if not os.path.abspath(vakt.__file__).startswith(os.path.abspath(REPO)):
        raise ExtractError('vakt imported from %s, not from %s' % (vakt.__file__, REPO))

    g = {}
    g['allowConst'] = effects.ALLOW_ACCESS
    g['denyConst'] = effects.DENY_ACCESS
    for k in ('allowConst', 'denyConst'):
        if not isinstance(g[k], str):
            raise ExtractError('%s is not a str: %r' % (k, g[k]))
    p = policy.Policy(1)
    g['startTag'], g['endTag'] = p.start_tag, p.end_tag
    if not (isinstance(g['startTag'], str) and len(g['startTag']) == 1 and
            isinstance(g['endTag'], str) and len(g['endTag']) == 1):
        raise ExtractError('default tags are not single characters')
    g['definitionFields'] = list(policy.Policy._definition_fields)
    g['typeStringBased'] = policy.TYPE_STRING_BASED
    g['typeRuleBased'] = policy.TYPE_RULE_BASED
    g['defaultEffect'] = policy.Policy(1).effect

    # SQL: which dialects get the regex prefilter (behavioural probe of the predicate)
    try:
        from vakt.storage.sql import SQLStorage
        st = SQLStorage.__new__(SQLStorage)
        dialects = []
        for d in ['sqlite', 'mysql', 'postgresql', 'oracle', 'mssql', 'mariadb', 'firebird', 'sybase']:
            st.dialect = d
            if st._supports_regex_operator():
                dialects.append(d)
        g['sqlRegexDialects'] = dialects
    except Exception as e:
        probe_failed(g, 'sqlRegexDialects', e, {'sqlRegexDialects': []})

    # Mongo: server-version gate of the aggregation (regex) prefilter, probed
    try:
        from vakt.storage.mongo import (MongoStorage, MongoMigrationSet, Migration1x1x1To1x2x0)
        ms = MongoStorage.__new__(MongoStorage)
        ms.condition_fields = ['actions', 'subjects', 'resources']
        ms.condition_field_compiled_name = lambda x: '%s_compiled_regex' % x
        gate = []
        for v in [(3, 6, 0), (4, 0, 0), (4, 1, 9), (4, 2, 0), (4, 2, 1), (4, 4, 0), (5, 0, 0), (7, 0, 0)]:
            ms.db_server_version = v
            _, agg = ms._create_filter(Inquiry(action='a', resource='b', subject='c'), RegexChecker())
            gate.append((v, bool(agg)))
        g['mongoGate'] = gate

        class _FakeStorage:
            database = {}
            condition_fields = ['actions', 'subjects', 'resources']

            @staticmethod
            def condition_field_compiled_name(x):
                return '%s_compiled_regex' % x

            class _DB(dict):
                def __getitem__(self, k):
                    return None
            database = _DB()
        mset = MongoMigrationSet(_FakeStorage())
        g['mongoOrders'] = [m.order for m in mset.migrations()]
        m3 = Migration1x1x1To1x2x0(_FakeStorage())
        g['rulesRename'] = sorted(m3.rules_rename.items())
    except ExtractError:
        raise
    except Exception as e:
        probe_failed(g, 'mongo', e, {'mongoGate': g.get('mongoGate', []), 'mongoOrders': g.get('mongoOrders', []),
                                      'rulesRename': g.get('rulesRename', [])})

    try:
        from vakt.storage.sql.migrations import SQLMigrationSet, Migration0To1x3x0
        g['sqlOrders'] = [Migration0To1x3x0(None).order]
    except Exception as e:
        probe_failed(g, 'sqlOrders', e, {'sqlOrders': []})

    try:
        g['regexCacheDefault'] = RegexChecker().compile.cache_info().maxsize
    except Exception as e:
        probe_failed(g, 'regexCacheDefault', e, {'regexCacheDefault': None})

    # Mongo data migrations: jsonpickle's reserved tags, and which class paths migration 3 `down` refuses,
    # probed behaviourally on a one-document collection
    try:
        import jsonpickle.tags
        g['reservedTags'] = sorted(jsonpickle.tags.RESERVED)
        g['objectTag'] = jsonpickle.tags.OBJECT
        probe_classes = []
        import vakt.rules as _r
        import inspect
        from vakt.rules.base import Rule as _Rule
        import vakt.rules.operator, vakt.rules.list, vakt.rules.logic, vakt.rules.string, vakt.rules.net, vakt.rules.inquiry
        for mod in (vakt.rules.operator, vakt.rules.list, vakt.rules.logic, vakt.rules.string, vakt.rules.net,
                    vakt.rules.inquiry):
            for name, cls in sorted(vars(mod).items()):
                if inspect.isclass(cls) and issubclass(cls, _Rule) and cls.__module__ == mod.__name__ \
                        and not inspect.isabstract(cls):
                    probe_classes.append('%s.%s' % (mod.__name__, name))
        probe_classes += [o for o, _ in g['rulesRename']] + ['myapp.rules.Custom']
        probe_classes = sorted(set(probe_classes))
        irreversible = []

        class _Coll:
            def __init__(self, doc):
                self.doc = doc
                self.replaced = None

            def find(self, *a, **k):
                import copy as _c
                return [_c.deepcopy(self.doc)]

            def replace_one(self, flt, doc, *a, **k):
                self.replaced = doc

            def __getattr__(self, name):          # any other collection call a refactored migration may make
                return lambda *a, **k: None

            def drop_index(self, name):
                pass

            def create_index(self, *a, **k):
                pass

        class _St:
            condition_fields = ['actions', 'subjects', 'resources']

            @staticmethod
            def condition_field_compiled_name(x):
                return '%s_compiled_regex' % x
        import logging as _lg
        _lg.getLogger('vakt').setLevel(_lg.CRITICAL)
        for cp in probe_classes:
            st = _St()
            st.collection = _Coll({'_id': 'u', 'uid': 'u', 'type': policy.TYPE_STRING_BASED,
                                   'context': {'k': {jsonpickle.tags.OBJECT: cp}}})
            Migration1x1x1To1x2x0(st).down()
            if st.collection.replaced is None:
                irreversible.append(cp)
        g['m3ProbeClasses'] = probe_classes
        g['m3Irreversible'] = irreversible
    except ExtractError:
        raise
    except Exception as e:
        probe_failed(g, 'mongoMigration3', e, {'m3ProbeClasses': [], 'm3Irreversible': [],
                                               'reservedTags': g.get('reservedTags', []),
                                               'objectTag': g.get('objectTag', 'py/object')})
    # class path written for each rule class, in the order of the constructors of the model's `Rule`
    try:
        import json as _json
        from vakt.rules import operator as r_op, list as r_list, logic as r_logic, string as r_str, net as r_net, \
            inquiry as r_inq
        import proto as _proto
        insts = [r_op.Eq(1), r_op.NotEq(1), r_op.Greater(1), r_op.Less(1), r_op.GreaterOrEqual(1), r_op.LessOrEqual(1),
                 r_list.In(1), r_list.NotIn(1), r_list.AllIn(1), r_list.AllNotIn(1), r_list.AnyIn(1), r_list.AnyNotIn(1),
                 r_logic.Truthy(), r_logic.Falsy(), r_logic.And(), r_logic.Or(), r_logic.Not(r_logic.Any()), r_logic.Any(),
                 r_logic.Neither(), r_str.Equal('a'), r_str.StartsWith('a'), r_str.EndsWith('a'), r_str.Contains('a'),
                 r_str.PairsEqual(), r_str.RegexMatch('a'), r_net.CIDR('10.0.0.0/8'), r_inq.SubjectMatch(),
                 r_inq.ActionMatch(), r_inq.ResourceMatch(), r_inq.SubjectEqual(), r_inq.ActionEqual(), r_inq.ResourceIn(),
                 _proto.RaisingRule(), _proto.ConstRule(True)]
        g['ruleClasses'] = [_json.loads(r.to_json())[jsonpickle.tags.OBJECT] for r in insts]
    except Exception as e:
        probe_failed(g, 'ruleClasses', e, {'ruleClasses': []})
    return g


def render(g):
    L = []
    L.append('/-! GENERATED by harness/extract.py from the /repo working tree and the running CPython.')
    L.append('Do not edit: it is rewritten on every check run. -/')
    L.append('namespace Vakt.Generated')
    L.append('')
    L.append('def allowConst : List Char := %s.toList' % lean_str(g['allowConst']))
    L.append('def denyConst : List Char := %s.toList' % lean_str(g['denyConst']))
    L.append('def defaultEffect : List Char := %s.toList' % lean_str(g['defaultEffect']))
    L.append("def startTag : Char := Char.ofNat %d" % ord(g['startTag']))
    L.append("def endTag : Char := Char.ofNat %d" % ord(g['endTag']))
    L.append('def definitionFields : List String := [%s]' % ', '.join(lean_str(x) for x in g['definitionFields']))
    L.append('def typeStringBased : Nat := %d' % g['typeStringBased'])
    L.append('def typeRuleBased : Nat := %d' % g['typeRuleBased'])
    L.append('def sqlRegexDialects : List String := [%s]' % ', '.join(lean_str(x) for x in g['sqlRegexDialects']))
    L.append('/-- (server version, does the regex checker use the aggregation prefilter) as probed -/')
    L.append('def mongoGate : List ((Nat × Nat × Nat) × Bool) := [%s]' % ', '.join(
        '((%d, %d, %d), %s)' % (v[0], v[1], v[2], lean_bool(a)) for v, a in g['mongoGate']))
    L.append('def mongoOrders : List Nat := [%s]' % ', '.join(str(x) for x in g['mongoOrders']))
    L.append('def sqlOrders : List Nat := [%s]' % ', '.join(str(x) for x in g['sqlOrders']))
    L.append('def rulesRename : List (String × String) := [%s]' % ', '.join(
        '(%s, %s)' % (lean_str(a), lean_str(b)) for a, b in g['rulesRename']))
    L.append('def objectTag : List Char := %s.toList' % lean_str(g['objectTag']))
    L.append('def reservedTags : List String := [%s]' % ', '.join(lean_str(x) for x in g['reservedTags']))
    L.append('/-- every rule class path of this tree (and the legacy names): does migration 3 `down` refuse it (probed) -/')
    L.append('def m3DownRefuses : List (String × Bool) := [%s]' % ', '.join(
        '(%s, %s)' % (lean_str(c), lean_bool(c in g['m3Irreversible'])) for c in g['m3ProbeClasses']))
    L.append('def ruleClasses : List String := [%s]' % ', '.join(lean_str(x) for x in g['ruleClasses']))
    L.append('def probeFailures : List String := [%s]' % ', '.join(lean_str(x) for x in g.get('probeFailures', [])))
    L.append('def regexCacheDefault : Option Nat := %s' % (
        'none' if g['regexCacheDefault'] is None else 'some %d' % g['regexCacheDefault']))
    L.append('')
    L.append('/-- (code point, lower-case image, \\d, \\w, \\s) for the model alphabet, as CPython %s reports -/' %
             ('%d.%d' % sys.version_info[:2]))
    L.append('def charTable : List (Nat × List Nat × Bool × Bool × Bool) := [')
    rows = char_table()
    for i, (cp, low, d, w, s) in enumerate(rows):
        L.append('  (%d, [%s], %s, %s, %s)%s' % (cp, ', '.join(map(str, low)), lean_bool(d), lean_bool(w),
                                                 lean_bool(s), ',' if i + 1 < len(rows) else ''))
    L.append(']')
    L.append('')
    L.append('end Vakt.Generated')
    return '\n'.join(L) + '\n'


def regenerate(out=OUT):
    """Returns (changed, sha, values).  Writes only when the text differs (keeps lake's no-op build)."""
    g = extract()
    text = render(g)
    old = None
    if os.path.exists(out):
        with open(out, encoding='utf-8') as f:
            old = f.read()
    changed = old != text
    if changed:
        tmp = out + '.tmp.%d' % os.getpid()
        with open(tmp, 'w', encoding='utf-8') as f:
            f.write(text)
        os.replace(tmp, out)
    return changed, hashlib.sha1(text.encode()).hexdigest(), g


if __name__ == '__main__':
    ch, sha, g = regenerate()
    print('Generated.lean', 'rewritten' if ch else 'unchanged', sha)
