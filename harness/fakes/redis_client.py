"""In-process stand-in for the handful of redis-py calls vakt.storage.redis makes.

Semantics follow the Redis documentation: hash fields and values are byte strings (str -> utf-8,
int -> decimal text), HSETNX returns 1/0, HDEL returns the number of removed fields, HGETALL returns
a dict of bytes -> bytes, the registered Lua updater sets the field only if it exists.
A `fail` hook lets the harness inject a failure into the next call."""


class FakeRedisError(Exception):
    pass


def _b(x):
    if isinstance(x, bytes):
        return x
    if isinstance(x, bool):
        raise FakeRedisError("Invalid input of type: 'bool'")
    if isinstance(x, (int, float)):
        return repr(x).encode()
    if isinstance(x, str):
        return x.encode('utf-8')
    raise FakeRedisError("Invalid input of type: %r" % type(x).__name__)


class FakeRedis:
    def __init__(self):
        self.h = {}
        self.fail_next = None
        self.calls = []

    def _hash(self, name):
        return self.h.setdefault(name, {})

    def _maybe_fail(self, op):
        self.calls.append(op)
        if self.fail_next and self.fail_next[0] in (op, '*'):
            exc = self.fail_next[1]
            self.fail_next = None
            raise exc

    def hsetnx(self, name, key, value):
        self._maybe_fail('hsetnx')
        h = self._hash(name)
        k = _b(key)
        v = _b(value)
        if k in h:
            return 0
        h[k] = v
        return 1

    def hget(self, name, key):
        self._maybe_fail('hget')
        return self._hash(name).get(_b(key))

    def hgetall(self, name):
        self._maybe_fail('hgetall')
        return dict(self._hash(name))

    def hdel(self, name, *keys):
        self._maybe_fail('hdel')
        h = self._hash(name)
        n = 0
        for k in keys:
            if _b(k) in h:
                del h[_b(k)]
                n += 1
        return n

    def register_script(self, script):
        client = self

        def updater(keys=(), args=()):
            client._maybe_fail('script')
            h = client._hash(keys[0])
            k, v = _b(args[0]), _b(args[1])
            if k in h:
                h[k] = v
                return 0          # HSET on an existing field returns 0 (no new field added)
            return 0
        return updater

    def flushdb(self):
        self.h = {}
