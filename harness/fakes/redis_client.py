"""In-process stand-in for the handful of redis-py calls vakt.storage.redis makes.

Semantics follow the Redis documentation: hash fields and values are byte strings (str -> utf-8,
int -> decimal text), HSETNX returns 1/0, HDEL returns the number of removed fields, HGETALL returns
a dict of bytes -> bytes, the registered Lua updater sets the field only if it exists.
A `fail` hook lets the harness inject a failure into the next call."""


class FakeRedisError(Exception):
    pass


def _b(x):
    if isinstance(x, bytes):
        return x
    if isinstance(x, bool):
        raise FakeRedisError("Invalid input of type: 'bool'")
    if isinstance(x, (int, float)):
        return repr(x).encode()
    if isinstance(x, str):
        return x.encode('utf-8')
    raise FakeRedisError("Invalid input of type: %r" % type(x).__name__)


class FakeRedis:
    def __init__(self):
        self.h = {}
        self.fail_next = None
        self.calls = []

    def _hash(self, name):
        return self.h.setdefault(name, {})

    def _maybe_fail(self, op):
        self.calls.append(op)
        if self.fail_next and self.fail_next[0] in (op, '*'):
            exc = self.fail_next[1]
            self.fail_next = None
            raise exc

    def hsetnx(self, name, key, value):
        self._maybe_fail('hsetnx')
        h = self._hash(name)
        k = _b(key)
        v = _b(value)
        if k in h:
            return 0
        h[k] = v
        return 1

    def hget(self, name, key):
        self._maybe_fail('hget')
        return self._hash(name).get(_b(key))

    def hgetall(self, name):
        self._maybe_fail('hgetall')
        return dict(self._hash(name))

    def hdel(self, name, *keys):
        self._maybe_fail('hdel')
        h = self._hash(name)
        n = 0
        for k in keys:
            if _b(k) in h:
                del h[_b(k)]
                n += 1
        return n

    def hset(self, name, key=None, value=None, mapping=None):
        self._maybe_fail('hset')
        h = self._hash(name)
        items = ([(key, value)] if key is not None else []) + list((mapping or {}).items())
        n = 0
        for k, v in items:
            kb, vb = _b(k), _b(v)
            if kb not in h:
                n += 1
            h[kb] = vb
        return n

    def hexists(self, name, key):
        self._maybe_fail('hexists')
        return _b(key) in self._hash(name)

    def hkeys(self, name):
        self._maybe_fail('hkeys')
        return list(self._hash(name).keys())

    def hvals(self, name):
        self._maybe_fail('hvals')
        return list(self._hash(name).values())

    def hlen(self, name):
        self._maybe_fail('hlen')
        return len(self._hash(name))

    def hmget(self, name, keys, *args):
        self._maybe_fail('hmget')
        ks = list(keys) if isinstance(keys, (list, tuple)) else [keys]
        ks += list(args)
        h = self._hash(name)
        return [h.get(_b(k)) for k in ks]

    def hscan_iter(self, name, match=None, count=None):
        self._maybe_fail('hscan')
        return iter(list(self._hash(name).items()))

    def pipeline(self, transaction=True):
        return _FakePipeline(self)

    def register_script(self, script):
        client = self

        def updater(keys=(), args=()):
            client._maybe_fail('script')
            h = client._hash(keys[0])
            k, v = _b(args[0]), _b(args[1])
            if k in h:
                h[k] = v
                return 0          # HSET on an existing field returns 0 (no new field added)
            return 0
        return updater

    def flushdb(self):
        self.h = {}


class _FakePipeline:
    """commands are queued and run in order by execute(); the results come back as a list"""
    def __init__(self, client):
        self._client, self._queue = client, []

    def __getattr__(self, name):
        target = getattr(self._client, name)

        def queue(*a, **kw):
            self._queue.append((target, a, kw))
            return self
        return queue

    def execute(self):
        out = [f(*a, **kw) for f, a, kw in self._queue]
        self._queue = []
        return out

    def __enter__(self):
        return self

    def __exit__(self, *a):
        return False
