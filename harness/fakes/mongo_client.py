"""In-process stand-in for the pymongo calls vakt.storage.mongo makes (no MongoDB server here).

Implements: client[db][collection], server_info(), insert_one (unique _id, DuplicateKeyError),
find_one(filter-or-id), find(filter, limit, skip, sort), aggregate([{'$match': {'$expr': ...}}]),
update_one($set, upsert), replace_one, delete_one, create_index, drop_index, list_indexes, and the
query operators $and, $elemMatch, $eq, $regex, $in; aggregation expressions $and, $or, $eq,
$anyElementTrue, $map, $regexMatch, field paths '$x' and variables '$$x'.
Documents are deep-copied on the way in and on the way out, as a real driver would serialise them.
`$regex` / `$regexMatch` use Python's `re.search` in place of PCRE."""
import copy
import re

from pymongo.errors import DuplicateKeyError, OperationFailure


class FakeCursor:
    """a pymongo cursor: options may also be given by chaining (`find().sort(...).skip(n).limit(m)`); they are applied,
    in the order sort - skip - limit as the server does, when the cursor is first iterated"""
    def __init__(self, docs, sort=None, skip=0, limit=0):
        self._docs, self._sort, self._skip, self._limit = docs, sort, skip, limit
        self._started = False

    def _check(self):
        if self._started:
            from pymongo.errors import InvalidOperation
            raise InvalidOperation('cannot set options after executing query')

    def sort(self, key_or_list, direction=None):
        self._check()
        self._sort = [(key_or_list, direction if direction is not None else 1)] if isinstance(key_or_list, str) \
            else list(key_or_list)
        return self

    def skip(self, n):
        self._check()
        if not isinstance(n, int):
            raise TypeError('skip must be an integer')
        if n < 0:
            raise ValueError('skip must be >= 0')
        self._skip = n
        return self

    def limit(self, n):
        self._check()
        if not isinstance(n, int):
            raise TypeError('limit must be an integer')
        self._limit = n
        return self

    def batch_size(self, n):
        return self

    def _materialise(self):
        # the query goes to the server when the cursor is first iterated, not when find() / aggregate() is called: the filter
        # is whatever the (mutable) filter document the driver was handed says at that moment, over the collection as it then is
        docs = list(self._docs() if callable(self._docs) else self._docs)
        if self._sort:
            for key, direction in reversed(self._sort):
                docs.sort(key=lambda d: _sort_key(d.get(key)), reverse=direction < 0)
        docs = docs[self._skip:]
        if self._limit:
            docs = docs[:abs(self._limit)]
        return docs

    def __iter__(self):
        self._started = True
        return iter([copy.deepcopy(d) for d in self._materialise()])

    def close(self):
        pass

    def __enter__(self):
        return self

    def __exit__(self, *a):
        return False


def _type_rank(v):
    # BSON comparison order (subset): numbers < strings < objects < arrays < bool ... simplified
    if v is None:
        return 0
    if isinstance(v, bool):
        return 8
    if isinstance(v, (int, float)):
        return 1
    if isinstance(v, str):
        return 2
    if isinstance(v, dict):
        return 3
    if isinstance(v, list):
        return 4
    return 9


def _sort_key(v):
    r = _type_rank(v)
    if r == 2:
        return (r, v.encode('utf-8'))
    if r == 1:
        return (r, v)
    return (r, repr(v))


def _match_value_cond(value, cond):
    """value against {'$eq': x} / {'$regex': p} / {'$in': [...]} / literal"""
    if isinstance(cond, dict) and any(k.startswith('$') for k in cond):
        for op, arg in cond.items():
            if op == '$eq':
                if not _bson_eq(value, arg):
                    return False
            elif op == '$regex':
                if not isinstance(value, str):
                    return False
                try:
                    if re.search(arg, value) is None:
                        return False
                except re.error as e:
                    raise OperationFailure('Regular expression is invalid: %s' % e)
            elif op == '$in':
                if not any(_bson_eq(value, a) for a in arg):
                    return False
            elif op == '$elemMatch':
                if not isinstance(value, list) or not any(_match_value_cond(el, arg) for el in value):
                    return False
            else:
                raise OperationFailure('unknown operator: %s' % op)
        return True
    if isinstance(value, list) and not isinstance(cond, list):
        return any(_bson_eq(el, cond) for el in value) or _bson_eq(value, cond)
    return _bson_eq(value, cond)


def _bson_eq(a, b):
    if isinstance(a, bool) != isinstance(b, bool):
        return False
    if type(a) in (int, float) and type(b) in (int, float):
        return a == b
    if type(a) is not type(b):
        return False
    return a == b


def _match(doc, flt):
    if flt is None:
        return True
    if not isinstance(flt, dict):
        return _bson_eq(doc.get('_id'), flt)
    for k, cond in flt.items():
        if k == '$and':
            if not all(_match(doc, c) for c in cond):
                return False
        elif k == '$or':
            if not any(_match(doc, c) for c in cond):
                return False
        elif k == '$expr':
            if not _truthy(_eval(cond, doc, {})):
                return False
        elif k.startswith('$'):
            raise OperationFailure('unknown top level operator: %s' % k)
        else:
            if k not in doc:
                if isinstance(cond, dict) and '$elemMatch' in cond:
                    return False
                if cond is None:
                    continue
                return False
            if not _match_value_cond(doc[k], cond):
                return False
    return True


def _truthy(v):
    return not (v is None or v is False or v == 0)


_SERVER = [(4, 4, 0)]          # version of the server whose collection is being queried (set by the collection methods)


def _eval(expr, doc, variables):
    if isinstance(expr, str):
        if expr.startswith('$$'):
            if expr[2:] not in variables:
                raise OperationFailure('Use of undefined variable: %s' % expr[2:])
            return variables[expr[2:]]
        if expr.startswith('$'):
            return doc.get(expr[1:])          # missing field -> null
        return expr
    if isinstance(expr, list):
        return [_eval(e, doc, variables) for e in expr]
    if isinstance(expr, dict):
        if len(expr) == 1:
            (op, arg), = expr.items()
            if op == '$literal':
                return arg
            if op == '$and':
                return all(_truthy(_eval(a, doc, variables)) for a in arg)
            if op == '$or':
                return any(_truthy(_eval(a, doc, variables)) for a in arg)
            if op == '$eq':
                a, b = [_eval(x, doc, variables) for x in arg]
                return _bson_eq(a, b)
            if op == '$anyElementTrue':
                arr = _eval(arg[0], doc, variables)
                if not isinstance(arr, list):
                    raise OperationFailure('$anyElementTrue\'s argument must be an array, but is %s' % type(arr).__name__)
                return any(_truthy(x) for x in arr)
            if op == '$map':
                arr = _eval(arg['input'], doc, variables)
                if arr is None:
                    return None
                if not isinstance(arr, list):
                    raise OperationFailure('input to $map must be an array not %s' % type(arr).__name__)
                out = []
                for el in arr:
                    v2 = dict(variables)
                    v2[arg['as']] = el
                    out.append(_eval(arg['in'], doc, v2))
                return out
            if op == '$regexMatch':
                if _SERVER[0] < (4, 2, 0):
                    raise OperationFailure("Unrecognized expression '$regexMatch'")       # new in MongoDB 4.2
                inp = _eval(arg['input'], doc, variables)
                rx = _eval(arg['regex'], doc, variables)
                if inp is None or rx is None:
                    return False
                if not isinstance(inp, str):
                    raise OperationFailure("$regexMatch needs 'input' to be of type string")
                if not isinstance(rx, str):
                    raise OperationFailure("$regexMatch needs 'regex' to be of type string or regex")
                try:
                    return re.search(rx, inp) is not None
                except re.error as e:
                    raise OperationFailure('Invalid Regex in $regexMatch: %s' % e)
            if op.startswith('$'):
                raise OperationFailure('Unrecognized expression %s' % op)
        return {k: _eval(v, doc, variables) for k, v in expr.items()}
    return expr


class FakeCollection:
    def __init__(self, db, name):
        self.db, self.name = db, name
        self.docs = []              # insertion order
        self.indexes = {'_id_': '_id'}
        self.fail_next = None
        self.calls = []

    def _maybe_fail(self, op):
        self.calls.append(op)
        if self.fail_next and (self.fail_next[0] in (op, '*') or (isinstance(self.fail_next[0], tuple) and op in self.fail_next[0])):
            if len(self.fail_next) > 2 and self.fail_next[2] > 0:       # (op, exception, calls of op to let through first)
                self.fail_next = (self.fail_next[0], self.fail_next[1], self.fail_next[2] - 1)
                return
            exc = self.fail_next[1]
            self.fail_next = None
            raise exc

    def insert_one(self, doc):
        self._maybe_fail('insert_one')
        if '_id' not in doc:
            doc['_id'] = 'oid-%d' % (len(self.docs) + 1)
        for d in self.docs:
            if _bson_eq(d['_id'], doc['_id']):
                raise DuplicateKeyError('E11000 duplicate key error collection: %s dup key: { _id: %r }' % (self.name, doc['_id']))
        self.docs.append(copy.deepcopy(doc))

    def find_one(self, flt=None):
        self._maybe_fail('find_one')
        for d in self.docs:
            if _match(d, flt):
                return copy.deepcopy(d)
        return None

    def find(self, flt=None, projection=None, skip=0, limit=0, sort=None, **kw):
        self._maybe_fail('find')
        return FakeCursor(lambda: [d for d in self.docs if _match(d, flt)], sort=list(sort) if sort else None, skip=skip,
                          limit=limit)

    def aggregate(self, pipeline):
        self._maybe_fail('aggregate')
        if not isinstance(pipeline, (list, tuple)):
            raise TypeError('pipeline must be a list')                  # as pymongo does
        _SERVER[0] = tuple(int(x) for x in self.db.client.version.split('.')[:3])
        docs = list(self.docs)
        for stage in pipeline:
            (op, arg), = stage.items()
            if op == '$match':
                docs = [d for d in docs if _match(d, arg)]
            else:
                raise OperationFailure('Unrecognized pipeline stage name: %s' % op)
        return FakeCursor(docs)

    def update_one(self, flt, update, upsert=False, **kw):
        self._maybe_fail('update_one')
        for d in self.docs:
            if _match(d, flt):
                for k, v in update.get('$set', {}).items():
                    if k == '_id' and not _bson_eq(d['_id'], v):
                        raise OperationFailure("Performing an update on the path '_id' would modify the immutable field '_id'")
                    d[k] = copy.deepcopy(v)
                return
        if upsert:
            doc = {}
            if isinstance(flt, dict):
                doc.update({k: v for k, v in flt.items() if not k.startswith('$')})
            doc.update(copy.deepcopy(update.get('$set', {})))
            self.docs.append(doc)

    def replace_one(self, flt, doc, upsert=False, **kw):
        self._maybe_fail('replace_one')
        for i, d in enumerate(self.docs):
            if _match(d, flt):
                new = copy.deepcopy(doc)
                if '_id' in new and not _bson_eq(new['_id'], d['_id']):
                    raise OperationFailure("After applying the update, the (immutable) field '_id' was found to have been altered")
                new['_id'] = d['_id']
                self.docs[i] = new
                return
        if upsert:
            new = copy.deepcopy(doc)
            if '_id' not in new and isinstance(flt, dict) and '_id' in flt:
                new['_id'] = flt['_id']
            self.insert_one(new)

    def delete_one(self, flt, **kw):
        self._maybe_fail('delete_one')
        for i, d in enumerate(self.docs):
            if _match(d, flt):
                del self.docs[i]
                return

    def create_index(self, field, name=None):
        self._maybe_fail('create_index')
        name = name or '%s_1' % field
        self.indexes[name] = field
        return name

    def drop_index(self, name):
        self._maybe_fail('drop_index')
        if name not in self.indexes:
            raise OperationFailure('index not found with name [%s]' % name)
        del self.indexes[name]

    def list_indexes(self):
        return [{'name': n, 'key': {f: 1}} for n, f in self.indexes.items()]

    def delete_many(self, flt, **kw):
        self._maybe_fail('delete_many')
        self.docs = [d for d in self.docs if not _match(d, flt)]

    def insert_many(self, docs, **kw):
        for d in docs:
            self.insert_one(d)

    def estimated_document_count(self, **kw):
        return len(self.docs)

    def count_documents(self, flt, **kw):
        return len([d for d in self.docs if _match(d, flt)])


class FakeDatabase:
    def __init__(self, client, name):
        self.client, self.name = client, name
        self.cols = {}

    def __getitem__(self, name):
        if name not in self.cols:
            self.cols[name] = FakeCollection(self, name)
        return self.cols[name]


class FakeMongoClient:
    def __init__(self, version='4.4.0'):
        self.version = version
        self.dbs = {}

    def server_info(self):
        return {'version': self.version}

    def __getitem__(self, name):
        if name not in self.dbs:
            self.dbs[name] = FakeDatabase(self, name)
        return self.dbs[name]
