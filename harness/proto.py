"""Line-protocol encoders (mirror of lean/Driver/Proto.lean) and builders of real vakt objects.

Abstract forms used by the generators (plain Python data, hashable where needed):

value    a Python value from the model universe: None, bool, int, dyadic float, str, list, tuple,
         dict with str keys
rule     a tuple AST: ('eq', v) ('ne', v) ('gt', v) ('lt', v) ('ge', v) ('le', v)
         ('in', [v..]) ('nin', ..) ('allin', ..) ('allnin', ..) ('anyin', ..) ('anynin', ..)
         ('truthy',) ('falsy',) ('any',) ('neither',) ('pairs',) ('subjeq',) ('acteq',) ('resin',)
         ('raise',) ('const', bool) ('and', [rule..]) ('or', [rule..]) ('not', rule)
         ('streq', s, ci) ('starts', s, ci) ('ends', s, ci) ('contains', s, ci)
         ('regex', pattern) ('cidr', v) ('match', 's'|'a'|'r', None | ('attr', v))
attrval  rule | ('junk', anything)
elem     ('S', str) | ('R', rule) | ('A', [(key, attrval)..])
policy   dict(uid, effect, desc, stag, etag, subjects, resources, actions, context=[(key, attrval)..])
inquiry  dict(resource, action, subject, context)
"""
import math

from vakt.rules.base import Rule
from vakt.rules import operator as r_op, list as r_list, logic as r_logic, string as r_str, net as r_net, \
    inquiry as r_inq
from vakt.policy import Policy
from vakt.guard import Inquiry


class ProtoError(Exception):
    pass


# ---------------------------------------------------------------- values

def enc_str(s):
    return 'S' + ','.join(str(ord(c)) for c in s)


def enc_value(v):
    if v is None:
        return 'N'
    if v is True:
        return 'T'
    if v is False:
        return 'F'
    if isinstance(v, int):
        return 'I%d' % v
    if isinstance(v, float):
        if math.isnan(v) or math.isinf(v):
            raise ProtoError('non-finite float')
        n, d = v.as_integer_ratio()
        return 'D%d/%d' % (n, d.bit_length() - 1)
    if isinstance(v, str):
        return enc_str(v)
    if isinstance(v, list):
        return ' '.join(['L%d' % len(v)] + [enc_value(x) for x in v])
    if isinstance(v, tuple):
        return ' '.join(['U%d' % len(v)] + [enc_value(x) for x in v])
    if isinstance(v, dict):
        parts = ['M%d' % len(v)]
        for k, x in v.items():
            if not isinstance(k, str):
                raise ProtoError('non-str dict key')
            parts.append(enc_str(k))
            parts.append(enc_value(x))
        return ' '.join(parts)
    raise ProtoError('value outside the universe: %r' % (v,))


def in_universe(v):
    try:
        enc_value(v)
        return True
    except ProtoError:
        return False


# ---------------------------------------------------------------- rules

_V1 = {'eq': ('Req', r_op.Eq), 'ne': ('Rne', r_op.NotEq), 'gt': ('Rgt', r_op.Greater), 'lt': ('Rlt', r_op.Less),
       'ge': ('Rge', r_op.GreaterOrEqual), 'le': ('Rle', r_op.LessOrEqual)}
_VS = {'in': ('Rin', r_list.In), 'nin': ('Rnin', r_list.NotIn), 'allin': ('Rallin', r_list.AllIn),
       'allnin': ('Rallnin', r_list.AllNotIn), 'anyin': ('Ranyin', r_list.AnyIn),
       'anynin': ('Ranynin', r_list.AnyNotIn)}
_V0 = {'truthy': ('Rtruthy', r_logic.Truthy), 'falsy': ('Rfalsy', r_logic.Falsy), 'any': ('Rany', r_logic.Any),
       'neither': ('Rneither', r_logic.Neither), 'pairs': ('Rpairs', r_str.PairsEqual),
       'subjeq': ('Rsubjeq', r_inq.SubjectEqual), 'acteq': ('Racteq', r_inq.ActionEqual),
       'resin': ('Rresin', r_inq.ResourceIn)}
_SB = {'streq': ('Rstreq', r_str.Equal), 'starts': ('Rstarts', r_str.StartsWith),
       'ends': ('Rends', r_str.EndsWith), 'contains': ('Rcontains', r_str.Contains)}
_MATCH = {'s': r_inq.SubjectMatch, 'a': r_inq.ActionMatch, 'r': r_inq.ResourceMatch}


class RaisingRule(Rule):
    """user-defined rule whose evaluation raises"""
    def __init__(self, exc='ValueError'):
        self.exc = exc

    def satisfied(self, what, inquiry=None):
        if self.exc in RAISE_BARE:
            raise RAISE_BARE[self.exc]          # an exception *class*: instantiated without arguments
        raise {'ValueError': ValueError, 'KeyError': KeyError, 'RuntimeError': RuntimeError,
               'Exception': Exception, 'ZeroDivisionError': ZeroDivisionError}.get(self.exc, ValueError)('boom')


RAISE_BARE = {'StopIteration': StopIteration, 'AssertionError': AssertionError,
              'NotImplementedError': NotImplementedError, 'LookupError': LookupError}
RAISE_NAMES = ['ValueError', 'KeyError', 'RuntimeError', 'Exception', 'ZeroDivisionError'] + sorted(RAISE_BARE)


class ConstRule(Rule):
    """user-defined rule with a fixed answer"""
    def __init__(self, answer):
        self.answer = answer

    def satisfied(self, what, inquiry=None):
        return self.answer


class ConstRuleValue(ConstRule):
    """the Rule contract is positional (`rule.satisfied(value, inquiry)`): the parameter names are the author's choice"""
    def satisfied(self, value, inq=None):
        return self.answer


class ConstRulePosOnly(ConstRule):
    def satisfied(self, candidate, current_inquiry=None, /):
        return self.answer


class ConstRuleArgs(ConstRule):
    def satisfied(self, *args):
        return self.answer


class DuckRule:
    """a user-defined restriction that does not derive from vakt's Rule: only `satisfied` is ever asked of a rule"""
    def __init__(self, val):
        self.val = val

    def satisfied(self, what, inquiry=None):
        return what == self.val


CONST_CLASSES = [ConstRule, ConstRule, ConstRuleValue, ConstRulePosOnly, ConstRuleArgs]
_const_n = [0]


def const_rule(answer):
    """a user-defined constant rule; the class (the spelling of its signature) rotates"""
    _const_n[0] += 1
    return CONST_CLASSES[_const_n[0] % len(CONST_CLASSES)](answer)


def enc_bool(b):
    return 'T' if b else 'F'


def enc_rule(r):
    tag = r[0]
    if tag in _V1:
        return _V1[tag][0] + ' ' + enc_value(r[1])
    if tag in _VS:
        return ' '.join([_VS[tag][0], str(len(r[1]))] + [enc_value(x) for x in r[1]])
    if tag in _V0:
        return _V0[tag][0]
    if tag == 'raise':
        return 'Rraise'
    if tag == 'const':
        return 'Rconst ' + enc_bool(r[1])
    if tag in ('and', 'or'):
        return ' '.join([('Rand' if tag == 'and' else 'Ror'), str(len(r[1]))] + [enc_rule(x) for x in r[1]])
    if tag == 'not':
        return 'Rnot ' + enc_rule(r[1])
    if tag in _SB:
        return '%s %s %s' % (_SB[tag][0], enc_str(r[1]), enc_bool(r[2]))
    if tag == 'regex':
        return 'Rregex ' + enc_str(r[1])
    if tag == 'cidr':
        return 'Rcidr ' + enc_value(r[1])
    if tag == 'match':
        return 'Rmatch %s %s' % (r[1], '-' if r[2] is None else enc_value(r[2][1]))
    raise ProtoError('unknown rule %r' % (r,))


# deprecated aliases of built-in rules (same meaning by documentation); used by C05 only
ALIASES = {}
for _tag, _mod, _name in (('streq', r_str, 'StringEqualRule'), ('pairs', r_str, 'StringPairsEqualRule'),
                          ('regex', r_str, 'RegexMatchRule'), ('cidr', r_net, 'CIDRRule'),
                          ('subjeq', r_inq, 'SubjectEqualRule'), ('acteq', r_inq, 'ActionEqualRule'),
                          ('resin', r_inq, 'ResourceInRule')):
    if hasattr(_mod, _name):
        ALIASES[_tag] = getattr(_mod, _name)


def build_rule(r, alias=None):
    """real vakt rule object for an abstract rule; `alias` (a random.Random) makes a sixth of the rules that have a
    deprecated alias class be built through it"""
    tag = r[0]
    if alias is not None and tag in ALIASES and alias.random() < 0.17:
        import warnings
        with warnings.catch_warnings():
            warnings.simplefilter('ignore')
            if tag == 'streq':
                return ALIASES[tag](r[1], r[2])
            if tag in ('regex', 'cidr'):
                return ALIASES[tag](r[1])
            return ALIASES[tag]()
    if tag in ('and', 'or') and alias is not None:
        return (r_logic.And if tag == 'and' else r_logic.Or)(*[build_rule(x, alias) for x in r[1]])
    if tag == 'not' and alias is not None:
        return r_logic.Not(build_rule(r[1], alias))
    if tag in _V1:
        return _V1[tag][1](r[1])
    if tag in _VS:
        return _VS[tag][1](*r[1])
    if tag in _V0:
        return _V0[tag][1]()
    if tag == 'raise':
        return RaisingRule(r[1] if len(r) > 1 else 'ValueError')
    if tag == 'const':
        return const_rule(r[1])
    if tag == 'and':
        return r_logic.And(*[build_rule(x) for x in r[1]])
    if tag == 'or':
        return r_logic.Or(*[build_rule(x) for x in r[1]])
    if tag == 'not':
        return r_logic.Not(build_rule(r[1]))
    if tag in _SB:
        return _SB[tag][1](r[1], r[2])
    if tag == 'regex':
        return r_str.RegexMatch(r[1])
    if tag == 'cidr':
        return r_net.CIDR(r[1])
    if tag == 'match':
        return _MATCH[r[1]]() if r[2] is None else _MATCH[r[1]](r[2][1])
    raise ProtoError('unknown rule %r' % (r,))


class Junk:
    """something stored where a rule is expected that has no `satisfied`"""
    def __init__(self, v=None):
        self.v = v

    def __repr__(self):
        return 'Junk(%r)' % (self.v,)


def enc_attrval(a):
    return 'XJ' if a[0] == 'junk' else enc_rule(a)


def build_attrval(a):
    if a[0] == 'junk':
        return a[1]
    return build_rule(a)


def enc_kvs(kvs):
    return ' '.join([str(len(kvs))] + ['%s %s' % (enc_str(k), enc_attrval(a)) for k, a in kvs])


def enc_elem(e):
    if e[0] == 'S':
        return 'ES ' + enc_str(e[1])
    if e[0] == 'R':
        return 'ER ' + enc_rule(e[1])
    if e[0] == 'A':
        return 'EA ' + enc_kvs(e[1])
    raise ProtoError('unknown elem %r' % (e,))


def build_elem(e):
    if e[0] == 'S':
        return e[1]
    if e[0] == 'R':
        return build_rule(e[1])
    if e[0] == 'A':
        return {k: build_attrval(a) for k, a in e[1]}
    raise ProtoError('unknown elem %r' % (e,))


_policy_classes = {}


def policy_class(stag, etag):
    if (stag, etag) == ('<', '>'):
        return Policy
    key = (stag, etag)
    if key not in _policy_classes:
        _policy_classes[key] = type('PolicyTags_%d_%d' % (ord(stag), ord(etag)), (Policy,), {
            'start_tag': property(lambda self, s=stag: s),
            'end_tag': property(lambda self, e=etag: e),
        })
    return _policy_classes[key]


from common import ImplDefect  # noqa: E402


POLICY_ATTRS = ('uid', 'effect', 'description', 'subjects', 'resources', 'actions', 'context', 'type')


def build_policy(p):
    obj = _build_policy(p)
    missing = [a for a in POLICY_ATTRS if not hasattr(obj, a)]
    if missing:
        raise ImplDefect('a policy built by %s(...) has no attribute %s' % (type(obj).__name__, ', '.join(missing)),
                         {'constructor': type(obj).__name__, 'policy': repr(p)})
    return obj


def _build_policy(p):
    cls = policy_class(p.get('stag', '<'), p.get('etag', '>'))
    if cls is Policy and p['effect'] in ('allow', 'deny') and (len(p['subjects']) + 2 * len(p['resources']) + len(repr(p['uid']))) % 4 == 0:
        # the convenience classes PolicyAllow / PolicyDeny fix the effect themselves (a quarter of the plain policies)
        from vakt.policy import PolicyAllow, PolicyDeny
        return (PolicyAllow if p['effect'] == 'allow' else PolicyDeny)(
            p['uid'],
            subjects=[build_elem(e) for e in p['subjects']],
            resources=[build_elem(e) for e in p['resources']],
            actions=[build_elem(e) for e in p['actions']],
            context={k: build_attrval(a) for k, a in p['context']},
            description=p.get('desc'))
    # element collections are given as tuples for a fifth of the policies (any iterable of elements is a valid definition)
    seq = tuple if (len(p['subjects']) + 3 * len(p['actions']) + len(repr(p['uid']))) % 5 == 0 else list
    return cls(p['uid'],
               subjects=seq(build_elem(e) for e in p['subjects']),
               effect=p['effect'],
               resources=seq(build_elem(e) for e in p['resources']),
               actions=seq(build_elem(e) for e in p['actions']),
               context={k: build_attrval(a) for k, a in p['context']},
               description=p.get('desc'))


def enc_elems(es):
    return ' '.join([str(len(es))] + [enc_elem(e) for e in es])


def enc_policy(p, effect=None):
    """`effect` overrides the abstract effect with the one the constructed object reports"""
    eff = p['effect'] if effect is None else effect[0]
    return ' '.join(['P', enc_value(p['uid']), enc_value(eff), enc_value(p.get('desc')),
                     str(ord(p.get('stag', '<'))), str(ord(p.get('etag', '>'))),
                     enc_elems(p['subjects']), enc_elems(p['resources']), enc_elems(p['actions']),
                     enc_kvs(p['context'])])


class StrSub(str):
    """a str subclass (an Enum-with-str-mixin member, a tagged string type): equal to and matched like its text"""


EXOTIC_STR = [False]      # switched on by the checks of the string / regex checkers and of the plain guard


def _exotic(v):
    if EXOTIC_STR[0] and type(v) is str and len(v) % 3 == 1:
        return StrSub(v)
    return v


def build_inquiry(q):
    return Inquiry(resource=_exotic(q['resource']), action=_exotic(q['action']), subject=_exotic(q['subject']),
                   context=q['context'])


def enc_inquiry_obj(inq):
    """encode what the constructed Inquiry object actually holds (after `or ''` normalisation)"""
    return ' '.join(['Q', enc_value(inq.resource), enc_value(inq.action), enc_value(inq.subject),
                     enc_value(inq.context)])


def enc_inquiry(q):
    return enc_inquiry_obj(build_inquiry(q))
