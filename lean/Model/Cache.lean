/-!
# `functools.lru_cache` as a state machine

`cap = none` is `maxsize=None` (unbounded), `some 0` disables caching, `some n` keeps the `n`
most recently used entries (most recent first).  Results for which `keep` is false (a raised
exception) are never stored.
-/
namespace Vakt

structure Lru (κ ν : Type) where
  cap : Option Nat
  entries : List (κ × ν)

namespace Lru
variable {κ ν : Type} [DecidableEq κ]

def find (k : κ) : List (κ × ν) → Option ν
  | [] => none
  | (k', v) :: rest => if k = k' then some v else find k rest

def remove (k : κ) : List (κ × ν) → List (κ × ν)
  | [] => []
  | (k', v) :: rest => if k = k' then rest else (k', v) :: remove k rest

def trim : Option Nat → List (κ × ν) → List (κ × ν)
  | none, l => l
  | some n, l => l.take n

def empty (cap : Option Nat) : Lru κ ν := { cap := cap, entries := [] }

/-- one call through the cache: (answer, was the wrapped function called?, new cache) -/
def call (c : Lru κ ν) (f : κ → ν) (keep : ν → Bool) (k : κ) : ν × Bool × Lru κ ν :=
  match c.cap with
  | some 0 => (f k, true, c)
  | _ =>
    match find k c.entries with
    | some v => (v, false, { c with entries := (k, v) :: remove k c.entries })
    | none =>
      let v := f k
      (v, true, if keep v then { c with entries := trim c.cap ((k, v) :: c.entries) } else c)

/-- `cache_clear()` -/
def clear (c : Lru κ ν) : Lru κ ν := { c with entries := [] }

/-- a history of calls against a fixed function -/
def run (f : κ → ν) (keep : ν → Bool) : Lru κ ν → List κ → List ν × Lru κ ν
  | c, [] => ([], c)
  | c, k :: ks =>
    let r := c.call f keep k
    let rest := run f keep r.2.2 ks
    (r.1 :: rest.1, rest.2)

end Lru
end Vakt
