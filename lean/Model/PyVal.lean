/-!
# Python value universe used by the vakt model

Core Lean only.  `PyVal` is the fragment of Python's data model that vakt's decision logic
observes: `None`, `bool`, `int`, finite dyadic `float`s (exact: `num / 2^exp`), `str`
(as a list of code points), `list`, `tuple`, and string-keyed `dict` (insertion order kept).

All partial Python operations return `Except PyErr _`; nothing is defaulted.
-/

namespace Vakt

inductive PyVal where
  | none
  | bool (b : Bool)
  | int (n : Int)
  | flt (num : Int) (exp : Nat)
  | str (s : List Char)
  | list (xs : List PyVal)
  | tuple (xs : List PyVal)
  | dict (kvs : List (List Char × PyVal))
  deriving Repr, Inhabited

/-- A raised Python exception.  Only the fact of raising is observable at property level. -/
inductive PyErr where
  | raised
  deriving Repr, DecidableEq, Inhabited

abbrev R := Except PyErr Bool

deriving instance DecidableEq for Except

namespace PyVal

/-- numeric view `(num, exp)` meaning `num / 2^exp`; `bool` is a subtype of `int` in Python -/
def asNum : PyVal → Option (Int × Nat)
  | .bool b => some (if b then 1 else 0, 0)
  | .int n => some (n, 0)
  | .flt a e => some (a, e)
  | _ => Option.none

def numEq (x y : Int × Nat) : Bool := x.1 * (2 : Int) ^ y.2 == y.1 * (2 : Int) ^ x.2
def numLt (x y : Int × Nat) : Bool := decide (x.1 * (2 : Int) ^ y.2 < y.1 * (2 : Int) ^ x.2)

def lookup (k : List Char) : List (List Char × PyVal) → Option PyVal
  | [] => Option.none
  | (k', v) :: rest => if k = k' then some v else lookup k rest

mutual
/-- Python `==` on this universe -/
def pyEq : PyVal → PyVal → Bool
  | .none, b => match b with | .none => true | _ => false
  | .str a, b => match b with | .str b => a == b | _ => false
  | .list a, b => match b with | .list b => pyEqList a b | _ => false
  | .tuple a, b => match b with | .tuple b => pyEqList a b | _ => false
  | .dict a, b => match b with | .dict b => a.length == b.length && dictSub a b | _ => false
  | .bool x, b => match asNum b with | some y => numEq (if x then 1 else 0, 0) y | Option.none => false
  | .int x, b => match asNum b with | some y => numEq (x, 0) y | Option.none => false
  | .flt x e, b => match asNum b with | some y => numEq (x, e) y | Option.none => false
def pyEqList : List PyVal → List PyVal → Bool
  | [], ys => match ys with | [] => true | _ => false
  | x :: xs, ys => match ys with | y :: ys => pyEq x y && pyEqList xs ys | [] => false
/-- every entry of the first dict is present, with an equal value, in the second -/
def dictSub : List (List Char × PyVal) → List (List Char × PyVal) → Bool
  | [], _ => true
  | (k, v) :: rest, b =>
    (match lookup k b with | some v' => pyEq v v' | Option.none => false) && dictSub rest b
end

/-- Python truthiness -/
def truthy : PyVal → Bool
  | .none => false
  | .bool b => b
  | .int n => n != 0
  | .flt a _ => a != 0
  | .str s => !s.isEmpty
  | .list xs => !xs.isEmpty
  | .tuple xs => !xs.isEmpty
  | .dict kvs => !kvs.isEmpty

mutual
def hashable : PyVal → Bool
  | .list _ => false
  | .dict _ => false
  | .tuple xs => hashableList xs
  | _ => true
def hashableList : List PyVal → Bool
  | [] => true
  | x :: xs => hashable x && hashableList xs
end

def strLt : List Char → List Char → Bool
  | [], [] => false
  | [], _ :: _ => true
  | _ :: _, [] => false
  | a :: as, b :: bs => if a.toNat < b.toNat then true else if a.toNat > b.toNat then false else strLt as bs

mutual
/-- Python rich comparison as a three-way result; `TypeError` for unorderable operands.
Lists/tuples: the first position where the elements are not `==` decides (and may raise). -/
def pyCmp : PyVal → PyVal → Except PyErr Ordering
  | .str a, b => match b with
      | .str b => .ok (if a == b then .eq else if strLt a b then .lt else .gt)
      | _ => .error .raised
  | .list a, b => match b with | .list b => pyCmpList a b | _ => .error .raised
  | .tuple a, b => match b with | .tuple b => pyCmpList a b | _ => .error .raised
  | .none, _ => .error .raised
  | .dict _, _ => .error .raised
  | .bool x, b => match asNum b with
      | some y => .ok (if numEq (if x then 1 else 0, 0) y then .eq else if numLt (if x then 1 else 0, 0) y then .lt else .gt)
      | Option.none => .error .raised
  | .int x, b => match asNum b with
      | some y => .ok (if numEq (x, 0) y then .eq else if numLt (x, 0) y then .lt else .gt)
      | Option.none => .error .raised
  | .flt x e, b => match asNum b with
      | some y => .ok (if numEq (x, e) y then .eq else if numLt (x, e) y then .lt else .gt)
      | Option.none => .error .raised
def pyCmpList : List PyVal → List PyVal → Except PyErr Ordering
  | [], ys => match ys with | [] => .ok .eq | _ => .ok .lt
  | x :: xs, ys => match ys with
      | [] => .ok .gt
      | y :: ys => if pyEq x y then pyCmpList xs ys else pyCmp x y
end

def pyLt (a b : PyVal) : R := (pyCmp a b).map (· == .lt)
def pyLe (a b : PyVal) : R := (pyCmp a b).map (· != .gt)
def pyGt (a b : PyVal) : R := (pyCmp a b).map (· == .gt)
def pyGe (a b : PyVal) : R := (pyCmp a b).map (· != .lt)

/-- `x in <list>` : identity-or-equality scan, never raises on this universe -/
def memList (x : PyVal) (xs : List PyVal) : Bool := xs.any (pyEq x)

/-- `x in <set>` : `TypeError` when `x` is unhashable -/
def memSet (x : PyVal) (data : List PyVal) : R :=
  if hashable x then .ok (data.any (pyEq x)) else .error .raised

/-- `set(xs)` succeeds iff every element is hashable -/
def toSet (xs : List PyVal) : Except PyErr (List PyVal) :=
  if hashableList xs then .ok xs else .error .raised

def isStr : PyVal → Bool | .str _ => true | _ => false
def isList : PyVal → Bool | .list _ => true | _ => false
def isDict : PyVal → Bool | .dict _ => true | _ => false

/-- `a in b` for strings (substring) -/
def isInfix : List Char → List Char → Bool
  | [], _ => true
  | needle, [] => needle.isEmpty
  | needle, h :: t => needle.isPrefixOf (h :: t) || isInfix needle t

def natDigits (n : Nat) : List Char := (toString n).toList
def intStr (n : Int) : List Char := (toString n).toList

/-- `str(x)` for the atoms whose text is stable; `none` = outside the modelled domain -/
def pyStr : PyVal → Option (List Char)
  | .none => some "None".toList
  | .bool true => some "True".toList
  | .bool false => some "False".toList
  | .int n => some (intStr n)
  | .str s => some s
  | _ => Option.none

end PyVal
end Vakt
