import Model.Store
import Model.Cache
/-!
# `create_cached_guard`: an observable storage, a guard, and a decision cache

`answer store k` is what an uncached guard over `store` answers to the inquiry with canonical
form `k` (C01; any function here).  A mutation goes through `ObservableMutationStorage`: the
inner storage call first, then — only if it returned — one notification, which clears the
cache.  An ask goes through the cache wrapped around `is_allowed_check`.
-/
namespace Vakt.CachedGuard
open Vakt.Store

/-- what a cache back-end must provide (`AllowanceCacheBackend`: wrap / invalidate).  A hit may
reorganise the cache (recency), so `lookup` returns the new state as well. -/
structure Backend (κ σ : Type) where
  init : σ
  lookup : σ → κ → Option (Bool × σ)
  put : σ → κ → Bool → σ
  clear : σ → σ

/-- the README's contract for a back-end, stated through an abstraction `mem s k v` ("`s` holds
`v` for key `k`"): nothing is held initially or after an invalidation, a store adds at most the
stored pair, a hit returns a held value and never adds anything -/
structure Backend.Lawful {κ σ : Type} (b : Backend κ σ) (mem : σ → κ → Bool → Prop) : Prop where
  mem_init : ∀ k v, ¬ mem b.init k v
  mem_clear : ∀ s k v, ¬ mem (b.clear s) k v
  mem_put : ∀ s k v k' v', mem (b.put s k v) k' v' → (k' = k ∧ v' = v) ∨ mem s k' v'
  hit_mem : ∀ s k v s', b.lookup s k = some (v, s') → mem s k v
  hit_sub : ∀ s k v s' k' v', b.lookup s k = some (v, s') → mem s' k' v' → mem s k' v'

structure CG (σ : Type) where
  store : St
  cache : σ
  notifications : Nat          -- how many times the cache was notified
  storageAsks : Nat            -- how many times the storage was consulted for a decision
  deriving Repr

inductive COp (κ : Type) where
  | mutate (op : Op)           -- add / update / delete / fault through the observable storage
  | read                       -- get / get_all / retrieve_all / find_for_inquiry: plain proxies (C08: reads are pure)
  | ask (k : κ)

def isMutation : Op → Bool
  | .add .. => true | .update .. => true | .delete .. => true | .fault => true
  | _ => false

def raised : Out → Bool
  | .existsErr => true | .rejected => true | .valueError => true
  | _ => false

variable {κ σ : Type}

/-- one step of the cached guard; returns the answer for an ask -/
def step (cfg : Cfg) (answer : St → κ → Bool) (b : Backend κ σ) (g : CG σ) : COp κ → CG σ × Option Bool
  | .mutate op =>
    let r := Store.step cfg g.store op
    if raised r.2 then ({ g with store := r.1 }, none)          -- the call raised: no notification
    else ({ g with store := r.1, cache := b.clear g.cache, notifications := g.notifications + 1 }, none)
  | .read => (g, none)
  | .ask k =>
    match b.lookup g.cache k with
    | some (v, c') => ({ g with cache := c' }, some v)
    | none =>
      let v := answer g.store k
      ({ g with cache := b.put g.cache k v, storageAsks := g.storageAsks + 1 }, some v)

def run (cfg : Cfg) (answer : St → κ → Bool) (b : Backend κ σ) : CG σ → List (COp κ) → CG σ × List (Option Bool)
  | g, [] => (g, [])
  | g, op :: rest =>
    let r := step cfg answer b g op
    let t := run cfg answer b r.1 rest
    (t.1, r.2 :: t.2)

/-- the same history against an uncached guard -/
def runPlain (cfg : Cfg) (answer : St → κ → Bool) : St → List (COp κ) → St × List (Option Bool)
  | s, [] => (s, [])
  | s, .mutate op :: rest =>
    let t := runPlain cfg answer (Store.step cfg s op).1 rest
    (t.1, none :: t.2)
  | s, .read :: rest =>
    let t := runPlain cfg answer s rest
    (t.1, none :: t.2)
  | s, .ask k :: rest =>
    let t := runPlain cfg answer s rest
    (t.1, some (answer s k) :: t.2)

def initial (b : Backend κ σ) (s : St) : CG σ := { store := s, cache := b.init, notifications := 0, storageAsks := 0 }

/-- the default back-end: `functools.lru_cache(maxsize)` -/
def lruBackend [DecidableEq κ] (cap : Option Nat) : Backend κ (Lru κ Bool) where
  init := Lru.empty cap
  lookup c k := match c.cap with
    | some 0 => none
    | _ => match Lru.find k c.entries with
      | some v => some (v, { c with entries := (k, v) :: Lru.remove k c.entries })
      | none => none
  put c k v := match c.cap with
    | some 0 => c
    | _ => { c with entries := Lru.trim c.cap ((k, v) :: c.entries) }
  clear c := c.clear

end Vakt.CachedGuard
