import Model.Rules
/-!
# Policies as the checkers and the guard observe them
-/
namespace Vakt

/-- a value stored where a rule is expected (attribute dictionaries, context) -/
inductive AttrVal where
  | rule (r : Rule)
  | junk                      -- anything without a callable `satisfied`
  deriving Repr, Inhabited

inductive Elem where
  | str (s : List Char)
  | rule (r : Rule)
  | attrs (kvs : List (List Char × AttrVal))
  deriving Repr, Inhabited

inductive Field where
  | actions | subjects | resources
  deriving Repr, DecidableEq, Inhabited

structure Policy where
  uid : PyVal
  effect : PyVal
  description : PyVal
  subjects : List Elem
  resources : List Elem
  actions : List Elem
  context : List (List Char × AttrVal)
  stag : Char
  etag : Char
  deriving Repr, Inhabited

def Policy.field (p : Policy) : Field → List Elem
  | .actions => p.actions
  | .subjects => p.subjects
  | .resources => p.resources

/-- `Policy.allow_access`: the effect is *exactly* the allow constant -/
def Policy.allowAccess (p : Policy) : Bool := PyVal.pyEq p.effect (.str Generated.allowConst)

def Elem.isStr : Elem → Bool | .str _ => true | _ => false

end Vakt
