import Model.Checker
/-!
# The guard (`vakt/guard.py`): deny-overrides over the candidates, fail closed

`matchP`, `filterM`, `decideCore`, `decide` are generic in the per-policy match function
`m : Policy → R` so that the C01/C02 theorems hold for *any* checker; `guardMatch` instantiates
it with a checker kind and the context restriction as the source does.
-/
namespace Vakt
open PyVal

/-- Python's `a and b` on results: short-circuit on `False`, a raise propagates -/
def andThen (a : R) (b : Unit → R) : R :=
  match a with
  | .error e => .error e
  | .ok false => .ok false
  | .ok true => b ()

/-- `Guard.check_context_restriction` -/
def ctxLoop (q : Inquiry) : List (List Char × AttrVal) → R
  | [] => .ok true
  | (k, r) :: rest =>
    match q.context with
    | .dict d =>
      (match lookup k d with
       | Option.none => .ok false                         -- KeyError → False
       | some v =>
         (match r with
          | .junk => .error .raised                       -- no `satisfied` → AttributeError
          | .rule r =>
            (match r.eval v (some q) with
             | .error e => .error e                       -- NOT swallowed here
             | .ok false => .ok false
             | .ok true => ctxLoop q rest)))
    | _ => .error .raised                                 -- subscripting a non-dict context

def ctxOk (p : Policy) (q : Inquiry) : R := ctxLoop q p.context

/-- the four-way `and` inside the list comprehension -/
def matchP (fits : Policy → Field → PyVal → Inquiry → R) (p : Policy) (q : Inquiry) : R :=
  andThen (fits p .actions q.action q) fun _ =>
  andThen (fits p .subjects q.subject q) fun _ =>
  andThen (fits p .resources q.resource q) fun _ => ctxOk p q

/-- the list comprehension: every policy is evaluated in order, the first raise aborts -/
def filterM (m : Policy → R) : List Policy → Except PyErr (List Policy)
  | [] => .ok []
  | p :: ps =>
    match m p with
    | .error e => .error e
    | .ok b =>
      match filterM m ps with
      | .error e => .error e
      | .ok rest => .ok (if b then p :: rest else rest)

structure AuditRec where
  allow : Bool
  candidates : List Policy
  deciders : List Policy
  deriving Repr, Inhabited

/-- `Guard.check_policies_allow`: answer and the audit record it emits -/
def decideFiltered (filtered : List Policy) : Bool × AuditRec :=
  if filtered.isEmpty then (false, ⟨false, filtered, []⟩)
  else match filtered.find? (fun p => !p.allowAccess) with
    | some p => (false, ⟨false, filtered, [p]⟩)
    | Option.none => (true, ⟨true, filtered, filtered⟩)

def decideCore (m : Policy → R) (ps : List Policy) : Except PyErr (Bool × AuditRec) :=
  match filterM m ps with
  | .error e => .error e
  | .ok filtered => .ok (decideFiltered filtered)

/-- what the storage hands to the guard -/
inductive StoreAns where
  | raises                                           -- `find_for_inquiry` raised
  | nothing                                          -- it returned `None`
  | items (xs : List Policy) (failAt : Option Nat)   -- an iterable that raises before yielding item `n`
  deriving Repr, Inhabited

/-- iterating the storage result inside the comprehension: a fault at position `n` is reached
iff no earlier policy raised -/
def decideAns (m : Policy → R) : StoreAns → Except PyErr (Bool × AuditRec)
  | .raises => .error .raised
  | .nothing => .ok (false, ⟨false, [], []⟩)
  | .items xs Option.none => decideCore m xs
  | .items xs (some n) =>
    if n ≤ xs.length then
      (match filterM m (xs.take n) with
       | .error e => .error e
       | .ok _ => .error .raised)
    else decideCore m xs

/-- `Guard.is_allowed_check`: any exception becomes deny -/
def isAllowed (m : Policy → R) (ans : StoreAns) : Bool :=
  match decideAns m ans with
  | .error _ => false
  | .ok (b, _) => b

/-- the audit records emitted by one call (none when evaluation did not complete, none for `None`) -/
def auditOf (m : Policy → R) (ans : StoreAns) : List AuditRec :=
  match ans with
  | .nothing => []
  | _ => match decideAns m ans with
    | .error _ => []
    | .ok (_, a) => [a]

def decide (m : Policy → R) (ps : List Policy) : Bool := isAllowed m (.items ps Option.none)

def guardMatch (k : CheckerKind) (q : Inquiry) (p : Policy) : R := matchP (fits k) p q

/-- `Guard(storage, checker).is_allowed(q)` over a memory-like storage holding `ps` -/
def guardDecide (k : CheckerKind) (ps : List Policy) (q : Inquiry) : Bool := decide (guardMatch k q) ps

end Vakt
