import Model.RuleCodec
import Model.Checker
/-!
# What the storages write for a policy, and what they read back

* **MongoStorage** (`__prepare_doc` / `__prepare_from_doc`): the JSON document of the policy, plus — for a
  string-based policy — one `<field>_compiled_regex` array per definition field (the compiled pattern text of an
  element that contains both tags, the element itself otherwise), plus `_id`.  `update` is a `$set` of that
  document onto the stored one (fields the new document does not have stay behind).  Reading deletes `_id`
  and the compiled arrays and hands the rest to `Policy.from_json`.
* **SQLStorage** (`PolicyModel._save` / `to_policy`): a row (uid, type, description, effect as a Boolean,
  context as JSON) and one child row per element (`*_string` and `*_regex` for a string-based policy, the JSON
  of the element otherwise); reading rebuilds the elements according to the stored type number.
* **RedisStorage** with the JSON serializer stores `Policy.to_json()` itself (`RuleCodec.encPolicy`).

`compile` stands for `compile_regex(el, start_tag, end_tag).pattern`; it fails (`none`) on an unbalanced or
invalid element, and then nothing is written (the mutation raises).
-/
namespace Vakt.StorageCodec
open Vakt PyVal Serialize RuleCodec

abbrev Compile := Char → Char → List Char → Option (List Char)

/-- `policy.type == TYPE_STRING_BASED` as the constructor computes it: no element that is not a string -/
def strBased (p : Policy) : Bool :=
  p.subjects.all Elem.isStr && p.resources.all Elem.isStr && p.actions.all Elem.isStr

def typeOf (p : Policy) : Nat := if strBased p then Generated.typeStringBased else Generated.typeRuleBased

/-- `policy.start_tag in el and policy.end_tag in el` -/
def hasTags (p : Policy) (s : List Char) : Bool := s.contains p.stag && s.contains p.etag

/-! ## The pattern text `compile_regex(...).pattern` that both storages keep next to a tagged element -/

/-- the characters `re.escape` puts a backslash in front of (CPython 3.7+) -/
def reSpecial : List Char :=
  ['(', ')', '[', ']', '{', '}', '?', '*', '+', '-', '|', '^', '$', '\\', '.', '&', '~', '#', ' ', '\t', '\n', '\r',
   Char.ofNat 11, Char.ofNat 12]

def reEscape (s : List Char) : List Char := s.flatMap (fun c => if reSpecial.contains c then ['\\', c] else [c])

/-- `pattern + '%s(%s)' % (re.escape(raw), part)` over the pieces, then the escaped tail -/
def patternOfPieces : List Piece → List Char
  | [] => []
  | Piece.lit l :: ps => reEscape l ++ patternOfPieces ps
  | Piece.seg x :: ps => '(' :: x ++ ')' :: patternOfPieces ps

inductive CompileRes where
  | text (s : List Char)
  | raises                 -- unbalanced delimiters, or `re.error` from a segment / the assembled pattern
  | unmodelled             -- a segment outside the modelled regex subset
  deriving Repr, DecidableEq, Inhabited

/-- `compile_regex(e, s, t).pattern`: every segment is compiled on its own and then the assembled pattern -/
def compileText (s t : Char) (e : List Char) : CompileRes :=
  match TagParser.scan s t e with
  | Option.none => .raises
  | some ps =>
    match piecesRe ps with
    | .ok _ _ => .text ('^' :: patternOfPieces ps ++ ['$'])
    | .invalid => .raises
    | .unsupported => .unmodelled

/-- the compiler the storage models are instantiated with in the driver -/
def modelCompile : Compile := fun s t e =>
  match compileText s t e with
  | .text x => some x
  | _ => Option.none

/-- every tagged element of the policy is inside the modelled regex subset -/
def compileModelled (p : Policy) : Bool :=
  (p.subjects ++ p.resources ++ p.actions).all (fun e => match e with
    | .str s => !hasTags p s || compileText p.stag p.etag s != .unmodelled
    | _ => true)

/-! ## Mongo documents -/

def kId : List Char := "_id".toList
def kActionsC : List Char := "actions_compiled_regex".toList
def kSubjectsC : List Char := "subjects_compiled_regex".toList
def kResourcesC : List Char := "resources_compiled_regex".toList

/-- `doc[k] = v` on an insertion-ordered dictionary -/
def setKey (k : List Char) (v : PyVal) : Doc → Doc
  | [] => [(k, v)]
  | (k', v') :: rest => if k = k' then (k, v) :: rest else (k', v') :: setKey k v rest

/-- `{"$set": upd}` applied to a stored document -/
def setAll (upd : Doc) (d : Doc) : Doc := upd.foldl (fun acc kv => setKey kv.1 kv.2 acc) d

def delKey (k : List Char) (d : Doc) : Doc := d.filter (fun kv => kv.1 != k)

/-- the entry of a `*_compiled_regex` array for one element of a string-based policy -/
def compiledElem (compile : Compile) (p : Policy) : Elem → Option PyVal
  | .str s => if hasTags p s then (compile p.stag p.etag s).map .str else some (.str s)
  | _ => Option.none

/-- `MongoStorage.__prepare_doc` -/
def mongoDoc (compile : Compile) (p : Policy) : Option Doc :=
  let base := encPolicy p (.int (typeOf p))
  if strBased p then
    match mapOpt (compiledElem compile p) p.actions, mapOpt (compiledElem compile p) p.subjects,
          mapOpt (compiledElem compile p) p.resources with
    | some a, some s, some r =>
      some (setKey kId p.uid (setKey kResourcesC (.list r) (setKey kSubjectsC (.list s) (setKey kActionsC (.list a) base))))
    | _, _, _ => Option.none
  else some (setKey kId p.uid base)

/-- `MongoStorage.__prepare_from_doc` up to the call of `Policy.from_json` -/
def stripMongo (d : Doc) : Doc := delKey kResourcesC (delKey kSubjectsC (delKey kActionsC (delKey kId d)))

def fromMongoDoc (n : Nat) (stag etag : Char) (d : Doc) : Option Policy := decPolicy n stag etag (stripMongo d)

/-! ## SQL rows -/

structure ElemRow where
  json : Option PyVal             -- `subject` / `resource` / `action`: the JSON of a rule element
  str : Option (List Char)        -- `*_string`
  regex : Option (List Char)      -- `*_regex`
  deriving Repr, Inhabited

structure SqlRow where
  uid : PyVal
  typ : PyVal
  description : PyVal
  effect : Bool
  context : PyVal
  subjects : List ElemRow
  resources : List ElemRow
  actions : List ElemRow
  deriving Repr, Inhabited

/-- what a `String(255)` primary key gives back for the uid that was written: text stays, an integer comes back
as its decimal text (the recorded finding `uid-type:sqlite`); other uid types are outside the model -/
def storedUid : PyVal → Option PyVal
  | .str s => some (.str s)
  | .int n => some (.str (toString n).toList)
  | _ => Option.none

/-- `PolicyModel._policy_element_to_db` -/
def elemToDb (compile : Compile) (p : Policy) (e : Elem) : Option ElemRow :=
  if strBased p then
    match e with
    | .str s =>
      if hasTags p s then (compile p.stag p.etag s).map (fun c => { json := Option.none, str := some s, regex := some c })
      else some { json := Option.none, str := some s, regex := Option.none }
    | _ => Option.none
  else some { json := some (encElem e), str := Option.none, regex := Option.none }

/-- `PolicyModel._save` -/
def toRow (compile : Compile) (p : Policy) : Option SqlRow :=
  match storedUid p.uid, mapOpt (elemToDb compile p) p.subjects, mapOpt (elemToDb compile p) p.resources,
        mapOpt (elemToDb compile p) p.actions with
  | some u, some s, some r, some a =>
    some { uid := u, typ := .int (typeOf p), description := p.description,
           effect := pyEq p.effect (.str Generated.allowConst), context := .dict (encAttrs p.context),
           subjects := s, resources := r, actions := a }
  | _, _, _, _ => Option.none

/-- `PolicyModel._policy_element_from_db` -/
def elemFromDb (n : Nat) (typ : PyVal) (r : ElemRow) : Option Elem :=
  if pyEq typ (.int Generated.typeStringBased) then r.str.map .str
  else match r.json with
    | some j => decElem n j
    | Option.none => Option.none

/-- `PolicyModel.to_policy` -/
def toPolicy (n : Nat) (stag etag : Char) (row : SqlRow) : Option Policy :=
  match mapOpt (elemFromDb n row.typ) row.subjects, mapOpt (elemFromDb n row.typ) row.resources,
        mapOpt (elemFromDb n row.typ) row.actions, decCtx n row.context with
  | some s, some r, some a, some c =>
    some { uid := row.uid, effect := .str (if row.effect then Generated.allowConst else Generated.denyConst),
           description := row.description, subjects := s, resources := r, actions := a, context := c,
           stag := stag, etag := etag }
  | _, _, _, _ => Option.none

/-- what the SQL storage is expected to give back: the policy with its uid as text and its effect reduced to
allow / deny by comparison with the allow constant -/
def sqlNorm (p : Policy) (u : PyVal) : Policy :=
  { p with uid := u, effect := .str (if p.allowAccess then Generated.allowConst else Generated.denyConst) }

end Vakt.StorageCodec
