import Model.Rules
import Model.Policy
import Model.Serialize
import Model.Generated
/-!
# The JSON codec of rule objects (what `jsonpickle` writes for a `Rule`, and reads back)

A rule object is written as a dictionary holding its class path under `py/object` and its
instance attributes; tuples are tagged `py/tuple`, sets `py/set`, a compiled pattern is written
as a `re.Pattern` object with its source.  The class paths come from `Generated.ruleClasses`
(regenerated from /repo on every run, in the order of the constructors below).

`decRule` takes fuel: one unit per nesting level of rule objects.
-/
namespace Vakt.RuleCodec
open Vakt PyVal Serialize

def tagSet : List Char := "py/set".toList
def kVal : List Char := "val".toList
def kCi : List Char := "ci".toList
def kData : List Char := "data".toList
def kRules : List Char := "rules".toList
def kRule : List Char := "rule".toList
def kRegex : List Char := "regex".toList
def kPattern : List Char := "pattern".toList
def kCidr : List Char := "cidr".toList
def kAttribute : List Char := "attribute".toList
def kAnswer : List Char := "answer".toList
def rePatternCls : List Char := "re.Pattern".toList

/-- class paths in constructor order -/
def classes : List (List Char) := Generated.ruleClasses.map String.toList

def cls (i : Nat) : List Char := classes.getD i []

def clsIndex (c : List Char) : Nat := classes.idxOf c

def obj (i : Nat) (attrs : List (List Char × PyVal)) : PyVal :=
  .dict ((Generated.objectTag, .str (cls i)) :: attrs)

def fieldIdx : InqField → Nat
  | .subject => 26 | .action => 27 | .resource => 28

mutual
/-- no dictionary inside the value uses one of jsonpickle's reserved tags as a key -/
def noReserved : PyVal → Bool
  | .dict kvs => noReservedKVs kvs
  | .list xs => noReservedList xs
  | .tuple xs => noReservedList xs
  | _ => true
def noReservedList : List PyVal → Bool
  | [] => true
  | x :: xs => noReserved x && noReservedList xs
def noReservedKVs : List (List Char × PyVal) → Bool
  | [] => true
  | (k, v) :: rest => !(Generated.reservedTags.map String.toList).contains k && noReserved v && noReservedKVs rest
end

/-- the `attribute` of the inquiry-match rules: `None` or a value -/
def encAttr : Option PyVal → PyVal
  | Option.none => .none
  | some v => encVal v

def attrWf : Option PyVal → Bool
  | Option.none => true
  | some .none => false
  | some v => noReserved v

mutual
def encRule : Rule → PyVal
  | .eq v => obj 0 [(kVal, encVal v)]
  | .notEq v => obj 1 [(kVal, encVal v)]
  | .greater v => obj 2 [(kVal, encVal v)]
  | .less v => obj 3 [(kVal, encVal v)]
  | .greaterOrEqual v => obj 4 [(kVal, encVal v)]
  | .lessOrEqual v => obj 5 [(kVal, encVal v)]
  | .isIn d => obj 6 [(kData, .dict [(tagSet, .list (encList d))])]
  | .notIn d => obj 7 [(kData, .dict [(tagSet, .list (encList d))])]
  | .allIn d => obj 8 [(kData, .dict [(tagSet, .list (encList d))])]
  | .allNotIn d => obj 9 [(kData, .dict [(tagSet, .list (encList d))])]
  | .anyIn d => obj 10 [(kData, .dict [(tagSet, .list (encList d))])]
  | .anyNotIn d => obj 11 [(kData, .dict [(tagSet, .list (encList d))])]
  | .truthy => obj 12 []
  | .falsy => obj 13 []
  | .and rs => obj 14 [(kRules, .dict [(tagTuple, .list (encRules rs))])]
  | .or rs => obj 15 [(kRules, .dict [(tagTuple, .list (encRules rs))])]
  | .not r => obj 16 [(kRule, encRule r)]
  | .any => obj 17 []
  | .neither => obj 18 []
  | .strEqual v ci => obj 19 [(kVal, .str v), (kCi, .bool ci)]
  | .startsWith v ci => obj 20 [(kVal, .str v), (kCi, .bool ci)]
  | .endsWith v ci => obj 21 [(kVal, .str v), (kCi, .bool ci)]
  | .contains v ci => obj 22 [(kVal, .str v), (kCi, .bool ci)]
  | .pairsEqual => obj 23 []
  | .regexMatch p => obj 24 [(kRegex, .dict [(Generated.objectTag, .str rePatternCls), (kPattern, .str p)])]
  | .cidr c => obj 25 [(kCidr, encVal c)]
  | .inqMatch f a => obj (fieldIdx f) [(kAttribute, encAttr a)]
  | .subjectEqual => obj 29 []
  | .actionEqual => obj 30 []
  | .resourceIn => obj 31 []
  | .raising => obj 32 []
  | .constant b => obj 33 [(kAnswer, .bool b)]
def encRules : List Rule → List PyVal
  | [] => []
  | r :: rs => encRule r :: encRules rs
end

def mapOpt {α β : Type} (f : α → Option β) : List α → Option (List β)
  | [] => some []
  | x :: xs => match f x, mapOpt f xs with
    | some y, some ys => some (y :: ys)
    | _, _ => Option.none

def getSet (kvs : List (List Char × PyVal)) : Option (List PyVal) :=
  match lookup kData kvs with
  | some (.dict [(t, .list xs)]) => if t = tagSet then some (decList xs) else Option.none
  | _ => Option.none

def getStrCi (kvs : List (List Char × PyVal)) : Option (List Char × Bool) :=
  match lookup kVal kvs, lookup kCi kvs with
  | some (.str v), some (.bool ci) => some (v, ci)
  | _, _ => Option.none

def getAttr (kvs : List (List Char × PyVal)) : Option (Option PyVal) :=
  match lookup kAttribute kvs with
  | some .none => some Option.none
  | some v => some (some (decVal v))
  | Option.none => Option.none

def decRule : Nat → PyVal → Option Rule
  | 0, _ => Option.none
  | n + 1, .dict kvs =>
    match lookup Generated.objectTag kvs with
    | some (.str c) =>
      let val := (lookup kVal kvs).map decVal
      let rules := match lookup kRules kvs with
        | some (.dict [(t, .list xs)]) => if t = tagTuple then mapOpt (decRule n) xs else Option.none
        | _ => Option.none
      match clsIndex c with
      | 0 => val.map .eq | 1 => val.map .notEq | 2 => val.map .greater | 3 => val.map .less
      | 4 => val.map .greaterOrEqual | 5 => val.map .lessOrEqual
      | 6 => (getSet kvs).map .isIn | 7 => (getSet kvs).map .notIn
      | 8 => (getSet kvs).map .allIn | 9 => (getSet kvs).map .allNotIn
      | 10 => (getSet kvs).map .anyIn | 11 => (getSet kvs).map .anyNotIn
      | 12 => some .truthy | 13 => some .falsy
      | 14 => rules.map .and | 15 => rules.map .or
      | 16 => (match lookup kRule kvs with | some x => (decRule n x).map .not | Option.none => Option.none)
      | 17 => some .any | 18 => some .neither
      | 19 => (getStrCi kvs).map (fun p => .strEqual p.1 p.2)
      | 20 => (getStrCi kvs).map (fun p => .startsWith p.1 p.2)
      | 21 => (getStrCi kvs).map (fun p => .endsWith p.1 p.2)
      | 22 => (getStrCi kvs).map (fun p => .contains p.1 p.2)
      | 23 => some .pairsEqual
      | 24 => (match lookup kRegex kvs with
               | some (.dict pk) => (match lookup Generated.objectTag pk, lookup kPattern pk with
                 | some (.str pc), some (.str p) => if pc = rePatternCls then some (.regexMatch p) else Option.none
                 | _, _ => Option.none)
               | _ => Option.none)
      | 25 => (lookup kCidr kvs).map (fun v => .cidr (decVal v))
      | 26 => (getAttr kvs).map (.inqMatch .subject)
      | 27 => (getAttr kvs).map (.inqMatch .action)
      | 28 => (getAttr kvs).map (.inqMatch .resource)
      | 29 => some .subjectEqual | 30 => some .actionEqual | 31 => some .resourceIn
      | 32 => some .raising
      | 33 => (match lookup kAnswer kvs with | some (.bool b) => some (.constant b) | _ => Option.none)
      | _ => Option.none
    | _ => Option.none
  | _ + 1, _ => Option.none

/-! ## well-formedness: what the codec is claimed for -/

mutual
def Rule.wf : Rule → Bool
  | .eq v | .notEq v | .greater v | .less v | .greaterOrEqual v | .lessOrEqual v | .cidr v => noReserved v
  | .isIn d | .notIn d | .allIn d | .allNotIn d | .anyIn d | .anyNotIn d => noReservedList d
  | .and rs | .or rs => wfList rs
  | .not r => Rule.wf r
  | .inqMatch _ a => attrWf a
  | _ => true
def wfList : List Rule → Bool
  | [] => true
  | r :: rs => Rule.wf r && wfList rs
end

mutual
def Rule.depth : Rule → Nat
  | .and rs | .or rs => depthList rs + 1
  | .not r => Rule.depth r + 1
  | _ => 1
def depthList : List Rule → Nat
  | [] => 0
  | r :: rs => max (Rule.depth r) (depthList rs)
end

/-! ## elements and policies -/

def encAttrs : List (List Char × AttrVal) → List (List Char × PyVal)
  | [] => []
  | (k, .rule r) :: rest => (k, encRule r) :: encAttrs rest
  | (k, .junk) :: rest => (k, .none) :: encAttrs rest          -- not a rule: outside the codec (see `Elem.wf`)

def encElem : Elem → PyVal
  | .str s => .str s
  | .rule r => encRule r
  | .attrs kvs => .dict (encAttrs kvs)

def decAttrs (n : Nat) : List (List Char × PyVal) → Option (List (List Char × AttrVal))
  | [] => some []
  | (k, v) :: rest => match decRule n v, decAttrs n rest with
    | some r, some t => some ((k, .rule r) :: t)
    | _, _ => Option.none

def decElem (n : Nat) : PyVal → Option Elem
  | .str s => some (.str s)
  | .dict kvs =>
    if (lookup Generated.objectTag kvs).isSome then (decRule n (.dict kvs)).map .rule
    else (decAttrs n kvs).map .attrs
  | _ => Option.none

def attrsWf : List (List Char × AttrVal) → Bool
  | [] => true
  | (k, .rule r) :: rest => k != Generated.objectTag && Rule.wf r && attrsWf rest
  | (_, .junk) :: _ => false

def attrsDepth : List (List Char × AttrVal) → Nat
  | [] => 0
  | (_, .rule r) :: rest => max (Rule.depth r) (attrsDepth rest)
  | (_, .junk) :: rest => attrsDepth rest

def Elem.wf : Elem → Bool
  | .str _ => true
  | .rule r => Rule.wf r
  | .attrs kvs => attrsWf kvs

def Elem.depth : Elem → Nat
  | .str _ => 0
  | .rule r => Rule.depth r
  | .attrs kvs => attrsDepth kvs

/-! ## whole policies -/

/-- the document `Policy.to_json` writes (`typ` is the stored type number, ignored on reading) -/
def encPolicy (p : Policy) (typ : PyVal) : Doc :=
  [("uid".toList, p.uid), ("type".toList, typ), ("subjects".toList, .list (p.subjects.map encElem)),
   ("effect".toList, p.effect), ("resources".toList, .list (p.resources.map encElem)),
   ("actions".toList, .list (p.actions.map encElem)), ("context".toList, .dict (encAttrs p.context)),
   ("description".toList, p.description)]

def decElems (n : Nat) : PyVal → Option (List Elem)
  | .list xs => mapOpt (decElem n) xs
  | _ => Option.none

def decCtx (n : Nat) : PyVal → Option (List (List Char × AttrVal))
  | .dict kvs => decAttrs n kvs
  | _ => Option.none

/-- `Policy.from_json`: the document-level logic (`Serialize.fromDoc`) followed by rebuilding every
element and context rule; `stag`/`etag` are class attributes, not stored -/
def decPolicy (n : Nat) (stag etag : Char) (d : Doc) : Option Policy :=
  match fromDoc d with
  | .ok r =>
    (match decElems n r.subjects, decElems n r.resources, decElems n r.actions, decCtx n r.context with
     | some s, some rs, some a, some c =>
       some { uid := r.uid, effect := r.effect, description := r.description, subjects := s, resources := rs,
              actions := a, context := c, stag := stag, etag := etag }
     | _, _, _, _ => Option.none)
  | .error _ => Option.none

def elemsWf : List Elem → Bool
  | [] => true
  | e :: es => Elem.wf e && elemsWf es

def elemsDepth : List Elem → Nat
  | [] => 0
  | e :: es => max (Elem.depth e) (elemsDepth es)

def Policy.wf (p : Policy) : Bool :=
  truthy p.effect && elemsWf p.subjects && elemsWf p.resources && elemsWf p.actions && attrsWf p.context

def Policy.depth (p : Policy) : Nat :=
  max (max (elemsDepth p.subjects) (elemsDepth p.resources)) (max (elemsDepth p.actions) (attrsDepth p.context))

end Vakt.RuleCodec
