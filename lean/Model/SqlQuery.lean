import Model.StorageCodec
import Model.Prefilter
/-!
# The server-side prefilters of `SQLStorage` (`_get_filtered_cursor`)

* the **fuzzy** checker: `type = string-based AND EXISTS(action_string LIKE '%' || value || '%') AND …` — SQL `LIKE`
  is modelled here exactly (`%` any run of characters, `_` any one character, an optional escape character, a
  per-dialect character equality: SQLite compares ASCII letters case-insensitively), not by a lower bound;
* the **regex** checker on a dialect with a regex operator (`mysql`, `postgresql`, `oracle`):
  `type = string-based AND EXISTS((regex IS NULL AND string = value) OR (regex IS NOT NULL AND value REGEXP regex)) AND …`
  over the child rows `PolicyModel._save` writes (`StorageCodec.elemToDb`).
-/
namespace Vakt.SqlQuery
open Vakt PyVal StorageCodec Prefilter RuleCodec

/-! ## `LIKE` -/

/-- `f` holds for some suffix of the string (what a `%` does with the rest of the pattern) -/
def anySuffix (f : List Char → Bool) : List Char → Bool
  | [] => f []
  | c :: t => f (c :: t) || anySuffix f t

/-- a pattern character after the escape character has been interpreted -/
inductive Tok where
  | any                 -- `%`
  | one                 -- `_`
  | lit (c : Char)
  deriving Repr, DecidableEq, Inhabited

/-- read a `LIKE` pattern: after the escape character the next character stands for itself; a trailing escape
character stands for itself (MySQL) -/
def tokAux (esc : Option Char) : (escaped : Bool) → List Char → List Tok
  | true, [] => (match esc with | some e => [.lit e] | Option.none => [])
  | false, [] => []
  | true, c :: p => .lit c :: tokAux esc false p
  | false, c :: p =>
    if esc = some c then tokAux esc true p
    else if c = '%' then .any :: tokAux esc false p
    else if c = '_' then .one :: tokAux esc false p
    else .lit c :: tokAux esc false p

def likeT (ceq : Char → Char → Bool) : List Tok → List Char → Bool
  | [], s => s.isEmpty
  | .any :: p, s => anySuffix (likeT ceq p) s
  | .one :: p, s => (match s with | [] => false | _ :: t => likeT ceq p t)
  | .lit c :: p, s => (match s with | [] => false | d :: t => ceq c d && likeT ceq p t)

/-- `text LIKE pattern [ESCAPE esc]` with character equality `ceq` -/
def like (ceq : Char → Char → Bool) (esc : Option Char) (pat s : List Char) : Bool :=
  likeT ceq (tokAux esc false pat) s

/-- SQLite's default `LIKE`: ASCII letters compare case-insensitively, no escape character -/
def sqliteCeq (a b : Char) : Bool := asciiLower a == asciiLower b

/-- the pattern `'%{}%'.format(value)` -/
def fuzzyPattern (w : List Char) : List Char := '%' :: (w ++ ['%'])

/-- `PolicyModel.<field>.any(<field>_string.like('%value%'))` over the child rows -/
def likeField (ceq : Char → Char → Bool) (esc : Option Char) (rows : List ElemRow) (w : List Char) : Bool :=
  rows.any fun r => match r.str with
    | some s => like ceq esc (fuzzyPattern w) s
    | Option.none => false                       -- NULL LIKE … is not true

/-- the fuzzy filter over one stored row -/
def fuzzyCond (ceq : Char → Char → Bool) (esc : Option Char) (row : SqlRow) (a s r : List Char) : Bool :=
  pyEq row.typ (.int Generated.typeStringBased) &&
  likeField ceq esc row.actions a && likeField ceq esc row.resources r && likeField ceq esc row.subjects s

/-! ## the regex operator -/

/-- `value REGEXP pattern` / `value ~ pattern` / `REGEXP_LIKE(value, pattern)`: an unanchored search -/
abbrev Search := List Char → List Char → Bool

def regexRow (search : Search) (w : List Char) (r : ElemRow) : Bool :=
  match r.regex, r.str with
  | Option.none, some s => s == w                -- regex IS NULL AND string = value
  | some rx, _ => search rx w                    -- regex IS NOT NULL AND value REGEXP regex
  | Option.none, Option.none => false            -- NULL = value is not true

def regexField (search : Search) (rows : List ElemRow) (w : List Char) : Bool := rows.any (regexRow search w)

def regexCond (search : Search) (row : SqlRow) (a s r : List Char) : Bool :=
  pyEq row.typ (.int Generated.typeStringBased) &&
  regexField search row.actions a && regexField search row.resources r && regexField search row.subjects s

/-- the server's anchored search finds what the model's whole-string match accepts -/
def SearchSound (search : Search) : Prop :=
  ∀ (ps : List Piece) (r : Re) (rest w : List Char), piecesRe ps = .ok r rest → r.accepts w = true →
    search ('^' :: patternOfPieces ps ++ ['$']) w = true

/-- candidates of a query over the stored policies (a policy that could not be stored is not in the table) -/
def find (cond : SqlRow → Bool) (c : Compile) (ps : List Policy) : List Policy :=
  ps.filter fun p => match toRow c p with
    | some row => cond row
    | Option.none => false

end Vakt.SqlQuery

namespace Vakt.StorageCodec
def SqlRow.field (row : SqlRow) : Field → List ElemRow
  | .actions => row.actions
  | .subjects => row.subjects
  | .resources => row.resources
end Vakt.StorageCodec
