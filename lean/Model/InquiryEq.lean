import Model.Rules
/-!
# Inquiry equality and hash (`Inquiry.__eq__`, `__hash__`, `to_json_sorted`)

Two inquiries are equal when their sorted JSON texts are equal; the hash is a hash of that text.
`canon` is the tree behind the text: dictionaries have their entries sorted by key at every
depth, everything else (including the int / float / bool and list / tuple distinctions, which
the text preserves) is kept.  The text itself is `render (canon v)`; `H` — the hash of a tuple of
code points — is left uninterpreted.
-/
namespace Vakt
open PyVal

def insertKV (kv : List Char × PyVal) : List (List Char × PyVal) → List (List Char × PyVal)
  | [] => [kv]
  | x :: rest => if strLt kv.1 x.1 then kv :: x :: rest else x :: insertKV kv rest

def sortKV : List (List Char × PyVal) → List (List Char × PyVal)
  | [] => []
  | kv :: rest => insertKV kv (sortKV rest)

mutual
def canon : PyVal → PyVal
  | .dict kvs => .dict (sortKV (canonKVs kvs))
  | .list xs => .list (canonList xs)
  | .tuple xs => .tuple (canonList xs)
  | v => v
def canonList : List PyVal → List PyVal
  | [] => []
  | x :: xs => canon x :: canonList xs
def canonKVs : List (List Char × PyVal) → List (List Char × PyVal)
  | [] => []
  | (k, v) :: rest => (k, canon v) :: canonKVs rest
end

/-- `Inquiry.__init__`: falsy arguments become `''` (fields) or `{}` (context) -/
def Inquiry.mk' (resource action subject context : PyVal) : Inquiry :=
  { resource := if truthy resource then resource else .str [],
    action := if truthy action then action else .str [],
    subject := if truthy subject then subject else .str [],
    context := if truthy context then context else .dict [] }

/-- the canonical form that `to_json_sorted` renders -/
def Inquiry.canon (q : Inquiry) : PyVal :=
  .dict [("action".toList, Vakt.canon q.action), ("context".toList, Vakt.canon q.context),
         ("resource".toList, Vakt.canon q.resource), ("subject".toList, Vakt.canon q.subject)]

def distinctKeys : List (List Char) → Bool
  | [] => true
  | k :: rest => !rest.contains k && distinctKeys rest

mutual
/-- keys pairwise distinct at every depth (what a Python `dict` guarantees) -/
def wf : PyVal → Bool
  | .dict kvs => wfKVs kvs && distinctKeys (kvs.map Prod.fst)
  | .list xs => wfList xs
  | .tuple xs => wfList xs
  | _ => true
def wfList : List PyVal → Bool
  | [] => true
  | x :: xs => wf x && wfList xs
def wfKVs : List (List Char × PyVal) → Bool
  | [] => true
  | (_, v) :: rest => wf v && wfKVs rest
end

mutual
/-- structural equality (`DecidableEq PyVal` cannot be derived for the nested type) -/
def beqVal : PyVal → PyVal → Bool
  | .none, b => match b with | .none => true | _ => false
  | .bool x, b => match b with | .bool y => x == y | _ => false
  | .int x, b => match b with | .int y => x == y | _ => false
  | .flt x e, b => match b with | .flt y f => x == y && e == f | _ => false
  | .str x, b => match b with | .str y => x == y | _ => false
  | .list x, b => match b with | .list y => beqList x y | _ => false
  | .tuple x, b => match b with | .tuple y => beqList x y | _ => false
  | .dict x, b => match b with | .dict y => beqKVs x y | _ => false
def beqList : List PyVal → List PyVal → Bool
  | [], ys => match ys with | [] => true | _ => false
  | x :: xs, ys => match ys with | y :: ys => beqVal x y && beqList xs ys | [] => false
def beqKVs : List (List Char × PyVal) → List (List Char × PyVal) → Bool
  | [], ys => match ys with | [] => true | _ => false
  | (k, v) :: xs, ys => match ys with | (k', v') :: ys => k == k' && beqVal v v' && beqKVs xs ys | [] => false
end

/-- `a == b` for inquiries -/
def Inquiry.eqv (a b : Inquiry) : Bool := beqVal a.canon b.canon

end Vakt
