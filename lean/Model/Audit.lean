import Model.Guard
/-!
# Audit message classes (`vakt/audit.py`) and the decision log of `Guard.is_allowed`
-/
namespace Vakt
open PyVal

inductive MsgCls where
  | nop | uid | desc | count
  deriving Repr, DecidableEq, Inhabited

def intercalate (sep : List Char) : List (List Char) → List Char
  | [] => []
  | [x] => x
  | x :: y :: rest => x ++ sep ++ intercalate sep (y :: rest)

/-- `str(x)` / `'%s' % x` for the uid and description values the model covers -/
def strOf (v : PyVal) : List Char := (pyStr v).getD "?".toList

/-- the text a message object renders to -/
def renderMsg : MsgCls → List Policy → List Char
  | .nop, _ => []
  | .uid, ps => "[".toList ++ intercalate ", ".toList (ps.map fun p => strOf p.uid) ++ "]".toList
  | .desc, ps => "[".toList ++ intercalate ", ".toList (ps.map fun p => "'".toList ++ strOf p.description ++ "'".toList) ++ "]".toList
  | .count, ps => "count = ".toList ++ natDigits ps.length

/-- one record on the `vakt.guard` logger: was the inquiry allowed -/
structure DecisionLog where
  allowed : Bool
  deriving Repr, DecidableEq

/-- `Guard.is_allowed`: the answer, the decision-log record and the audit records of one call -/
def isAllowedLogged (m : Policy → R) (ans : StoreAns) : Bool × List DecisionLog × List AuditRec :=
  let b := isAllowed m ans
  (b, [⟨b⟩], auditOf m ans)

end Vakt
