import Model.CachedGuard
import Model.Enfold
/-!
# The whole storage stack behind one guard

`create_cached_guard(EnfoldCache(backend, MemoryStorage()), checker)`: an observable wrapper around an enfolding cache
around a backend, a decision cache in front of the guard.  A *machine* is any storage as the guard and the wrapper see
it: how a mutation call changes it and what it returns, and which policies it hands to the guard.  `step` is
`CachedGuard.step` over an arbitrary machine; `enfoldMachine` is the enfolding cache (the guard reads the candidates
from the cache store, never from the backend).  `Props/Stack.lean` proves that the answers of the whole stack are the
answers of an uncached guard over a plain uid-keyed map that received the same mutations.
-/
namespace Vakt.Stack
open Vakt.Store Vakt.CachedGuard Vakt.Enfold

structure Machine (Ω : Type) where
  mutate : Ω → Op → Ω × Out      -- add / update / delete / fault
  cands : Ω → St                 -- what `find_for_inquiry` hands to the guard

structure SG (Ω σ : Type) where
  st : Ω
  cache : σ
  notifications : Nat
  storageAsks : Nat

variable {Ω κ σ : Type}

def step (M : Machine Ω) (answer : St → κ → Bool) (b : Backend κ σ) (g : SG Ω σ) : COp κ → SG Ω σ × Option Bool
  | .mutate op =>
    let r := M.mutate g.st op
    if raised r.2 then ({ g with st := r.1 }, none)
    else ({ g with st := r.1, cache := b.clear g.cache, notifications := g.notifications + 1 }, none)
  | .read => (g, none)
  | .ask k =>
    match b.lookup g.cache k with
    | some (v, c') => ({ g with cache := c' }, some v)
    | none =>
      let v := answer (M.cands g.st) k
      ({ g with cache := b.put g.cache k v, storageAsks := g.storageAsks + 1 }, some v)

def run (M : Machine Ω) (answer : St → κ → Bool) (b : Backend κ σ) : SG Ω σ → List (COp κ) → SG Ω σ × List (Option Bool)
  | g, [] => (g, [])
  | g, op :: rest =>
    let r := step M answer b g op
    let t := run M answer b r.1 rest
    (t.1, r.2 :: t.2)

/-- the same history against an uncached guard over the same machine -/
def runPlainM (M : Machine Ω) (answer : St → κ → Bool) : Ω → List (COp κ) → Ω × List (Option Bool)
  | s, [] => (s, [])
  | s, .mutate op :: rest =>
    let t := runPlainM M answer (M.mutate s op).1 rest
    (t.1, none :: t.2)
  | s, .read :: rest =>
    let t := runPlainM M answer s rest
    (t.1, none :: t.2)
  | s, .ask k :: rest =>
    let t := runPlainM M answer s rest
    (t.1, some (answer (M.cands s) k) :: t.2)

def initial (b : Backend κ σ) (s : Ω) : SG Ω σ := { st := s, cache := b.init, notifications := 0, storageAsks := 0 }

/-- a mutation call of the storage interface as an operation of the enfolding cache -/
def toEOp : Op → EOp
  | .add u p ok => .add u p ok
  | .update u p ok => .update u p ok
  | .delete u => .delete u
  | .get u => .get u
  | .getAll l o => .getAll l o
  | .retrieveAll b => .retrieveAll b
  | .fault => .fault

/-- `EnfoldCache(backend, cache=MemoryStorage())` as the guard sees it: candidates come from the cache store -/
def enfoldMachine (cfg : Cfg) : Machine EState where
  mutate s op := let r := Enfold.step cfg s (toEOp op); (r.1, r.2.1)
  cands s := s.cache

/-- a plain storage (the specification: the abstract uid-keyed map) -/
def plainMachine (cfg : Cfg) : Machine St where
  mutate s op := Store.step cfg s op
  cands s := s

end Vakt.Stack
