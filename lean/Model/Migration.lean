import Model.Generated
/-!
# The migration runner (`vakt/storage/migration.py`)

A migration set is a list of distinct order numbers in *declaration* order.  The observable
state is the recorded version `last`, the schema (which migrations' `up` effects are in place —
step bodies are assumed idempotent, as `create_all` / `create_index` are) and the trace of
`up`/`down` invocations.  A request may be interrupted by one fault: the `k`-th executed step
raises either in its body (before having any effect) or in `save_applied_number` (after it).
-/
namespace Vakt.Migration

inductive Dir where
  | up | down
  deriving Repr, DecidableEq, Inhabited

structure MState where
  last : Nat
  schema : List Nat
  trace : List (Dir × Nat)
  deriving Repr, DecidableEq, Inhabited

inductive Fault where
  | none
  | body (k : Nat)      -- the k-th executed step raises inside `m.up()` / `m.down()`
  | save (k : Nat)      -- the k-th executed step raises inside `save_applied_number`
  deriving Repr, DecidableEq, Inhabited

structure Req where
  dir : Dir
  number : Option Nat
  deriving Repr, DecidableEq, Inhabited

def insertSorted (n : Nat) : List Nat → List Nat
  | [] => [n]
  | m :: rest => if n ≤ m then n :: m :: rest else m :: insertSorted n rest

def sortAsc : List Nat → List Nat
  | [] => []
  | n :: rest => insertSorted n (sortAsc rest)

/-- `_get_migrations(number, reverse)` -/
def select (orders : List Nat) (r : Req) : List Nat :=
  match r.number with
  | some n => orders.filter (· == n)
  | none => match r.dir with
    | .up => sortAsc orders
    | .down => (sortAsc orders).reverse

def addSchema (n : Nat) (s : List Nat) : List Nat := if s.contains n then s else s ++ [n]
def delSchema (n : Nat) (s : List Nat) : List Nat := s.filter (· != n)

/-- the loop of `MigrationSet.up` / `down`; `k` counts the steps executed so far in this request.
Returns the new state and whether the request raised. -/
def loop (d : Dir) (f : Fault) : List Nat → Nat → MState → MState × Bool
  | [], _, st => (st, false)
  | n :: rest, k, st =>
    let gated := match d with | .up => st.last < n | .down => n ≤ st.last
    if !gated then loop d f rest k st
    else if f == .body k then ({ st with trace := st.trace ++ [(d, n)] }, true)
    else
      let st1 : MState := { st with trace := st.trace ++ [(d, n)],
                                    schema := match d with | .up => addSchema n st.schema | .down => delSchema n st.schema }
      if f == .save k then (st1, true)
      else loop d f rest (k + 1) { st1 with last := match d with | .up => n | .down => n - 1 }

def request (orders : List Nat) (st : MState) (r : Req) (f : Fault) : MState × Bool :=
  loop r.dir f (select orders r) 0 st

def runReqs (orders : List Nat) : MState → List (Req × Fault) → MState × List Bool
  | st, [] => (st, [])
  | st, (r, f) :: rest =>
    let x := request orders st r f
    let t := runReqs orders x.1 rest
    (t.1, x.2 :: t.2)

def initial : MState := { last := 0, schema := [], trace := [] }

end Vakt.Migration
