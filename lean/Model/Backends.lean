import Model.Store
import Model.SqlSession
/-!
# The concrete storages, as programs over the primitives of their clients

`Model/Store.lean` is the *specification* (a uid-keyed map).  This file models what the four storage classes
and the observable wrapper actually do, method by method, in terms of the primitive calls they make:

* `MemoryStorage`   — a Python `dict` (`in`, `d[k] = v`, `del d[k]`, `.get`, `.values()` and list slicing);
* `RedisStorage`    — one Redis hash (`HSETNX`, `HGET`, `HGETALL`, `HDEL`, the registered Lua updater
                      `HEXISTS` + `HSET`) holding *serialized* policies, `itertools.islice` over the items;
* `MongoStorage`    — one collection keyed by `_id` (`insert_one` with `DuplicateKeyError`, `find_one`,
                      `find(limit, skip, sort)` where **limit 0 means no limit**, `update_one($set, upsert=False)`,
                      `delete_one`), documents prepared before the call;
* `SQLStorage`      — the session programs of `Model/SqlSession.lean` plus the reads (`session.get`,
                      `order_by(uid).slice(offset, offset + limit)`);
* `ObservableMutationStorage` — a proxy that counts one notification per mutation call that returned.

`retrieve_all` is the loop inherited from `vakt/storage/abc.py`, written once over any `get_all`.
Every step also reports the client calls it made (`Call`), which the correspondence run compares with the calls
recorded by the in-process clients.  `Props/C08Backends.lean` proves that each of these refines `Store.step`.
-/
namespace Vakt.Backends
open Vakt.Store

/-! ## Python pieces -/

/-- `d[k] = v` on an insertion-ordered dict: an existing key keeps its position -/
def dictSet (u : Uid) (p : α) : List (Uid × α) → List (Uid × α)
  | [] => [(u, p)]
  | (k, v) :: rest => if k = u then (k, p) :: rest else (k, v) :: dictSet u p rest

/-- `d.get(k)` / `k in d` -/
def dictGet (u : Uid) : List (Uid × α) → Option α
  | [] => none
  | (k, v) :: rest => if k = u then some v else dictGet u rest

/-- `del d[k]` (the caller has checked membership; absent: unchanged) -/
def dictDel (u : Uid) : List (Uid × α) → List (Uid × α)
  | [] => []
  | (k, v) :: rest => if k = u then rest else (k, v) :: dictDel u rest

/-- `xs[a:b]` for `0 ≤ a`, `0 ≤ b` -/
def pySlice (xs : List α) (a b : Nat) : List α := (xs.take b).drop a

/-- `itertools.islice(xs, a, b)` for `0 ≤ a`, `0 ≤ b`: skip `a`, then yield while the index is below `b` -/
def islice (xs : List α) (a b : Nat) : List α := (xs.drop a).take (b - a)

/-- `Storage._check_limit_and_offset` -/
def checkLimitOffset (limit offset : Int) : Bool := limit < 0 || offset < 0

/-- `Storage.retrieve_all(batch)` over any `get_all`: pages of `batch` from offset 0 until an empty page.
`ga limit offset` is `none` when `get_all` raises `ValueError`.  Fuel bounds the loop (never reached for a
positive batch: `retrieveAll_fuel_enough`). -/
def retrLoop (ga : Int → Int → Option (List β)) (batch : Int) : (fuel : Nat) → (offset : Int) → Option (List β)
  | 0, _ => some []
  | f + 1, off =>
    match ga batch off with
    | none => none
    | some pg =>
      if pg.isEmpty then some []
      else match retrLoop ga batch f (off + batch) with
        | none => none
        | some rest => some (pg ++ rest)

inductive Call where
  | dictIn | dictSetItem | dictDelItem | dictGetItem | dictValues
  | hsetnx | hget | hgetall | hdel | script
  | insertOne | findOne | find | updateOne | deleteOne
  | sessAdd | sessGet | sessQuery | sessDelete | commit | rollback
  | notify
  deriving Repr, DecidableEq, Inhabited

/-! ## `MemoryStorage` -/

abbrev Mem := St

def memGetAll (d : Mem) (limit offset : Int) : Option St :=
  if checkLimitOffset limit offset then none
  else
    let result := d                                  -- `[v for v in self.policies.values()]`
    if offset.toNat > result.length || limit == 0 then some []
    else some (pySlice result offset.toNat (limit + offset).toNat)

def memStep (d : Mem) : Op → Mem × Out × List Call
  | .add u p _ =>
    if (dictGet u d).isSome then (d, .existsErr, [.dictIn])
    else (dictSet u p d, .done, [.dictIn, .dictSetItem])
  | .update u p _ =>
    if (dictGet u d).isNone then (d, .done, [.dictIn])
    else (dictSet u p d, .done, [.dictIn, .dictSetItem])
  | .delete u =>
    if (dictGet u d).isSome then (dictDel u d, .done, [.dictIn, .dictDelItem])
    else (d, .done, [.dictIn])
  | .get u => (d, .pol (dictGet u d), [.dictGetItem])
  | .getAll l o =>
    match memGetAll d l o with
    | none => (d, .valueError, [])
    | some pg => (d, .pols pg, [.dictValues])
  | .retrieveAll b =>
    match retrLoop (memGetAll d) b (d.length + 1) 0 with
    | none => (d, .valueError, [])
    | some all => (d, .pols all, [.dictValues])
  | .fault => (d, .rejected, [])

/-! ## `RedisStorage` -/

abbrev Bytes := List Nat

/-- a serializer (`JSONSerializer` / `PickleSerializer`): `ser` may raise (`none`) -/
structure Ser where
  ser : Pol → Option Bytes
  deser : Bytes → Pol

/-- what the storage relies on: what was written is read back as the same policy, and a serialized policy is
never the empty byte string (`get` tests `if not ret`) -/
structure Ser.Lawful (sr : Ser) : Prop where
  total : ∀ p, (sr.ser p).isSome
  roundtrip : ∀ p b, sr.ser p = some b → sr.deser b = p
  nonempty : ∀ p b, sr.ser p = some b → b ≠ []

abbrev RHash := List (Uid × Bytes)

/-- `__feed_policies(dict(islice(...)))`: deserialize the values in order -/
def feed (sr : Ser) (h : RHash) : St := h.map (fun kv => (kv.1, sr.deser kv.2))

def redisGetAll (sr : Ser) (h : RHash) (limit offset : Int) : Option St :=
  if checkLimitOffset limit offset then none
  else some (feed sr (islice h offset.toNat (limit + offset).toNat))

def redisStep (sr : Ser) (h : RHash) : Op → RHash × Out × List Call
  | .add u p _ =>
    match sr.ser p with
    | none => (h, .existsErr, [])                -- `except Exception: raise PolicyExistsError(uid)`: any failure reads as "exists"
    | some b =>
      if (dictGet u h).isSome then (h, .existsErr, [.hsetnx])           -- HSETNX answered 0
      else (h ++ [(u, b)], .done, [.hsetnx])
  | .update u p _ =>
    match sr.ser p with
    | none => (h, .rejected, [])
    | some b =>
      -- the Lua updater: HEXISTS, then HSET only when the field exists
      if (dictGet u h).isSome then (dictSet u b h, .done, [.script]) else (h, .done, [.script])
  | .delete u => (dictDel u h, .done, [.hdel])
  | .get u =>
    match dictGet u h with
    | none => (h, .pol none, [.hget])
    | some b => if b.isEmpty then (h, .pol none, [.hget]) else (h, .pol (some (sr.deser b)), [.hget])
  | .getAll l o =>
    match redisGetAll sr h l o with
    | none => (h, .valueError, [])
    | some pg => (h, .pols pg, [.hgetall])
  | .retrieveAll b =>
    match retrLoop (redisGetAll sr h) b (h.length + 1) 0 with
    | none => (h, .valueError, [])
    | some all => (h, .pols all, [.hgetall])
  | .fault => (h, .rejected, [])

/-! ## `MongoStorage` -/

abbrev Coll := St          -- documents by `_id`, in insertion order; a document stands for the policy it encodes (C09)

/-- `collection.find(limit=l, skip=s, sort=[('_id', ASCENDING)])`: **limit 0 is "no limit"** -/
def mongoFind (c : Coll) (limit skip : Nat) : St :=
  let l := (sortUid c).drop skip
  if limit = 0 then l else l.take limit

def mongoGetAll (c : Coll) (limit offset : Int) : Option St :=
  if checkLimitOffset limit offset then none
  else if limit == 0 then some []                -- the special check for cursor.limit(0)
  else some (mongoFind c limit.toNat offset.toNat)

def mongoStep (c : Coll) : Op → Coll × Out × List Call
  | .add u p ok =>
    if !ok then (c, .rejected, [])               -- `__prepare_doc` raises before the client is called
    else if (dictGet u c).isSome then (c, .existsErr, [.insertOne])     -- DuplicateKeyError
    else (c ++ [(u, p)], .done, [.insertOne])
  | .update u p ok =>
    if !ok then (c, .rejected, [])
    else if (dictGet u c).isSome then (dictSet u p c, .done, [.updateOne]) else (c, .done, [.updateOne])
  | .delete u => (dictDel u c, .done, [.deleteOne])
  | .get u => (c, .pol (dictGet u c), [.findOne])
  | .getAll l o =>
    match mongoGetAll c l o with
    | none => (c, .valueError, [])
    | some pg => (c, .pols pg, if l == 0 then [] else [.find])
  | .retrieveAll b =>
    match retrLoop (mongoGetAll c) b (c.length + 1) 0 with
    | none => (c, .valueError, [])
    | some all => (c, .pols all, if b == 0 then [] else [.find])
  | .fault => (c, .rejected, [])

/-! ## `SQLStorage` (mutations: `SqlSession.step`; reads on the session's view) -/

open Vakt.SqlSession in
def sqlGetAll (s : Sess) (limit offset : Int) : Option St :=
  if checkLimitOffset limit offset then none
  else
    -- `.order_by(uid).slice(offset, offset + limit)` = `LIMIT (stop - start) OFFSET start`
    some (((sortUid s.view).drop offset.toNat).take ((offset + limit).toNat - offset.toNat))

open Vakt.SqlSession in
def sqlStep (s : Sess) : Op → Sess × Out × List Call
  | .get u => (s, .pol (dictGet u s.view), [.sessGet])
  | .getAll l o =>
    match sqlGetAll s l o with
    | none => (s, .valueError, [])
    | some pg => (s, .pols pg, [.sessQuery])
  | .retrieveAll b =>
    match retrLoop (sqlGetAll s) b (s.view.length + 1) 0 with
    | none => (s, .valueError, [])
    | some all => (s, .pols all, [.sessQuery])
  | op =>
    let r := SqlSession.step s op
    -- the session-level trace (which of commit / rollback ended the call) is what C15 observes; not repeated here
    (r.1, r.2, [])

/-! ## `ObservableMutationStorage` over any storage step -/

structure Obs (σ : Type) where
  inner : σ
  notified : Nat

def isMutation : Op → Bool
  | .add .. => true | .update .. => true | .delete _ => true | _ => false

/-- a mutation call that returns is followed by exactly one `notify()`; one that raises is not; reads never notify -/
def obsStep (stepC : σ → Op → σ × Out × List Call) (s : Obs σ) (op : Op) : Obs σ × Out × List Call :=
  let r := stepC s.inner op
  let n := if isMutation op && r.2.1 == .done then 1 else 0
  (⟨r.1, s.notified + n⟩, r.2.1, if n = 1 then r.2.2 ++ [.notify] else r.2.2)

/-! ## Running a history -/

def runC (stepC : σ → Op → σ × Out × List Call) : σ → List Op → σ × List Out
  | s, [] => (s, [])
  | s, op :: rest =>
    let r := stepC s op
    let t := runC stepC r.1 rest
    (t.1, r.2.1 :: t.2)

end Vakt.Backends
