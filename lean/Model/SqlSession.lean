import Model.Store
/-!
# `SQLStorage` mutations as programs over a database session

The database has a *committed* state (what any other session or a restarted process sees) and
the writer's session has a *view* that may run ahead of it (`dirty`).  Each storage method is the
sequence of session primitives the source performs, including which failures trigger `rollback`.
A crash (session discarded, engine disposed, process killed) loses the view and keeps `committed`.
-/
namespace Vakt.SqlSession
open Vakt.Store

structure Sess where
  committed : St
  view : St
  dirty : Bool
  deriving Repr, Inhabited

def stage (f : St → St) (s : Sess) : Sess := { s with view := f s.view, dirty := true }
def commit (s : Sess) : Sess := { committed := s.view, view := s.view, dirty := false }
def rollback (s : Sess) : Sess := { s with view := s.committed, dirty := false }
def crash (s : Sess) : Sess := rollback s
def fresh (committed : St) : Sess := { committed := committed, view := committed, dirty := false }

/-- a half-applied update: the row's scalar columns already carry the new policy -/
def partialUpdate (u : Uid) (p : Pol) (s : St) : St := replace u (p + 1000000) s

/-- `SQLStorage.add / update / delete` (mutations) — output as in the abstract store -/
def step (s : Sess) : Op → Sess × Out
  | .add u p ok =>
    if !ok then (s, .rejected)                               -- conversion fails before anything is staged
    else
      let s1 := stage (fun v => v ++ [(u, p)]) s
      (match lookup u s.view with
       | some _ => (rollback s1, .existsErr)                 -- IntegrityError at flush → rollback
       | none => (commit s1, .done))
  | .update u p ok =>
    (match lookup u s.view with
     | none => (s, .done)
     | some _ =>
       if !ok then (rollback (stage (partialUpdate u p) s), .rejected)   -- fails half-way → rollback on any exception
       else (commit (stage (replace u p) s), .done))
  | .delete u => (commit (stage (erase u) s), .done)
  | .fault => (s, .rejected)
  | _ => (s, .done)                                          -- reads are not the subject here

def run : Sess → List Op → Sess × List Out
  | s, [] => (s, [])
  | s, op :: rest =>
    let r := step s op
    let t := run r.1 rest
    (t.1, r.2 :: t.2)

/-- the session holds nothing that a later commit could publish -/
def Clean (s : Sess) : Prop := s.dirty = false ∧ s.view = s.committed

def sqlCfg : Cfg := ⟨true, false⟩

def isMut : Op → Bool
  | .add .. => true | .update .. => true | .delete .. => true | .fault => true | _ => false

end Vakt.SqlSession
