import Model.Generated
/-!
# `Policy` as an object with guarded attribute assignment (`vakt/policy.py`)

Only what `__setattr__` looks at is modelled: for a value offered to a definition field, the
kinds of the elements obtained by iterating it (`str`, rule-or-dict, anything else) or the fact
that it is not iterable; for `context`, whether it is a `dict`.  Values themselves are opaque
identifiers, which is enough to state "a rejected assignment leaves the policy exactly as it was".
-/
namespace Vakt.PolicyObj

inductive EKind where
  | str | rule | other
  deriving Repr, DecidableEq, Inhabited

/-- a value viewed as a field value -/
inductive FVal where
  | seq (ks : List EKind)
  | scalar                    -- iterating it raises `TypeError`
  | iter (ks : List EKind)    -- a one-shot iterator (generator, `iter(..)`, `map(..)`): the type check consumes it,
                              -- what is stored afterwards yields nothing any more
  deriving Repr, DecidableEq, Inhabited

inductive Err where
  | creation                  -- `PolicyCreationError`
  | typeError                 -- `TypeError` from iterating a non-iterable
  deriving Repr, DecidableEq, Inhabited

structure PObj where
  subjects : List EKind
  resources : List EKind
  actions : List EKind
  vals : List (String × Nat)      -- attribute name ↦ identifier of the value it holds (`type` excluded)
  typ : Nat
  deriving Repr, DecidableEq, Inhabited

def typeString : Nat := Generated.typeStringBased
def typeRule : Nat := Generated.typeRuleBased

/-- `_calculate_type` over the three definition fields -/
def calcType (s r a : List EKind) : Option Nat :=
  let all := s ++ r ++ a
  if all.all (· == .str) then some typeString            -- covers "no elements at all"
  else if all.all (· == .rule) then some typeRule
  else none

def isDefField (name : String) : Bool := Generated.definitionFields.contains name

def setVal (name : String) (vid : Nat) : List (String × Nat) → List (String × Nat)
  | [] => [(name, vid)]
  | (n, v) :: rest => if n = name then (name, vid) :: rest else (n, v) :: setVal name vid rest

/-- `_check_field_type` -/
def checkField (name : String) (fv : FVal) (isDict : Bool) : Option Err :=
  if isDefField name then
    (match fv with
     | .scalar => some .typeError
     | .seq ks => if ks.any (· == .other) then some .creation else none
     | .iter ks => if ks.any (· == .other) then some .creation else none)
  else if name == "context" && !isDict then some .creation
  else none

def kindsOf : FVal → List EKind
  | .seq ks => ks
  | .scalar => []
  | .iter _ => []             -- exhausted by `_check_field_type`

/-- `Policy.__setattr__(name, value)` -/
def setattr (o : PObj) (name : String) (vid : Nat) (fv : FVal) (isDict : Bool) : Except Err PObj :=
  match checkField name fv isDict with
  | some e => .error e
  | none =>
    let s := if name == "subjects" then kindsOf fv else o.subjects
    let r := if name == "resources" then kindsOf fv else o.resources
    let a := if name == "actions" then kindsOf fv else o.actions
    -- _calculate_type on a copy with the new value
    match calcType s r a with
    | none => .error .creation
    | some t =>
      .ok { subjects := s, resources := r, actions := a,
            vals := if name == "type" then o.vals else setVal name vid o.vals,
            typ := t }

def empty : PObj := { subjects := [], resources := [], actions := [], vals := [], typ := typeString }

structure Assign where
  name : String
  vid : Nat
  fv : FVal
  isDict : Bool
  deriving Repr, Inhabited

/-- a history of assignments; a rejected one leaves the object as it was -/
def run (o : PObj) : List Assign → PObj
  | [] => o
  | a :: rest =>
    match setattr o a.name a.vid a.fv a.isDict with
    | .ok o' => run o' rest
    | .error _ => run o rest

/-- the constructor: the fixed sequence of assignments it performs (fails as a whole on the first rejection) -/
def construct : List Assign → PObj → Except Err PObj
  | [], o => .ok o
  | a :: rest, o =>
    match setattr o a.name a.vid a.fv a.isDict with
    | .ok o' => construct rest o'
    | .error e => .error e

end Vakt.PolicyObj
