import Model.Store
/-!
# Concurrency models for the in-memory storage and the decision cache

1. **Lock discipline** — the logged shared-state actions of `MemoryStorage` (`acq`, `rel`, dict
   operations, iterator steps) and the predicate that every dict access other than the atomic
   `get` happens while the acting thread holds the lock.
2. **Atomic sections** — under that discipline the critical sections execute atomically, so a
   concurrent execution is an interleaving of abstract store operations and snapshots.
3. **The decision cache with generations** — threads that look up, compute and store decisions,
   interleaved with mutations (apply, then invalidate); the repaired cache keys results by the
   generation read before the computation.
-/
namespace Vakt.Conc
open Vakt.Store

/-! ## 1. lock discipline over logged actions -/

inductive Act where
  | acq | rel
  | has (u : Uid) | put (u : Uid) | del (u : Uid)     -- `in`, `__setitem__`, `__delitem__`
  | view | next                                        -- `.values()` and one iterator step
  | get (u : Uid)                                      -- `dict.get`: a single atomic read, needs no lock
  deriving Repr, DecidableEq, Inhabited

def Act.guarded : Act → Bool
  | .acq => false | .rel => false | .get _ => false
  | _ => true

/-- run the log: `none` as soon as an action breaks the discipline (acquire of a held lock, release
or guarded access by a thread that is not the owner) -/
def discipline : Option Nat → List (Nat × Act) → Option (Option Nat)
  | owner, [] => some owner
  | owner, (t, a) :: rest =>
    match a with
    | .acq => if owner.isNone then discipline (some t) rest else none
    | .rel => if owner == some t then discipline none rest else none
    | a => if a.guarded && owner != some t then none else discipline owner rest

/-! ## 2. interleavings of atomic sections -/

inductive Ev where
  | mut (tid : Nat) (op : Op)          -- a whole add / update / delete critical section
  | snap (tid : Nat)                   -- `find_for_inquiry`: the list of policies taken under the lock
  deriving Repr, Inhabited

/-- the store after a prefix of the execution -/
def storeAfter (cfg : Cfg) : St → List Ev → St
  | s, [] => s
  | s, .mut _ op :: rest => storeAfter cfg (Store.step cfg s op).1 rest
  | s, .snap _ :: rest => storeAfter cfg s rest

/-- the answer of the decision whose snapshot is the `i`-th event: the uncached decision over the
store as it stands right then -/
def answerAt {κ : Type} (cfg : Cfg) (answer : St → κ → Bool) (s0 : St) (evs : List Ev) (i : Nat) (k : κ) : Bool :=
  answer (storeAfter cfg s0 (evs.take i)) k

/-- results of a sequence of adds of one uid -/
def addResults (cfg : Cfg) : St → List (Uid × Pol) → List Out
  | _, [] => []
  | s, (u, p) :: rest =>
    let r := Store.step cfg s (.add u p true)
    r.2 :: addResults cfg r.1 rest

/-! ## 3. the decision cache keyed by generation -/

structure Entry (κ : Type) where
  gen : Nat
  key : κ
  val : Bool

inductive Phase (κ : Type) where
  | idle
  | computing (g : Nat) (k : κ)                -- generation read, miss, about to read the policies
  | computed (g : Nat) (k : κ) (v : Bool)      -- answer computed, not yet stored
  deriving Inhabited

structure Thread (κ : Type) where
  phase : Phase κ
  fresh : Bool          -- ghost: no mutation has been applied since this thread read the policies

structure CState (σ κ : Type) where
  store : σ
  gen : Nat
  pending : Nat         -- mutations applied whose invalidation has not happened yet (they have not returned)
  cache : List (Entry κ)
  threads : List (Thread κ)

inductive CEv (σ κ : Type) where
  | begin (t : Nat) (k : κ)       -- read the generation and look up: hit answers at once, miss starts computing
  | compute (t : Nat)             -- read the policies and decide
  | finish (t : Nat)              -- the wrapped call returns: store the result under the generation read at `begin`
  | apply (f : σ → σ)             -- a mutation takes effect in the storage
  | invalidate                    -- … and then notifies the cache: generation advances, entries dropped

variable {σ κ : Type} [DecidableEq κ]

def lookupC (g : Nat) (k : κ) : List (Entry κ) → Option Bool
  | [] => none
  | e :: rest => if e.gen = g ∧ e.key = k then some e.val else lookupC g k rest

def setThread (ts : List (Thread κ)) (t : Nat) (th : Thread κ) : List (Thread κ) := ts.set t th

/-- one step; returns the answer when a decision completes (hit at `begin`, or `finish`) -/
def cstep (answer : σ → κ → Bool) (c : CState σ κ) : CEv σ κ → CState σ κ × Option (Nat × κ × Bool)
  | .begin t k =>
    (match c.threads[t]? with
     | some ⟨.idle, _⟩ =>
       (match lookupC c.gen k c.cache with
        | some v => (c, some (t, k, v))
        | none => ({ c with threads := setThread c.threads t ⟨.computing c.gen k, true⟩ }, none))
     | _ => (c, none))
  | .compute t =>
    (match c.threads[t]? with
     | some ⟨.computing g k, _⟩ =>
       ({ c with threads := setThread c.threads t ⟨.computed g k (answer c.store k), true⟩ }, none)
     | _ => (c, none))
  | .finish t =>
    (match c.threads[t]? with
     | some ⟨.computed g k v, _⟩ =>
       ({ c with cache := ⟨g, k, v⟩ :: c.cache, threads := setThread c.threads t ⟨.idle, true⟩ }, some (t, k, v))
     | _ => (c, none))
  | .apply f =>
    ({ c with store := f c.store, pending := c.pending + 1,
              threads := c.threads.map fun th => { th with fresh := false } }, none)
  | .invalidate =>
    ({ c with gen := c.gen + 1, pending := c.pending - 1, cache := [] }, none)

def crun (answer : σ → κ → Bool) : CState σ κ → List (CEv σ κ) → CState σ κ
  | c, [] => c
  | c, e :: rest => crun answer (cstep answer c e).1 rest

end Vakt.Conc
