import Model.PyVal
import Model.Regex
import Model.Cidr
/-!
# vakt's built-in rules (`vakt/rules/*.py`) as one inductive type and one evaluator

`Rule.eval r what q` is `r.satisfied(what, q)` observed through truthiness, with a raised
exception as `.error .raised`.  Quirks of the code are kept: `Eq`/`NotEq` turn a tuple
*argument* into a list, `And` evaluates every operand before looking at the answers, `Or`
short-circuits, the `All*/Any*` rules raise unless offered a `list`, `In/NotIn` raise on an
unhashable offer, string rules are `False` for non-`str`, `RegexMatch` is a prefix match on
`str(what)`, inquiry rules are falsy without an inquiry.
-/
namespace Vakt
open PyVal

structure Inquiry where
  resource : PyVal
  action : PyVal
  subject : PyVal
  context : PyVal
  deriving Repr, Inhabited

inductive InqField where
  | subject | action | resource
  deriving Repr, DecidableEq, Inhabited

def Inquiry.field (q : Inquiry) : InqField → PyVal
  | .subject => q.subject
  | .action => q.action
  | .resource => q.resource

inductive Rule where
  | eq (v : PyVal) | notEq (v : PyVal)
  | greater (v : PyVal) | less (v : PyVal) | greaterOrEqual (v : PyVal) | lessOrEqual (v : PyVal)
  | isIn (d : List PyVal) | notIn (d : List PyVal)
  | allIn (d : List PyVal) | allNotIn (d : List PyVal)
  | anyIn (d : List PyVal) | anyNotIn (d : List PyVal)
  | truthy | falsy
  | and (rs : List Rule) | or (rs : List Rule) | not (r : Rule)
  | any | neither
  | strEqual (v : List Char) (ci : Bool)
  | startsWith (v : List Char) (ci : Bool)
  | endsWith (v : List Char) (ci : Bool)
  | contains (v : List Char) (ci : Bool)
  | pairsEqual
  | regexMatch (pat : List Char)
  | cidr (c : PyVal)
  | inqMatch (f : InqField) (attr : Option PyVal)
  | subjectEqual | actionEqual | resourceIn
  | raising                 -- a user-defined rule whose `satisfied` raises
  | constant (b : Bool)     -- a user-defined rule with a fixed answer
  deriving Repr, Inhabited

namespace Rule

def tupleToList : PyVal → PyVal
  | .tuple xs => .list xs
  | v => v

def fold (ci : Bool) (s : List Char) : List Char := if ci then CharTable.lower s else s

/-- one `pair` of `PairsEqual`: `none` = keep going, `some r` = stop with `r` -/
def pairStep : PyVal → Option R
  | .list [a, b] => if !isStr a && !isStr b then some (.ok false) else if pyEq a b then none else some (.ok false)
  | .tuple [a, b] => if !isStr a && !isStr b then some (.ok false) else if pyEq a b then none else some (.ok false)
  | .list _ => some (.ok false)
  | .tuple _ => some (.ok false)
  | .str [a, b] => if a == b then none else some (.ok false)
  | .str _ => some (.ok false)
  | .dict [_, _] => some (.error .raised)        -- pair[0] → KeyError on a string-keyed dict
  | .dict _ => some (.ok false)
  | _ => some (.error .raised)                   -- len() of a number / None → TypeError

def evalPairs : List PyVal → R
  | [] => .ok true
  | p :: ps => match pairStep p with
    | some r => r
    | Option.none => evalPairs ps

/-- strip one leading `^`; report whether the pattern ends in an unescaped `$` -/
def stripAnchors (p : List Char) : List Char × Bool :=
  let p1 := match p with | '^' :: r => r | r => r
  match p1.reverse with
  | '$' :: revRest =>
    let bs := (revRest.takeWhile (· == '\\')).length
    if bs % 2 == 0 then (revRest.reverse, true) else (p1, false)
  | _ => (p1, false)

def evalRegex (pat : List Char) (what : PyVal) : R :=
  match pyStr what with
  | Option.none => .error .raised
  | some s =>
    let (body, dollar) := stripAnchors pat
    match parsePattern body with
    | .ok r _ => .ok (if dollar then r.acceptsDollar s else r.matchesPrefix s)
    | _ => .error .raised

def evalCidr (c : PyVal) (what : PyVal) : R :=
  match what with
  | .str a =>
    (match c with
     | .str n =>
       (match Cidr.parseAddr a with
        | Option.none => .ok false
        | some (av, ip) =>
          match Cidr.parseNet n with
          | .ok nv net p => .ok (Cidr.contains nv net p av ip)
          | _ => .ok false)
     | _ => .ok false)
  | _ => .ok false

def evalInqMatch (f : InqField) (attr : Option PyVal) (what : PyVal) : Option Inquiry → R
  | Option.none => .ok false
  | some q =>
    let iv := q.field f
    match attr with
    | Option.none => .ok (pyEq what iv)
    | some a =>
      match iv with
      | .dict kvs =>
        if !hashable a then .error .raised
        else (match a with
              | .str k => (match lookup k kvs with
                           | some v => .ok (pyEq what v)
                           | Option.none => .ok false)
              | _ => .ok false)
      | _ => .ok false

mutual
/-- `rule.satisfied(what, inquiry)` up to truthiness -/
def eval : Rule → PyVal → Option Inquiry → R
  | .eq v, w, _ => .ok (pyEq (tupleToList v) w)
  | .notEq v, w, _ => .ok (!pyEq (tupleToList v) w)
  | .greater v, w, _ => pyGt w v
  | .less v, w, _ => pyLt w v
  | .greaterOrEqual v, w, _ => pyGe w v
  | .lessOrEqual v, w, _ => pyLe w v
  | .isIn d, w, _ => memSet w d
  | .notIn d, w, _ => (memSet w d).map (!·)
  | .allIn d, w, _ =>
    (match w with
     | .list xs => (toSet xs).map (fun s => s.all (fun x => d.any (pyEq x)))
     | _ => .error .raised)
  | .allNotIn d, w, _ =>
    (match w with
     | .list xs => (toSet xs).map (fun s => !s.all (fun x => d.any (pyEq x)))
     | _ => .error .raised)
  | .anyIn d, w, _ =>
    (match w with
     | .list xs => (toSet xs).map (fun s => s.any (fun x => d.any (pyEq x)))
     | _ => .error .raised)
  | .anyNotIn d, w, _ =>
    (match w with
     | .list xs => (toSet xs).map (fun s => s.any (fun x => !d.any (pyEq x)))
     | _ => .error .raised)
  | .truthy, w, _ => .ok (PyVal.truthy w)
  | .falsy, w, _ => .ok (!PyVal.truthy w)
  | .and rs, w, q => (evalAll rs w q).map (fun as => !as.isEmpty && as.all id)
  | .or rs, w, q => evalAny rs w q
  | .not r, w, q => (eval r w q).map (!·)
  | .any, _, _ => .ok true
  | .neither, _, _ => .ok false
  | .strEqual v ci, w, _ =>
    (match w with | .str s => .ok (fold ci s == fold ci v) | _ => .ok false)
  | .startsWith v ci, w, _ =>
    (match w with | .str s => .ok ((fold ci v).isPrefixOf (fold ci s)) | _ => .ok false)
  | .endsWith v ci, w, _ =>
    (match w with | .str s => .ok ((fold ci v).isSuffixOf (fold ci s)) | _ => .ok false)
  | .contains v ci, w, _ =>
    (match w with | .str s => .ok (isInfix (fold ci v) (fold ci s)) | _ => .ok false)
  | .pairsEqual, w, _ => (match w with | .list ps => evalPairs ps | _ => .ok false)
  | .regexMatch p, w, _ => evalRegex p w
  | .cidr c, w, _ => evalCidr c w
  | .inqMatch f a, w, q => evalInqMatch f a w q
  | .subjectEqual, w, q =>
    (match q with | some q => .ok (isStr w && pyEq w q.subject) | Option.none => .ok false)
  | .actionEqual, w, q =>
    (match q with | some q => .ok (isStr w && pyEq w q.action) | Option.none => .ok false)
  | .resourceIn, w, q =>
    (match q with
     | some q => (match w with | .list xs => .ok (memList q.resource xs) | _ => .ok false)
     | Option.none => .ok false)
  | .raising, _, _ => .error .raised
  | .constant b, _, _ => .ok b
/-- the list comprehension of `And`: every operand is evaluated, the first raise propagates -/
def evalAll : List Rule → PyVal → Option Inquiry → Except PyErr (List Bool)
  | [], _, _ => .ok []
  | r :: rs, w, q =>
    match eval r w q with
    | .error e => .error e
    | .ok b => (match evalAll rs w q with
                | .error e => .error e
                | .ok bs => .ok (b :: bs))
/-- the loop of `Or`: stops at the first satisfied operand -/
def evalAny : List Rule → PyVal → Option Inquiry → R
  | [], _, _ => .ok false
  | r :: rs, w, q =>
    match eval r w q with
    | .error e => .error e
    | .ok true => .ok true
    | .ok false => evalAny rs w q
end

end Rule
end Vakt
