import Model.StorageCodec
import Model.Prefilter
/-!
# The server-side prefilter of `MongoStorage` for the regex checker (MongoDB ≥ 4.2)

`__regex_query_on_conditions`: an aggregation `$match` with `$expr: {$and: [type is string-based, C(actions),
C(subjects), C(resources)]}` where `C(field)` is `$anyElementTrue` over `$map` of the `<field>_compiled_regex`
array with `$or: [$eq: [entry, value], $regexMatch: {input: value, regex: entry}]`.  `$and` and `$or` evaluate
left to right and stop early; `$map` evaluates every entry; an entry that is not a valid regular expression makes
`$regexMatch` — and with it the whole aggregation — fail.  `search rx v` stands for the server's `$regexMatch`
(`none` = invalid regular expression).
-/
namespace Vakt.MongoRegex
open Vakt PyVal StorageCodec Prefilter RuleCodec

abbrev Search := List Char → List Char → Option Bool

/-- the text kept in a `<field>_compiled_regex` array for one element -/
def entryText (c : Compile) (p : Policy) : Elem → Option (List Char)
  | .str s => if hasTags p s then c p.stag p.etag s else some s
  | _ => Option.none

/-- `$or: [$eq, $regexMatch]` -/
def entryCond (search : Search) (w : List Char) (c : List Char) : Option Bool :=
  if c = w then some true else search c w

/-- `$anyElementTrue` over `$map` (every entry is evaluated) -/
def fieldCond (search : Search) (w : List Char) (cs : List (List Char)) : Option Bool :=
  (mapOpt (entryCond search w) cs).map (fun bs => bs.any id)

def andO (a : Option Bool) (b : Unit → Option Bool) : Option Bool :=
  match a with
  | some true => b ()
  | x => x

/-- the `$expr` of one stored document; `none` = the expression fails (OperationFailure) -/
def docCond (search : Search) (c : Compile) (p : Policy) (a s r : List Char) : Option Bool :=
  if !isStringTyped p then some false
  else
    match mapOpt (entryText c p) p.actions, mapOpt (entryText c p) p.subjects, mapOpt (entryText c p) p.resources with
    | some ca, some cs, some cr =>
      andO (fieldCond search a ca) fun _ => andO (fieldCond search s cs) fun _ => fieldCond search r cr
    | _, _, _ => Option.none

/-- the aggregation over the collection: it fails as a whole as soon as one document's expression fails -/
def find (search : Search) (c : Compile) (a s r : List Char) : List Policy → Option (List Policy)
  | [] => some []
  | p :: ps =>
    match docCond search c p a s r, find search c a s r ps with
    | some true, some rest => some (p :: rest)
    | some false, some rest => some rest
    | _, _ => Option.none

/-- the policy could be stored: every element of its three fields has its compiled text -/
def Storable (c : Compile) (p : Policy) : Prop :=
  (mapOpt (entryText c p) p.actions).isSome = true ∧ (mapOpt (entryText c p) p.subjects).isSome = true ∧
  (mapOpt (entryText c p) p.resources).isSome = true

/-- the server's anchored search finds what the model's whole-string match accepts -/
def SearchSound (search : Search) : Prop :=
  ∀ (ps : List Piece) (r : Re) (rest w : List Char), piecesRe ps = .ok r rest → r.accepts w = true →
    search ('^' :: patternOfPieces ps ++ ['$']) w = some true

end Vakt.MongoRegex
