import Model.Store
/-!
# `EnfoldCache`: a storage (the backend) enfolded by another storage (the cache)

Both components are abstract stores; the cache is an in-memory storage (insertion order).  Every
operation reports whether the backend was touched.  `ok = false` on a mutation stands for any
failure of the backend (a policy it cannot store, or an injected fault).
-/
namespace Vakt.Enfold
open Vakt.Store

structure EState where
  cache : St
  backend : St
  deriving Repr, Inhabited

def memCfg : Cfg := ⟨false, false⟩

inductive EOp where
  | add (u : Uid) (p : Pol) (ok : Bool)
  | update (u : Uid) (p : Pol) (ok : Bool)
  | delete (u : Uid)
  | get (u : Uid)
  | getAll (limit offset : Int)
  | retrieveAll (batch : Int)
  | populate (batch : Nat)
  | fault                                   -- a mutation on which the backend fails at once
  deriving Repr, Inhabited

/-- feed a list of bindings to the cache with `add` (what `populate` does); stops at the first refusal -/
def feed : St → St → St × Out
  | c, [] => (c, .done)
  | c, (u, p) :: rest =>
    match Store.step memCfg c (.add u p true) with
    | (c', .done) => feed c' rest
    | (c', o) => (c', o)

/-- (new state, output, was the backend touched) -/
def step (cfg : Cfg) (s : EState) : EOp → EState × Out × Bool
  | .add u p ok =>
    match Store.step cfg s.backend (.add u p ok) with
    | (b', .done) =>
      let r := Store.step memCfg s.cache (.add u p true)
      ({ cache := r.1, backend := b' }, r.2, true)
    | (_, o) => (s, o, true)                     -- the backend raised: propagate, nothing else happens
  | .update u p ok =>
    match Store.step cfg s.backend (.update u p ok) with
    | (b', .done) =>
      let r := Store.step memCfg s.cache (.update u p true)
      ({ cache := r.1, backend := b' }, r.2, true)
    | (_, o) => (s, o, true)
  | .delete u =>
    let b := Store.step cfg s.backend (.delete u)
    let c := Store.step memCfg s.cache (.delete u)
    ({ cache := c.1, backend := b.1 }, .done, true)
  | .get u =>
    match lookup u s.cache with
    | some p => (s, .pol (some p), false)
    | none => (s, .pol (lookup u s.backend), true)
  | .getAll l o =>
    match Store.step memCfg s.cache (.getAll l o) with
    | (_, .pols (x :: xs)) => (s, .pols (x :: xs), false)
    | (_, .valueError) => (s, .valueError, false)
    | _ => (s, (Store.step cfg s.backend (.getAll l o)).2, true)
  | .retrieveAll b =>
    match Store.step memCfg s.cache (.retrieveAll b) with
    | (_, .pols (x :: xs)) => (s, .pols (x :: xs), false)
    | (_, .valueError) => (s, .valueError, false)
    | _ => (s, (Store.step cfg s.backend (.retrieveAll b)).2, true)
  | .populate batch =>
    let all := retrieveAll (listing cfg s.backend) batch
    let r := feed s.cache all
    ({ s with cache := r.1 }, r.2, true)
  | .fault => (s, .rejected, true)

def run (cfg : Cfg) : EState → List EOp → EState × List (Out × Bool)
  | s, [] => (s, [])
  | s, op :: rest =>
    let r := step cfg s op
    let t := run cfg r.1 rest
    (t.1, (r.2.1, r.2.2) :: t.2)

/-- cache and backend hold the same policies (as maps), and both are maps -/
def Coherent (s : EState) : Prop :=
  Distinct s.cache ∧ Distinct s.backend ∧ ∀ u, lookup u s.cache = lookup u s.backend

end Vakt.Enfold
