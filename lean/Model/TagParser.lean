/-!
# The tagged-pattern language of string policies (`vakt/parser.py`)

`scan s t e` splits an element into literal text and top-level tagged segments, or fails
(`none`) when the delimiters are unbalanced — the observable content of `get_tag_indices` +
the slicing loop of `compile_regex`.  `render` is its inverse (`Proofs/TagParser.lean`).
-/
namespace Vakt

inductive Piece where
  | lit (s : List Char)
  | seg (s : List Char)
  deriving Repr, DecidableEq, Inhabited

namespace TagParser

/-- one-pass scanner: `level` = current nesting depth, `cur` = text of the piece being read -/
def scanAux (s t : Char) : List Char → (level : Nat) → (cur : List Char) → (acc : List Piece) → Option (List Piece)
  | [], 0, cur, acc => some (acc ++ [Piece.lit cur])
  | [], _ + 1, _, _ => none
  | c :: cs, 0, cur, acc =>
    if c = s then scanAux s t cs 1 [] (acc ++ [Piece.lit cur])
    else if c = t then none
    else scanAux s t cs 0 (cur ++ [c]) acc
  | c :: cs, n + 1, cur, acc =>
    if c = s then scanAux s t cs (n + 2) (cur ++ [c]) acc
    else if c = t then
      (if n = 0 then scanAux s t cs 0 [] (acc ++ [Piece.seg cur]) else scanAux s t cs n (cur ++ [c]) acc)
    else scanAux s t cs (n + 1) (cur ++ [c]) acc

/-- `none` = unbalanced delimiters (`InvalidPatternError`) -/
def scan (s t : Char) (e : List Char) : Option (List Piece) := scanAux s t e 0 [] []

def render (s t : Char) : List Piece → List Char
  | [] => []
  | Piece.lit l :: ps => l ++ render s t ps
  | Piece.seg x :: ps => s :: x ++ t :: render s t ps

def segments : List Piece → List (List Char)
  | [] => []
  | Piece.seg x :: ps => x :: segments ps
  | Piece.lit _ :: ps => segments ps

/-- is the element written in the tagged syntax at all (`start_tag in i or end_tag in i`) -/
def tagged (s t : Char) (e : List Char) : Bool := e.contains s || e.contains t

end TagParser
end Vakt
