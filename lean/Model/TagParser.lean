/-!
# The tagged-pattern language of string policies (`vakt/parser.py`)

`scan s t e` splits an element into literal text and top-level tagged segments, or fails
(`none`) when the delimiters are unbalanced — the observable content of `get_tag_indices` +
the slicing loop of `compile_regex`.  `render` is its inverse (`Proofs/TagParser.lean`).
-/
namespace Vakt

inductive Piece where
  | lit (s : List Char)
  | seg (s : List Char)
  deriving Repr, DecidableEq, Inhabited

namespace TagParser

/-- one-pass scanner: `level` = current nesting depth, `cur` = text of the piece being read -/
def scanAux (s t : Char) : List Char → (level : Nat) → (cur : List Char) → (acc : List Piece) → Option (List Piece)
  | [], 0, cur, acc => some (acc ++ [Piece.lit cur])
  | [], _ + 1, _, _ => none
  | c :: cs, 0, cur, acc =>
    if c = s then scanAux s t cs 1 [] (acc ++ [Piece.lit cur])
    else if c = t then none
    else scanAux s t cs 0 (cur ++ [c]) acc
  | c :: cs, n + 1, cur, acc =>
    if c = s then scanAux s t cs (n + 2) (cur ++ [c]) acc
    else if c = t then
      (if n = 0 then scanAux s t cs 0 [] (acc ++ [Piece.seg cur]) else scanAux s t cs n (cur ++ [c]) acc)
    else scanAux s t cs (n + 1) (cur ++ [c]) acc

/-- `none` = unbalanced delimiters (`InvalidPatternError`) -/
def scan (s t : Char) (e : List Char) : Option (List Piece) := scanAux s t e 0 [] []

def render (s t : Char) : List Piece → List Char
  | [] => []
  | Piece.lit l :: ps => l ++ render s t ps
  | Piece.seg x :: ps => s :: x ++ t :: render s t ps

def segments : List Piece → List (List Char)
  | [] => []
  | Piece.seg x :: ps => x :: segments ps
  | Piece.lit _ :: ps => segments ps

/-- is the element written in the tagged syntax at all (`start_tag in i or end_tag in i`) -/
def tagged (s t : Char) (e : List Char) : Bool := e.contains s || e.contains t

end TagParser
end Vakt

/-! ## The index form: `get_tag_indices` and the slicing loop of `compile_regex`

`tagIdxAux` walks the phrase with a position counter exactly as `get_tag_indices` does and
returns the `(start index, end index + 1)` pair of every top-level tagged segment (the flat list
of the implementation, read two by two); `piecesFrom` is the slicing loop of `compile_regex`.
`Proofs/TagIndex.lean` shows that together they compute `scan`. -/
namespace Vakt.TagParser

def tagIdxAux (s t : Char) : List Char → (i idx level : Nat) → (acc : List (Nat × Nat)) → Option (List (Nat × Nat))
  | [], _, _, 0, acc => some acc
  | [], _, _, _ + 1, _ => none
  | c :: cs, i, idx, level, acc =>
    if c = s then tagIdxAux s t cs (i + 1) (if level = 0 then i else idx) (level + 1) acc
    else if c = t then
      match level with
      | 0 => none
      | 1 => tagIdxAux s t cs (i + 1) idx 0 (acc ++ [(idx, i + 1)])
      | n + 2 => tagIdxAux s t cs (i + 1) idx (n + 1) acc
    else tagIdxAux s t cs (i + 1) idx level acc

def tagIndices (s t : Char) (e : List Char) : Option (List (Nat × Nat)) := tagIdxAux s t e 0 0 0 []

/-- `phrase[a:b]` -/
def slice (l : List Char) (a b : Nat) : List Char := (l.take b).drop a

/-- the loop of `compile_regex`: literal before each segment, the segment without its tags, the literal tail -/
def piecesFrom (phrase : List Char) : List (Nat × Nat) → Nat → List Piece
  | [], endp => [Piece.lit (phrase.drop endp)]
  | (idx, e) :: rest, endp =>
    Piece.lit (slice phrase endp idx) :: Piece.seg (slice phrase (idx + 1) (e - 1)) :: piecesFrom phrase rest e

/-- `get_tag_indices` followed by the slicing loop -/
def scanByIndex (s t : Char) (e : List Char) : Option (List Piece) :=
  (tagIndices s t e).map (fun ix => piecesFrom e ix 0)

end Vakt.TagParser
