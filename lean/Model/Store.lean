import Model.PyVal
/-!
# The abstract storage: a uid-keyed map with listing, paging and batched retrieval

This is the specification every backend and wrapper is compared with (`vakt/storage/abc.py` and
the concrete storages).  `Cfg.sorted` says whether listings come back ordered by uid (SQL,
Mongo) or in insertion order (Memory, Redis hash as returned by the client).
Policies are opaque content identifiers here; what a stored policy *means* is C09.
-/
namespace Vakt.Store

abbrev Uid := List Char
abbrev Pol := Nat
abbrev St := List (Uid × Pol)

structure Cfg where
  sorted : Bool            -- listings ordered by uid (SQL, Mongo) rather than by insertion
  eagerConvert : Bool      -- `update` converts the policy before looking the uid up (Mongo)
  deriving Repr, Inhabited

def lookup (u : Uid) : St → Option Pol
  | [] => none
  | (k, v) :: rest => if k = u then some v else lookup u rest

def replace (u : Uid) (p : Pol) : St → St
  | [] => []
  | (k, v) :: rest => if k = u then (k, p) :: rest else (k, v) :: replace u p rest

def erase (u : Uid) : St → St
  | [] => []
  | (k, v) :: rest => if k = u then rest else (k, v) :: erase u rest

def uidLe (a b : Uid) : Bool := a == b || PyVal.strLt a b

def insertSorted (x : Uid × Pol) : St → St
  | [] => [x]
  | y :: rest => if uidLe x.1 y.1 then x :: y :: rest else y :: insertSorted x rest

def sortUid : St → St
  | [] => []
  | x :: rest => insertSorted x (sortUid rest)

/-- the order in which `get_all` / `retrieve_all` enumerate the store -/
def listing (cfg : Cfg) (s : St) : St := if cfg.sorted then sortUid s else s

/-- `get_all(limit, offset)` for non-negative arguments -/
def page (l : St) (limit offset : Nat) : St := (l.drop offset).take limit

/-- the loop of `Storage.retrieve_all`: pages of size `batch` until an empty page -/
def retrieveLoop (l : St) (batch : Nat) : (fuel : Nat) → (offset : Nat) → St
  | 0, _ => []
  | f + 1, off =>
    let pg := page l batch off
    if pg.isEmpty then [] else pg ++ retrieveLoop l batch f (off + batch)

def retrieveAll (l : St) (batch : Nat) : St := retrieveLoop l batch (l.length + 1) 0

inductive Op where
  | add (u : Uid) (p : Pol) (ok : Bool)     -- `ok = false`: the backend cannot store this policy (it raises)
  | update (u : Uid) (p : Pol) (ok : Bool)
  | delete (u : Uid)
  | get (u : Uid)
  | getAll (limit offset : Int)
  | retrieveAll (batch : Int)
  | fault                                   -- a mutation on which the backend fails before doing anything
  deriving Repr, Inhabited

inductive Out where
  | done                     -- returned normally (None)
  | existsErr                -- PolicyExistsError
  | rejected                 -- the backend raised while converting the policy
  | valueError               -- negative limit / offset
  | pol (p : Option Pol)
  | pols (l : St)
  deriving Repr, DecidableEq, Inhabited

def step (cfg : Cfg) (s : St) : Op → St × Out
  | .add u p ok =>
    if !ok then (s, .rejected)
    else match lookup u s with
      | some _ => (s, .existsErr)
      | none => (s ++ [(u, p)], .done)
  | .update u p ok =>
    if cfg.eagerConvert && !ok then (s, .rejected)
    else match lookup u s with
      | none => (s, .done)                     -- absent: nothing happens
      | some _ => if !ok then (s, .rejected) else (replace u p s, .done)
  | .delete u => (erase u s, .done)
  | .get u => (s, .pol (lookup u s))
  | .getAll limit offset =>
    if limit < 0 || offset < 0 then (s, .valueError)
    else (s, .pols (page (listing cfg s) limit.toNat offset.toNat))
  | .retrieveAll batch =>
    if batch < 0 then (s, .valueError)
    else (s, .pols (retrieveAll (listing cfg s) batch.toNat))
  | .fault => (s, .rejected)

def run (cfg : Cfg) : St → List Op → St × List Out
  | s, [] => (s, [])
  | s, op :: rest =>
    let r := step cfg s op
    let t := run cfg r.1 rest
    (t.1, r.2 :: t.2)

/-- keys are pairwise distinct -/
def Distinct : St → Prop
  | [] => True
  | (k, _) :: rest => lookup k rest = none ∧ Distinct rest

end Vakt.Store
