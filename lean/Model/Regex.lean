import Model.Generated
/-!
# Regular expressions: AST, denotational language, derivative matcher, Python-subset parser

`Re.Lang` is the specification (an inductive language), `Re.accepts` the executable matcher
(Brzozowski derivatives); `Proofs/Regex.lean` proves `accepts r w = true ↔ Lang r w`.
`parsePattern` reads the subset of Python `re` syntax the model covers; anything else is
`unsupported` (the driver answers `unmodelled`, never a default).
-/

namespace Vakt

/-- one member of a character class -/
inductive CItem where
  | ch (c : Char)
  | range (a b : Char)
  | digit | word | space | ndigit | nword | nspace
  | dot                      -- any character except newline
  deriving Repr, DecidableEq, Inhabited

structure CClass where
  neg : Bool
  items : List CItem
  deriving Repr, DecidableEq, Inhabited

namespace CharTable
/-- row of the generated table: (code point, lower-case image, \d, \w, \s) as CPython reports them -/
def row (c : Char) : Option (Nat × List Nat × Bool × Bool × Bool) :=
  Generated.charTable.find? (fun r => r.1 == c.toNat)
def known (c : Char) : Bool := (row c).isSome
def isDigit (c : Char) : Bool := match row c with | some r => r.2.2.1 | none => false
def isWord (c : Char) : Bool := match row c with | some r => r.2.2.2.1 | none => false
def isSpace (c : Char) : Bool := match row c with | some r => r.2.2.2.2 | none => false
def lowerChar (c : Char) : List Char :=
  match row c with | some r => r.2.1.map Char.ofNat | none => [c]
def lower (s : List Char) : List Char := s.flatMap lowerChar
def allKnown (s : List Char) : Bool := s.all known
end CharTable

def CItem.test : CItem → Char → Bool
  | .ch a, c => a == c
  | .range a b, c => a.toNat ≤ c.toNat && c.toNat ≤ b.toNat
  | .digit, c => CharTable.isDigit c
  | .word, c => CharTable.isWord c
  | .space, c => CharTable.isSpace c
  | .ndigit, c => !CharTable.isDigit c
  | .nword, c => !CharTable.isWord c
  | .nspace, c => !CharTable.isSpace c
  | .dot, c => c != '\n'

def CClass.test (k : CClass) (c : Char) : Bool :=
  let hit := k.items.any (fun i => i.test c)
  if k.neg then !hit else hit

inductive Re where
  | zero | eps
  | set (k : CClass)
  | alt (a b : Re) | cat (a b : Re) | star (a : Re)
  deriving Repr, DecidableEq, Inhabited

namespace Re

/-- the language denoted by a regular expression -/
inductive Lang : Re → List Char → Prop
  | eps : Lang .eps []
  | set {k c} : k.test c = true → Lang (.set k) [c]
  | altL {a b w} : Lang a w → Lang (.alt a b) w
  | altR {a b w} : Lang b w → Lang (.alt a b) w
  | cat {a b u v} : Lang a u → Lang b v → Lang (.cat a b) (u ++ v)
  | starNil {a} : Lang (.star a) []
  | starCons {a u v} : Lang a u → Lang (.star a) v → Lang (.star a) (u ++ v)

def nullable : Re → Bool
  | zero => false | eps => true | set _ => false
  | alt a b => a.nullable || b.nullable
  | cat a b => a.nullable && b.nullable
  | star _ => true

def deriv (c : Char) : Re → Re
  | zero => zero | eps => zero
  | set k => if k.test c then eps else zero
  | alt a b => alt (a.deriv c) (b.deriv c)
  | cat a b => if a.nullable then alt (cat (a.deriv c) b) (b.deriv c) else cat (a.deriv c) b
  | star a => cat (a.deriv c) (star a)

/-- whole-string match (`re.fullmatch`) -/
def accepts (r : Re) : List Char → Bool
  | [] => r.nullable
  | c :: cs => (r.deriv c).accepts cs

/-- some prefix matches (`re.match` without an end anchor) -/
def matchesPrefix (r : Re) : List Char → Bool
  | [] => r.nullable
  | c :: cs => r.nullable || (r.deriv c).matchesPrefix cs

/-- `re.match('^…$')`: whole string, or whole string but for one final newline -/
def acceptsDollar (r : Re) : List Char → Bool
  | [] => r.nullable
  | c :: cs => (c == '\n' && cs.isEmpty && r.nullable) || (r.deriv c).acceptsDollar cs

def lit : List Char → Re
  | [] => eps
  | c :: cs => cat (set ⟨false, [.ch c]⟩) (lit cs)

def catList : List Re → Re
  | [] => eps
  | r :: rs => cat r (catList rs)

def pow (r : Re) : Nat → Re
  | 0 => eps
  | n + 1 => cat r (pow r n)

def opt (r : Re) : Re := alt eps r

end Re

/-! ## Parser for the modelled subset of Python `re` syntax -/

inductive ParseRes (α : Type) where
  | ok (a : α) (rest : List Char)
  | invalid            -- CPython raises `re.error` in every context
  | unsupported        -- outside the modelled subset
  deriving Repr, Inhabited

namespace ReParse

def isQuantStart (c : Char) : Bool := c == '*' || c == '+' || c == '?' || c == '{'

def readNat : List Char → Nat → Bool → (Option Nat × List Char)
  | c :: cs, acc, seen =>
    if c.isDigit then readNat cs (acc * 10 + (c.toNat - '0'.toNat)) true
    else (if seen then some acc else none, c :: cs)
  | [], acc, seen => (if seen then some acc else none, [])

/-- does the text after a `{` complete a repeat quantifier (`{m}`, `{m,}`, `{,n}`, `{m,n}`, `{,}`)?  CPython
treats the brace as literal text otherwise (and `{}` is literal) -/
def braceIsQuant (r : List Char) : Bool :=
  match r with
  | '}' :: _ => false
  | _ =>
    match readNat r 0 false with
    | (_, '}' :: _) => true
    | (_, ',' :: r') => (match readNat r' 0 false with | (_, '}' :: _) => true | _ => false)
    | _ => false

/-- escape outside a class -/
def escapeAtom (c : Char) : Option Re :=
  if c == 'd' then some (.set ⟨false, [.digit]⟩)
  else if c == 'D' then some (.set ⟨false, [.ndigit]⟩)
  else if c == 'w' then some (.set ⟨false, [.word]⟩)
  else if c == 'W' then some (.set ⟨false, [.nword]⟩)
  else if c == 's' then some (.set ⟨false, [.space]⟩)
  else if c == 'S' then some (.set ⟨false, [.nspace]⟩)
  else if c == 'n' then some (.set ⟨false, [.ch '\n']⟩)
  else if c == 't' then some (.set ⟨false, [.ch '\t']⟩)
  else if c == 'r' then some (.set ⟨false, [.ch '\r']⟩)
  else if c.isAlphanum then none
  else if c.toNat < 128 then some (.set ⟨false, [.ch c]⟩)
  else none

def escapeItem (c : Char) : Option CItem :=
  if c == 'd' then some .digit else if c == 'D' then some .ndigit
  else if c == 'w' then some .word else if c == 'W' then some .nword
  else if c == 's' then some .space else if c == 'S' then some .nspace
  else if c == 'n' then some (.ch '\n') else if c == 't' then some (.ch '\t')
  else if c == 'r' then some (.ch '\r')
  else if c.isAlphanum then none
  else if c.toNat < 128 then some (.ch c)
  else none

/-- body of a `[...]` class after the optional `^`; returns items and the rest after `]` -/
def classItems : Nat → List Char → List CItem → Option (List CItem × List Char)
  | 0, _, _ => none
  | _ + 1, [], _ => none
  | fuel + 1, c :: cs, acc =>
    if c == ']' then (if acc.isEmpty then none else some (acc.reverse, cs))
    else if c == '[' then none
    else if c == '\\' then
      match cs with
      | e :: cs' =>
        match escapeItem e with
        | some it =>
          -- a class escape cannot start a range; a literal escape followed by '-' is left unsupported
          (match cs' with
           | '-' :: d :: _ => if d == ']' then classItems fuel cs' (it :: acc) else none
           | _ => classItems fuel cs' (it :: acc))
        | none => none
      | [] => none
    else
      match cs with
      | '-' :: d :: cs' =>
        if d == ']' then classItems fuel cs (.ch c :: acc)
        else if d == '\\' || d == '[' then none
        else if c.toNat ≤ d.toNat then classItems fuel cs' (.range c d :: acc) else none
      | _ => if c == '-' && !acc.isEmpty then none else classItems fuel cs (.ch c :: acc)

mutual
def parseAlt : Nat → List Char → ParseRes Re
  | 0, _ => .unsupported
  | fuel + 1, s =>
    match parseCat fuel s with
    | .ok a rest =>
      (match rest with
       | '|' :: rest' =>
         (match parseAlt fuel rest' with
          | .ok b rest'' => .ok (.alt a b) rest''
          | .invalid => .invalid
          | .unsupported => .unsupported)
       | _ => .ok a rest)
    | .invalid => .invalid
    | .unsupported => .unsupported
def parseCat : Nat → List Char → ParseRes Re
  | 0, _ => .unsupported
  | fuel + 1, s =>
    match s with
    | [] => .ok .eps []
    | c :: _ =>
      if c == '|' || c == ')' then .ok .eps s
      else
        match parseRep fuel s with
        | .ok a rest =>
          (match parseCat fuel rest with
           | .ok b rest' => .ok (.cat a b) rest'
           | .invalid => .invalid
           | .unsupported => .unsupported)
        | .invalid => .invalid
        | .unsupported => .unsupported
def parseRep : Nat → List Char → ParseRes Re
  | 0, _ => .unsupported
  | fuel + 1, s =>
    match parseAtom fuel s with
    | .ok a rest =>
      (match rest with
       | '*' :: r => quantTail (.star a) r
       | '+' :: r => quantTail (.cat a (.star a)) r
       | '?' :: r => quantTail (.opt a) r
       | '{' :: r =>
         (match readNat r 0 false with
          | (some m, '}' :: r') => if m ≤ 8 then quantTail (.pow a m) r' else .unsupported
          | (some m, ',' :: r') =>
            (match readNat r' 0 false with
             | (some n, '}' :: r'') =>
               if m > n then .invalid
               else if n ≤ 8 then quantTail (.cat (.pow a m) (.pow (.opt a) (n - m))) r''
               else .unsupported
             | (none, '}' :: r'') => if m ≤ 8 then quantTail (.cat (.pow a m) (.star a)) r'' else .unsupported
             | (some _, _) => .unsupported
             | (none, _) => .ok a rest)          -- `a{3,x`: not a quantifier, the brace is literal text
          | (some _, _) => .ok a rest            -- `a{3x`: literal brace
          | (none, ',' :: r') =>
            (match readNat r' 0 false with
             | (some n, '}' :: r'') => if n ≤ 8 then quantTail (.pow (.opt a) n) r'' else .unsupported   -- `{,n}`
             | (none, '}' :: _) => .unsupported
             | (some _, _) => .unsupported
             | (none, _) => .ok a rest)
          | (none, _) => .ok a rest)             -- `a{x`: literal brace
       | _ => .ok a rest)
    | .invalid => .invalid
    | .unsupported => .unsupported
def parseAtom : Nat → List Char → ParseRes Re
  | 0, _ => .unsupported
  | fuel + 1, s =>
    match s with
    | [] => .unsupported
    | '(' :: rest =>
      let body := match rest with
        | '?' :: ':' :: r => some r
        | '?' :: _ => none
        | r => some r
      (match body with
       | none => .unsupported
       | some r =>
         match parseAlt fuel r with
         | .ok a (')' :: rest') => .ok a rest'
         | .ok _ [] => .invalid                  -- missing ')'
         | .ok _ _ => .unsupported
         | .invalid => .invalid
         | .unsupported => .unsupported)
    | '[' :: rest =>
      let (neg, body) := match rest with
        | '^' :: r => (true, r)
        | r => (false, r)
      (match classItems (body.length + 1) body [] with
       | some (items, rest') => .ok (.set ⟨neg, items⟩) rest'
       | none => .unsupported)
    | '.' :: rest => .ok (.set ⟨false, [.dot]⟩) rest
    | '\\' :: e :: rest =>
      (match escapeAtom e with
       | some r => .ok r rest
       | none => .unsupported)
    | '\\' :: [] => .unsupported
    | c :: rest =>
      if c == '*' || c == '+' || c == '?' then .invalid        -- nothing to repeat
      else if c == '^' || c == '$' || c == ')' || c == '|' then .unsupported
      else if c == '{' && braceIsQuant rest then .invalid    -- a complete quantifier with nothing to repeat
      -- otherwise `{`, `}` and `]` with nothing to open or close are ordinary characters
      else .ok (.set ⟨false, [.ch c]⟩) rest
/-- after a quantifier: an optional lazy `?`; a further quantifier is outside the subset -/
def quantTail (r : Re) : List Char → ParseRes Re
  | '?' :: c :: rest => if isQuantStart c then .unsupported else .ok r (c :: rest)
  | '?' :: [] => .ok r []
  | c :: rest => if isQuantStart c then .unsupported else .ok r (c :: rest)
  | [] => .ok r []
end

end ReParse

/-- parse a whole stand-alone pattern (no anchors); `invalid` only where CPython certainly raises `re.error` -/
def parsePattern (s : List Char) : ParseRes Re :=
  match ReParse.parseAlt (6 * s.length + 16) s with
  | .ok r [] => .ok r []
  | .ok _ (')' :: _) => .invalid               -- unbalanced ')'
  | .ok _ _ => .unsupported
  | .invalid => .invalid
  | .unsupported => .unsupported

end Vakt
