import Model.Guard
/-!
# Candidate selection of the storages (`find_for_inquiry`)

What each backend returns for an inquiry, as a per-policy predicate over the *stored* policy
(read back with the default tags).  Memory and Redis return everything; SQL and Mongo filter by
policy type and, for the string checkers, by a query over the raw element strings.
-/
namespace Vakt.Prefilter
open Vakt PyVal

/-- the stored `type` column: string-based when no element is a rule or dictionary -/
def isStringTyped (p : Policy) : Bool :=
  (p.subjects ++ p.resources ++ p.actions).all Elem.isStr

def isRuleTyped (p : Policy) : Bool :=
  !(p.subjects ++ p.resources ++ p.actions).isEmpty && (p.subjects ++ p.resources ++ p.actions).all (fun e => !e.isStr)

def strElems (es : List Elem) : List (List Char) :=
  es.filterMap fun e => match e with | .str s => some s | _ => Option.none

def asciiLower (c : Char) : Char := if 'A'.toNat ≤ c.toNat && c.toNat ≤ 'Z'.toNat then Char.ofNat (c.toNat + 32) else c

/-- the exact-checker query (SQL `IN (v, '<v>')`, Mongo `$in`) on one field -/
def exactField (es : List Elem) (v : PyVal) : Bool :=
  match v with
  | .str w => (strElems es).any (fun e => e == w || e == ('<' :: w ++ ['>']))
  | _ => false

/-- the fuzzy query as a case-sensitive substring test on the raw element (Mongo `$regex` of the
escaped value; a lower bound of SQL `LIKE '%v%'`, which is additionally case-insensitive and
treats `%` / `_` in the value as wildcards) -/
def fuzzyField (es : List Elem) (v : PyVal) : Bool :=
  match v with
  | .str w => (strElems es).any (fun e => isInfix w e)
  | _ => false

inductive Backend where
  | all            -- Memory, Redis: every stored policy
  | typeOnly       -- SQL on a dialect without regex operator / Mongo < 4.2, for the regex checker; rules checker
  | query          -- SQL / Mongo for the exact and fuzzy checkers
  deriving Repr, DecidableEq, Inhabited

/-- is the stored policy `p` returned as a candidate -/
def candidate (b : Backend) (k : CheckerKind) (p : Policy) (q : Inquiry) : Bool :=
  match b with
  | .all => true
  | .typeOnly => (match k with | .rules => isRuleTyped p | _ => isStringTyped p)
  | .query =>
    (match k with
     | .exact => isStringTyped p && exactField p.actions q.action && exactField p.resources q.resource &&
                   exactField p.subjects q.subject
     | .fuzzy => isStringTyped p && fuzzyField p.actions q.action && fuzzyField p.resources q.resource &&
                   fuzzyField p.subjects q.subject
     | .regex => isStringTyped p
     | .rules => isRuleTyped p)

def find (b : Backend) (k : CheckerKind) (ps : List Policy) (q : Inquiry) : List Policy :=
  ps.filter (fun p => candidate b k p q)

/-- policies as the storages hand them back: default tags -/
def defaultTags (p : Policy) : Prop := p.stag = '<' ∧ p.etag = '>'

end Vakt.Prefilter
