import Model.Serialize
/-!
# Mongo data migrations 2–4 (`vakt/storage/mongo.py`) as document processors

A document is a key/value list.  A 1.1.0 rule — a JSON *string* `{"type": …, "contents": {…}}` —
is represented by `.tuple [<the decoded dictionary>]` (the harness converts).  `eachDoc` is
`MongoMigration._each_doc`: a document whose processor raises (Irreversible or anything else) is
left as it is and reported.
-/
namespace Vakt.MongoMig
open Vakt PyVal Vakt.Serialize

abbrev MDoc := List (List Char × PyVal)

inductive MErr where
  | irreversible
  | other            -- KeyError / TypeError / AttributeError … caught by the generic handler
  deriving Repr, DecidableEq, Inhabited

def objTag : List Char := Generated.objectTag
def kType : List Char := "type".toList
def kContents : List Char := "contents".toList

def renameOldNew : List (List Char × List Char) := Generated.rulesRename.map fun (a, b) => (a.toList, b.toList)

def renameUp (cls : List Char) : List Char :=
  match renameOldNew.find? (fun p => p.1 == cls) with | some p => p.2 | Option.none => cls

def renameDown (cls : List Char) : List Char :=
  match renameOldNew.find? (fun p => p.2 == cls) with | some p => p.1 | Option.none => cls

/-- `dict.update`: existing keys keep their position -/
def dictUpdate (base : MDoc) : MDoc → MDoc
  | [] => base
  | (k, v) :: rest =>
    dictUpdate (if (lookup k base).isSome then base.map (fun kv => if kv.1 == k then (k, v) else kv) else base ++ [(k, v)]) rest

def mapRules (f : PyVal → Except MErr PyVal) : MDoc → Except MErr MDoc
  | [] => .ok []
  | (k, v) :: rest =>
    match f v with
    | .error e => .error e
    | .ok v' => match mapRules f rest with
      | .error e => .error e
      | .ok r => .ok ((k, v') :: r)

/-! ### migration 2: 1.1.0 ⇄ 1.1.1 -/

def m2upRule : PyVal → Except MErr PyVal
  | .tuple [.dict r] =>
    (match lookup kType r, lookup kContents r with
     | some t, some (.dict c) => .ok (.dict (dictUpdate [(objTag, t)] c))
     | _, _ => .error .other)
  | _ => .error .other                      -- json loads of a non-string

def m2up (d : MDoc) : Except MErr MDoc :=
  match lookup "rules".toList d with
  | some (.dict rules) => (mapRules m2upRule rules).map (fun r => put "rules" (.dict r) d)
  | _ => .error .other

def hasReserved (v : PyVal) : Bool :=
  match v with
  | .dict kvs => kvs.any (fun kv => (Generated.reservedTags.map String.toList).contains kv.1)
  | _ => false

def startsWith (p s : List Char) : Bool := p.isPrefixOf s

def m2downRule : PyVal → Except MErr PyVal
  | .dict r =>
    (match lookup objTag r with
     | some (.str t) =>
       let contents := r.filter (fun kv => kv.1 != objTag)
       if !startsWith "vakt.rules.".toList t then
         (if contents.any (fun kv => hasReserved kv.2) then .error .irreversible
          else .ok (.tuple [.dict [(kType, .str t), (kContents, .dict contents)]]))
       else if t == "vakt.rules.string.RegexMatchRule".toList then .error .irreversible
       else .ok (.tuple [.dict [(kType, .str t), (kContents, .dict contents)]])
     | _ => .error .other)
  | _ => .error .other

def m2down (d : MDoc) : Except MErr MDoc :=
  match lookup "rules".toList d with
  | some (.dict rules) => (mapRules m2downRule rules).map (fun r => put "rules" (.dict r) d)
  | _ => .error .other

/-! ### migration 3: 1.1.1 ⇄ 1.2.0 -/

def m3upRule : PyVal → Except MErr PyVal
  | .dict r =>
    (match lookup objTag r with
     | some (.str t) => .ok (.dict (r.map fun kv => if kv.1 == objTag then (objTag, .str (renameUp t)) else kv))
     | some _ => .ok (.dict r)              -- a non-string class tag equals no old name
     | Option.none => .error .other)
  | _ => .error .other

def m3up (d : MDoc) : Except MErr MDoc :=
  match lookup "rules".toList d with
  | some (.dict rules) =>
    (mapRules m3upRule rules).map fun r =>
      erase "rules" (put "context" (.dict r) (put "type" (.int Generated.typeStringBased) d))
  | _ => .error .other

/-- does migration 3 `down` refuse a rule of this class (table probed from the source) -/
def m3Refuses (t : List Char) : Bool :=
  match Generated.m3DownRefuses.find? (fun p => p.1.toList == t) with
  | some p => p.2
  | Option.none => startsWith "vakt.rules.list".toList t || startsWith "vakt.rules.logic".toList t ||
            startsWith "vakt.rules.operator".toList t

def m3downRule : PyVal → Except MErr PyVal
  | .dict r =>
    (match lookup objTag r with
     | some (.str t) =>
       if m3Refuses t then .error .irreversible
       else .ok (.dict (r.map fun kv => if kv.1 == objTag then (objTag, .str (renameDown t)) else kv))
     | _ => .error .other)
  | _ => .error .other

def m3down (d : MDoc) : Except MErr MDoc :=
  match lookup "type".toList d with
  | some t =>
    if !pyEq t (.int Generated.typeStringBased) then .error .irreversible
    else
      (match lookup "context".toList d with
       | some (.dict ctx) =>
         (mapRules m3downRule ctx).map fun r => erase "type" (erase "context" (put "rules" (.dict r) d))
       | _ => .error .other)
  | Option.none => .error .other

/-! ### migration 4 (down): drop the compiled-pattern fields -/

def compiledFields : List String := ["actions_compiled_regex", "subjects_compiled_regex", "resources_compiled_regex"]

def m4down (d : MDoc) : Except MErr MDoc :=
  .ok (d.filter fun kv => !(compiledFields.map String.toList).contains kv.1)

/-- `_each_doc`: (new collection, documents reported as failed) -/
def eachDoc (proc : MDoc → Except MErr MDoc) : List MDoc → List MDoc × List MDoc
  | [] => ([], [])
  | d :: rest =>
    let r := eachDoc proc rest
    match proc d with
    | .ok d' => (d' :: r.1, r.2)
    | .error _ => (d :: r.1, d :: r.2)

end Vakt.MongoMig
