import Model.PyVal
/-!
# IPv4 / IPv6 addresses and networks as `ipaddress.ip_address` / `ip_network` (strict) read them

`ip_address(s)` tries IPv4 then IPv6; `ip_network(s)` tries an IPv4 network (decimal prefix, dotted-quad netmask or
hostmask) then an IPv6 network (decimal prefix, optional scope id on the address).  Non-`str` network arguments are
outside the model.
-/
namespace Vakt.Cidr

def splitOn (sep : Char) : List Char → List (List Char)
  | [] => [[]]
  | c :: cs =>
    if c == sep then [] :: splitOn sep cs
    else match splitOn sep cs with
      | [] => [[c]]
      | h :: t => (c :: h) :: t

def isAsciiDigit (c : Char) : Bool := '0'.toNat ≤ c.toNat && c.toNat ≤ '9'.toNat

def digitsVal (s : List Char) : Nat := s.foldl (fun acc c => acc * 10 + (c.toNat - '0'.toNat)) 0

/-- `_parse_octet`: 1–3 ASCII digits, no leading zero unless the octet is "0", value ≤ 255 -/
def parseOctet (s : List Char) : Option Nat :=
  if s.isEmpty || s.length > 3 || !s.all isAsciiDigit then none
  else if s.length > 1 && s.head? == some '0' then none
  else if digitsVal s ≤ 255 then some (digitsVal s) else none

def parseIp4 (s : List Char) : Option Nat :=
  match (splitOn '.' s).map parseOctet with
  | [some a, some b, some c, some d] => some (((a * 256 + b) * 256 + c) * 256 + d)
  | _ => none

/-! ## IPv6 -/

def isHexDigit (c : Char) : Bool :=
  isAsciiDigit c || ('a'.toNat ≤ c.toNat && c.toNat ≤ 'f'.toNat) || ('A'.toNat ≤ c.toNat && c.toNat ≤ 'F'.toNat)

def hexDigitVal (c : Char) : Nat :=
  if isAsciiDigit c then c.toNat - '0'.toNat
  else if 'a'.toNat ≤ c.toNat && c.toNat ≤ 'f'.toNat then c.toNat - 'a'.toNat + 10
  else c.toNat - 'A'.toNat + 10

def hexVal (s : List Char) : Nat := s.foldl (fun acc c => acc * 16 + hexDigitVal c) 0

/-- one colon-separated part of an IPv6 literal -/
inductive Part where
  | empty
  | val (n : Nat)
  | bad
  deriving Repr, DecidableEq, Inhabited

/-- `_parse_hextet`: 1–4 hexadecimal digits -/
def partOf (s : List Char) : Part :=
  if s.isEmpty then .empty
  else if s.length > 4 || !s.all isHexDigit then .bad
  else .val (hexVal s)

def isEmptyPart : Part → Bool | .empty => true | _ => false

/-- the hextets of a run of parts, most significant first; `none` if one of them is not a hextet -/
def foldParts (acc : Nat) : List Part → Option Nat
  | [] => some acc
  | .val n :: rest => foldParts (acc * 65536 + n) rest
  | _ :: _ => none

/-- positions `1 … len-2` holding an empty part (a `::` with nothing in between) -/
def skipIndices (ps : List Part) : List Nat :=
  (List.range ps.length).filter (fun i => 1 ≤ i && i + 1 < ps.length && isEmptyPart (ps.getD i .bad))

/-- `IPv6Address._ip_int_from_string` on the colon-separated parts (the IPv4 suffix already expanded) -/
def ip6OfParts (ps : List Part) : Option Nat :=
  if ps.length > 9 then none else
  match skipIndices ps with
  | [] =>
    if ps.length != 8 then none else foldParts 0 ps          -- empty end parts are not hextets
  | [i] =>
    let hi0 := i
    let lo0 := ps.length - i - 1
    let firstEmpty := isEmptyPart (ps.getD 0 .bad)
    let lastEmpty := isEmptyPart (ps.getD (ps.length - 1) .bad)
    let hi := if firstEmpty then hi0 - 1 else hi0
    let lo := if lastEmpty then lo0 - 1 else lo0
    if firstEmpty && hi != 0 then none          -- `^:` requires `^::`
    else if lastEmpty && lo != 0 then none      -- `:$` requires `::$`
    else if hi + lo ≥ 8 then none               -- `::` must stand for at least one hextet
    else
      match foldParts 0 (ps.take hi) with
      | none => none
      | some h =>
        foldParts (h * 65536 ^ (8 - (hi + lo))) (ps.drop (ps.length - lo))
  | _ => none                                   -- more than one `::`

/-- the address part of an IPv6 literal (no scope id, no `/`) -/
def parseIp6Core (s : List Char) : Option Nat :=
  let parts := splitOn ':' s
  if parts.length < 3 then none else
  match parts.getLast? with
  | none => none
  | some last =>
    if last.contains '.' then
      (match parseIp4 last with
       | some v => ip6OfParts ((parts.dropLast.map partOf) ++ [.val (v / 65536), .val (v % 65536)])
       | none => none)
    else ip6OfParts (parts.map partOf)

/-- `_split_scope_id`: `addr%scope` with a non-empty scope without a further `%` -/
def splitScope (s : List Char) : Option (List Char) :=
  match splitOn '%' s with
  | [a] => some a
  | [a, sc] => if sc.isEmpty then none else some a
  | _ => none

def parseIp6 (s : List Char) : Option Nat :=
  if s.contains '/' then none else
  match splitScope s with
  | some a => parseIp6Core a
  | none => none

/-- `ipaddress.ip_address(s)`: version and integer value -/
def parseAddr (s : List Char) : Option (Nat × Nat) :=
  match parseIp4 s with
  | some v => some (4, v)
  | none => match parseIp6 s with
    | some v => some (6, v)
    | none => none

/-! ## Networks -/

inductive NetRes where
  | ok (version : Nat) (addr : Nat) (prefixLen : Nat)
  | invalid
  | unmodelled
  deriving Repr, DecidableEq

def maxPrefix (version : Nat) : Nat := if version = 4 then 32 else 128

def hostSize (version p : Nat) : Nat := 2 ^ (maxPrefix version - p)

/-- `_prefix_from_ip_int`: the mask is `1…10…0`; its number of ones -/
def prefixOfMask (m : Nat) : Option Nat :=
  (List.range 33).find? (fun p => m == 2 ^ 32 - 2 ^ (32 - p))

/-- a dotted-quad netmask (`255.255.0.0`) or, failing that, hostmask (`0.0.255.255`) -/
def prefixOfIpString (s : List Char) : Option Nat :=
  match parseIp4 s with
  | none => none
  | some m =>
    match prefixOfMask m with
    | some p => some p
    | none => prefixOfMask (2 ^ 32 - 1 - m)

/-- `_prefix_from_prefix_string`: ASCII digits, at most the maximum -/
def prefixOfDigits (version : Nat) (p : List Char) : Option Nat :=
  if p.isEmpty || !p.all isAsciiDigit then none
  else if digitsVal p > maxPrefix version then none
  else some (digitsVal p)

def strictNet (version addr p : Nat) : NetRes :=
  if addr % hostSize version p == 0 then .ok version addr p else .invalid      -- "has host bits set"

def net4 (a : List Char) (mask : Option (List Char)) : NetRes :=
  match parseIp4 a with
  | none => .invalid
  | some ip =>
    match mask with
    | none => .ok 4 ip 32
    | some m =>
      match prefixOfDigits 4 m with
      | some p => strictNet 4 ip p
      | none => match prefixOfIpString m with
        | some p => strictNet 4 ip p
        | none => .invalid

def net6 (a : List Char) (mask : Option (List Char)) : NetRes :=
  match splitScope a with
  | none => .invalid
  | some a' =>
    match parseIp6Core a' with
    | none => .invalid
    | some ip =>
      match mask with
      | none => .ok 6 ip 128
      | some m =>
        match prefixOfDigits 6 m with
        | some p => strictNet 6 ip p
        | none => .invalid

/-- `ip_network(s)` (strict) for a `str`: the IPv4 reading first, then the IPv6 one -/
def parseNet (s : List Char) : NetRes :=
  match splitOn '/' s with
  | [a] => (match net4 a none with | .ok v x p => .ok v x p | _ => net6 a none)
  | [a, m] => (match net4 a (some m) with | .ok v x p => .ok v x p | _ => net6 a (some m))
  | _ => .invalid

/-- `ip in net`: same version, and the address agrees with the network on the prefix bits -/
def contains (nv net p : Nat) (av ip : Nat) : Bool := nv == av && ip / hostSize nv p == net / hostSize nv p

end Vakt.Cidr
