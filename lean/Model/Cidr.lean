import Model.PyVal
/-!
# IPv4 addresses and networks as `ipaddress.ip_address` / `ip_network` (strict) read them

Only the dotted-quad / decimal-prefix grammar is modelled; IPv6 (any `:`), netmask-style
prefixes (a `.` after the `/`) and non-`str` network arguments are reported `unmodelled`.
-/
namespace Vakt.Cidr

def splitOn (sep : Char) : List Char → List (List Char)
  | [] => [[]]
  | c :: cs =>
    if c == sep then [] :: splitOn sep cs
    else match splitOn sep cs with
      | [] => [[c]]
      | h :: t => (c :: h) :: t

def isAsciiDigit (c : Char) : Bool := '0'.toNat ≤ c.toNat && c.toNat ≤ '9'.toNat

def digitsVal (s : List Char) : Nat := s.foldl (fun acc c => acc * 10 + (c.toNat - '0'.toNat)) 0

/-- `_parse_octet`: 1–3 ASCII digits, no leading zero unless the octet is "0", value ≤ 255 -/
def parseOctet (s : List Char) : Option Nat :=
  if s.isEmpty || s.length > 3 || !s.all isAsciiDigit then none
  else if s.length > 1 && s.head? == some '0' then none
  else if digitsVal s ≤ 255 then some (digitsVal s) else none

def parseIp4 (s : List Char) : Option Nat :=
  match (splitOn '.' s).map parseOctet with
  | [some a, some b, some c, some d] => some (((a * 256 + b) * 256 + c) * 256 + d)
  | _ => none

inductive NetRes where
  | ok (addr : Nat) (prefixLen : Nat)
  | invalid
  | unmodelled
  deriving Repr, DecidableEq

def hostMask (p : Nat) : Nat := 2 ^ (32 - p)

/-- `ip_network(s)` (strict) for a `str` without `:` -/
def parseNet4 (s : List Char) : NetRes :=
  if s.contains ':' then .unmodelled else
  match splitOn '/' s with
  | [a] =>
    (match parseIp4 a with | some ip => .ok ip 32 | none => .invalid)
  | [a, p] =>
    if p.contains '.' then .unmodelled
    else if p.isEmpty || !p.all isAsciiDigit then .invalid
    else if digitsVal p > 32 then .invalid
    else
      (match parseIp4 a with
       | some ip => if ip % hostMask (digitsVal p) == 0 then .ok ip (digitsVal p) else .invalid
       | none => .invalid)
  | _ => .invalid

/-- `ip in net` for same-version operands -/
def contains (net : Nat) (p : Nat) (ip : Nat) : Bool := ip / hostMask p == net / hostMask p

end Vakt.Cidr
