import Model.PyVal
import Model.Generated
/-!
# Persistence: the document-level decoding logic of `Policy.from_json`, the value codec of the
JSON text (tuples are tagged), and the class-name table of the rule objects

A decoded JSON document is a list of `(field, value)` pairs (`props`).  For the decoding clauses
only the *shape* of `context` / `rules` matters, so a context dictionary is represented by the
list of its keys (`.list`), `null` by `.none`.
-/
namespace Vakt.Serialize
open Vakt PyVal

abbrev Doc := List (List Char × PyVal)

def has (k : String) (d : Doc) : Bool := (lookup k.toList d).isSome
def get (k : String) (d : Doc) : PyVal := (lookup k.toList d).getD .none
def erase (k : String) (d : Doc) : Doc := d.filter (fun kv => kv.1 != k.toList)
def put (k : String) (v : PyVal) (d : Doc) : Doc := erase k d ++ [(k.toList, v)]

inductive DocErr where
  | creation      -- PolicyCreationError
  | typeError     -- unexpected keyword argument
  deriving Repr, DecidableEq, Inhabited

structure Decoded where
  uid : PyVal
  effect : PyVal
  description : PyVal
  subjects : PyVal
  resources : PyVal
  actions : PyVal
  context : PyVal            -- the key list of the resulting context dictionary
  deriving Repr, Inhabited

def knownArgs : List String := ["uid", "subjects", "effect", "resources", "actions", "context", "rules", "description"]

/-- a context dictionary: either abstracted to the list of its keys (`.list`, used where only the shape
matters) or given in full (`.dict`, used by the rule codec) -/
def isDictLike : PyVal → Bool
  | .list _ => true
  | .dict _ => true
  | _ => false

/-- the context the constructor ends up with: `context`, else the deprecated `rules`, else empty -/
def ctxOf (props : Doc) : PyVal :=
  match get "context" props with              -- absent = None
  | .none => if truthy (get "rules" props) then get "rules" props else .list []
  | c => c

/-- `Policy.__init__(**props)` as far as decoding is concerned -/
def construct (props : Doc) : Except DocErr Decoded :=
  if props.any (fun kv => !(knownArgs.map String.toList).contains kv.1) then .error .typeError
  else if isDictLike (ctxOf props) then
    .ok { uid := get "uid" props,
          effect := if truthy (get "effect" props) then get "effect" props else .str Generated.denyConst,
          description := get "description" props,
          subjects := get "subjects" props, resources := get "resources" props, actions := get "actions" props,
          context := ctxOf props }
  else .error .creation                         -- context must be a dictionary

/-- `Policy.from_json` after `jsonpickle.decode` -/
def fromDoc (d : Doc) : Except DocErr Decoded :=
  if !has "uid" d then .error .creation
  else
    let (ctxRules, d1) :=
      if has "context" d then (get "context" d, d)
      else if has "rules" d then (get "rules" d, erase "rules" d)
      else (.list [], d)
    let d2 := put "context" ctxRules d1
    let d3 := erase "type" d2
    construct d3

/-! ## Value codec: what the JSON text does to a Python value -/

def tagTuple : List Char := "py/tuple".toList

/-- re-tag a decoded dictionary: `{"py/tuple": [...]}` is a tuple -/
def retag : List (List Char × PyVal) → PyVal
  | [(k, .list xs)] => if k = tagTuple then .tuple xs else .dict [(k, .list xs)]
  | kvs => .dict kvs

mutual
def encVal : PyVal → PyVal
  | .tuple xs => .dict [(tagTuple, .list (encList xs))]
  | .list xs => .list (encList xs)
  | .dict kvs => .dict (encKVs kvs)
  | v => v
def encList : List PyVal → List PyVal
  | [] => []
  | x :: xs => encVal x :: encList xs
def encKVs : List (List Char × PyVal) → List (List Char × PyVal)
  | [] => []
  | (k, v) :: rest => (k, encVal v) :: encKVs rest
end

mutual
def decVal : PyVal → PyVal
  | .dict kvs => retag (decKVs kvs)
  | .list xs => .list (decList xs)
  | .tuple xs => .tuple (decList xs)
  | v => v
def decList : List PyVal → List PyVal
  | [] => []
  | x :: xs => decVal x :: decList xs
def decKVs : List (List Char × PyVal) → List (List Char × PyVal)
  | [] => []
  | (k, v) :: rest => (k, decVal v) :: decKVs rest
end

mutual
/-- no dictionary uses the reserved tag as a key (jsonpickle's own vocabulary) -/
def noTags : PyVal → Bool
  | .dict kvs => noTagsKVs kvs
  | .list xs => noTagsList xs
  | .tuple xs => noTagsList xs
  | _ => true
def noTagsList : List PyVal → Bool
  | [] => true
  | x :: xs => noTags x && noTagsList xs
def noTagsKVs : List (List Char × PyVal) → Bool
  | [] => true
  | (k, v) :: rest => k != tagTuple && noTags v && noTagsKVs rest
end

end Vakt.Serialize
