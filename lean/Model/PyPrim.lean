import Model.Rules
import Model.Checker
import Model.Guard
import Model.Migration
import Model.Enfold
import Model.Backends
import Model.SqlSession
import Model.Audit
import Model.Serialize
import Model.MongoMig
/-!
# The Python primitives that the translated rule bodies are made of

`harness/pytolean.py` turns the `satisfied` methods of `vakt/rules/*.py` into Lean definitions (`Gen/Rules.lean`,
regenerated from `/repo` on every run) whose only ingredients are the functions below: one function per Python
construct that occurs in those bodies (`==`, `<`, `in`, `not`, `and` / `or` with their laziness, `isinstance`, `list()`,
`set()`, `bool()`, `str.lower()`, `set.issubset()` …).  Values are the model's Python values plus sets of hashable
values; every primitive evaluates its operands left to right and propagates the first exception.
-/
namespace Vakt.PyPrim
open Vakt PyVal

inductive V where
  | py (v : PyVal)
  | set (xs : List PyVal)        -- a Python `set` (members are hashable)
  | inq (q : Option Inquiry)     -- the `inquiry` argument: an `Inquiry` object, or `None`
  | rule (r : Rule)              -- a rule object held by a composition rule
  | seq (xs : List V)            -- a tuple / list of such objects (`self.rules`, the answers of a comprehension)
  | policy (p : Policy)          -- a `Policy` object (the `policy` argument of a checker)
  | other                        -- an object of some other class (an attribute dictionary among string elements, ...)
  | checker (k : CheckerKind)    -- the guard's checker object
  | storage (a : StoreAns)       -- the guard's storage, as it answers `find_for_inquiry` for this inquiry
  | lazySeq (xs : List V) (failAt : Nat)   -- an iterable that raises before yielding item `failAt`
  | pattern (r : Re)             -- a compiled regular expression
  | attrs (kvs : List (List Char × AttrVal))   -- an attribute dictionary element of a rule-based policy
  | obj (fields : List (String × V))           -- an object seen through its attribute dictionary (a policy being built)
  | migset (orders : List Nat)                 -- a migration set: the order numbers of its migrations as declared
  | world (st : Migration.MState) (k : Nat) (f : Migration.Fault) (raised : Bool)
                                               -- what the effects of a migration request act on: the store's state, the
                                               -- number of steps executed so far, the fault plan, whether a step raised
  | polv (u : Store.Uid) (p : Store.Pol) (ok : Bool)   -- a Policy object handed to / read from a storage: its uid, its
                                               -- content, whether the backend can store it
  | pols (l : Store.St)                        -- a listing read from a storage
  | eworld (cfg : Store.Cfg) (s : Enfold.EState) (touched : Bool) (notified : Nat) (raised : Option Store.Out)
                                               -- what the methods of a storage wrapper act on: the wrapped storage (and
                                               -- the cache store of the enfolding cache), whether the wrapped storage was
                                               -- called, how often the listeners were notified, the exception a storage
                                               -- call ended in
  | decoded (d : Serialize.Decoded)            -- the policy `Policy.__init__` builds from decoded properties
  | bytes (b : Backends.Bytes)                 -- a serialized policy as Redis holds it
  | rhash (h : Backends.RHash)                 -- what `hgetall` answers: field -> bytes, in the client's order
  | rworld (sr : Backends.Ser) (h : Backends.RHash) (raised : Option Store.Out)
                                               -- what the methods of the Redis storage act on: the serializer, the hash
  | mworld (c : Backends.Coll) (raised : Option Store.Out)
                                               -- what the methods of the MongoDB storage act on: the collection (a document
                                               -- stands for the policy it encodes)
  | mdoc (u : Store.Uid) (p : Store.Pol)       -- a document prepared from / found for a policy
  | mcursor (docs : Store.St)                  -- a cursor over found documents
  | sworld (s : SqlSession.Sess) (conflict : Bool) (raised : Option Store.Out)
                                               -- what the methods of the SQL storage act on: the session (committed state, the
                                               -- session's view, dirty) and whether a pending row's key is already taken
  | smodel (u : Store.Uid) (p : Store.Pol) (ok : Bool)   -- a `PolicyModel` row object
  | scursor (rows : Store.St)                  -- the rows a query yields
  | mcoll (docs : List MongoMig.MDoc) (replaced : List (PyVal × MongoMig.MDoc))
                                               -- a MongoDB collection as a data migration sees it: the documents `find()`
                                               -- yields, and the `replace_one(_id, doc)` calls made so far
  | mproc (f : MongoMig.MDoc → Except MongoMig.MErr MongoMig.MDoc)     -- the per-document processor of a migration step
  | ptext (ps : List Piece)          -- a regular-expression text under construction in `compile_regex`: escaped
                                               -- literal text and parenthesised segments, in order
  | pager (ga : Int → Int → Option Store.St)   -- any storage, seen through its `get_all(limit, offset)` (`none`: it raises)
  | alog (audits : List AuditRec) (decisions : List Bool)
                                               -- what the guard writes: the audit records and the decision-log records
                                               -- (allowed / rejected) so far

instance : Inhabited V := ⟨.py .none⟩

abbrev M := Except PyErr V

def ofBool (b : Bool) : M := .ok (.py (.bool b))

def truth : V → Bool
  | .py v => truthy v
  | .set xs => !xs.isEmpty
  | .inq q => q.isSome              -- an object without `__bool__` / `__len__` is true, `None` is false
  | .rule _ => true
  | .seq xs => !xs.isEmpty
  | .policy _ => true
  | .other => true
  | .checker _ => true
  | .storage _ => true
  | .lazySeq _ _ => true
  | .pattern _ => true
  | .attrs kvs => !kvs.isEmpty
  | .obj _ => true
  | .migset _ => true
  | .world _ _ _ _ => true
  | .polv _ _ _ => true
  | .pols l => !l.isEmpty
  | .eworld _ _ _ _ _ => true
  | .alog _ _ => true
  | .pager _ => true
  | .ptext ps => !ps.isEmpty
  | .mcoll _ _ => true
  | .mproc _ => true
  | .sworld _ _ _ => true
  | .smodel _ _ _ => true
  | .scursor _ => true
  | .mworld _ _ => true
  | .mdoc _ _ => true
  | .mcursor _ => true
  | .bytes b => !b.isEmpty
  | .rhash h => !h.isEmpty
  | .rworld _ _ _ => true
  | .decoded _ => true

/-- the answer of `satisfied` as the checkers see it: its truthiness, or the exception -/
def toR (m : M) : R := m.map truth

def cTrue : M := ofBool true
def cFalse : M := ofBool false
def cNone : M := .ok (.py .none)
def cInt (n : Int) : M := .ok (.py (.int n))
def cStr (s : String) : M := .ok (.py (.str s.toList))
def raiseM : M := .error .raised

def bindM (a : M) (f : V → M) : M := match a with | .ok v => f v | .error e => .error e

/-- `if c: t else: e` (also the conditional expression) -/
def iteM (c : M) (t e : M) : M := bindM c fun v => if truth v then t else e

/-- `a and b` / `a or b`: the right operand is evaluated only when needed, the value is that of the deciding operand -/
def pyAnd (a : M) (b : Unit → M) : M := bindM a fun v => if truth v then b () else .ok v
def pyOr (a : M) (b : Unit → M) : M := bindM a fun v => if truth v then .ok v else b ()
def pyNot (a : M) : M := bindM a fun v => ofBool (!truth v)

def liftR (r : R) : M := r.map (fun b => .py (.bool b))

def cmp2 (f : PyVal → PyVal → R) (a b : M) : M :=
  bindM a fun x => bindM b fun y => match x, y with
    | .py u, .py v => liftR (f u v)
    | _, _ => raiseM                                   -- a set is never compared in these bodies

def cmpEq (a b : M) : M := cmp2 (fun u v => .ok (pyEq u v)) a b
def cmpNe (a b : M) : M := cmp2 (fun u v => .ok (!pyEq u v)) a b
def cmpLt (a b : M) : M := cmp2 pyLt a b
def cmpLe (a b : M) : M := cmp2 pyLe a b
def cmpGt (a b : M) : M := cmp2 pyGt a b
def cmpGe (a b : M) : M := cmp2 pyGe a b

/-- `k in d` for a dictionary with string keys: a hash look-up (`TypeError` for an unhashable key) -/
def dictHas (k : PyVal) (kvs : List (List Char × PyVal)) : R :=
  if !hashable k then .error .raised
  else match k with
    | .str s => .ok (lookup s kvs).isSome
    | _ => .ok false

/-- `a in b`: a set (hash look-up: `TypeError` for an unhashable `a`), a dictionary (hash look-up
among its keys), a list / tuple (scan), a string (substring) -/
def cmpIn (a b : M) : M :=
  bindM a fun x => bindM b fun y => match x, y with
    | .py u, .set d => liftR (memSet u d)
    | .py k, .py (.dict kvs) => liftR (dictHas k kvs)
    | .py u, .py (.list xs) => ofBool (memList u xs)
    | .py u, .py (.tuple xs) => ofBool (memList u xs)
    | .py (.str s), .py (.str t) => ofBool (isInfix s t)
    | .py u, .seq xs => ofBool (xs.any fun v => match v with | .py w => pyEq u w | _ => false)   -- a list of objects: scan
    | _, _ => raiseM

def cmpNotIn (a b : M) : M := pyNot (cmpIn a b)

/-- `isinstance(x, T)` for the types these bodies test -/
def isinstanceM (a : M) (ty : String) : M :=
  bindM a fun x => match x with
    | .py v => ofBool (match ty with
        | "tuple" => (match v with | .tuple _ => true | _ => false)
        | "list" => isList v
        | "str" => isStr v
        | "dict" => isDict v
        | _ => false)
    | .set _ => ofBool (ty == "set")
    | .attrs _ => ofBool (ty == "dict")               -- an attribute dictionary is a dict
    | _ => ofBool false

/-- `list(x)` -/
def callList (a : M) : M :=
  bindM a fun x => match x with
    | .py (.tuple xs) => .ok (.py (.list xs))
    | .py (.list xs) => .ok (.py (.list xs))
    | .set xs => .ok (.py (.list xs))
    | .pols l => .ok (.pols l)
    | _ => raiseM

/-- `set(x)`: every member must be hashable -/
def callSet (a : M) : M :=
  bindM a fun x => match x with
    | .py (.list xs) => (toSet xs).map V.set
    | .py (.tuple xs) => (toSet xs).map V.set
    | .set xs => .ok (.set xs)
    | _ => raiseM

def callBool (a : M) : M := bindM a fun x => ofBool (truth x)

/-- `callable(x)`: nothing in the value universe is callable -/
def callCallable (a : M) : M := bindM a fun _ => cFalse

/-- `x()`: never reached on this universe (`callable` is false) -/
def callValue (a : M) : M := bindM a fun _ => raiseM

def methLower (a : M) : M :=
  bindM a fun x => match x with
    | .py (.str s) => .ok (.py (.str (CharTable.lower s)))
    | _ => raiseM

def str2 (f : List Char → List Char → Bool) (a b : M) : M :=
  bindM a fun x => bindM b fun y => match x, y with
    | .py (.str s), .py (.str t) => ofBool (f s t)
    | _, _ => raiseM

/-- `a.startswith(b)` / `a.endswith(b)` -/
def methStartswith (a b : M) : M := str2 (fun s t => t.isPrefixOf s) a b
def methEndswith (a b : M) : M := str2 (fun s t => t.isSuffixOf s) a b

def members : V → Option (List PyVal)
  | .set xs => some xs
  | .py (.list xs) => some xs
  | .py (.tuple xs) => some xs
  | _ => Option.none

/-- `a.issubset(b)`, `a.intersection(b)`, `a.difference(b)` for a set `a` -/
def methIssubset (a b : M) : M :=
  bindM a fun x => bindM b fun y => match x, members y with
    | .set s, some d => ofBool (s.all fun e => d.any (pyEq e))
    | _, _ => raiseM
/-- (the common members are listed as they occur in the argument; `==` on hashable values is symmetric, so which
operand the members are taken from cannot be observed) -/
def methIntersection (a b : M) : M :=
  bindM a fun x => bindM b fun y => match x, members y with
    | .set s, some d => .ok (.set (d.filter fun e => s.any (pyEq e)))
    | _, _ => raiseM
def methDifference (a b : M) : M :=
  bindM a fun x => bindM b fun y => match x, members y with
    | .set s, some d => .ok (.set (s.filter fun e => !d.any (pyEq e)))
    | _, _ => raiseM

/-! ### objects, sequences, loops -/

/-- `x is None` / `x is not None` -/
def isNoneM (a : M) : M := bindM a fun x => ofBool (match x with | .py .none => true | .inq Option.none => true | _ => false)
def isNotNoneM (a : M) : M := pyNot (isNoneM a)

/-- `inquiry.<name>` / `getattr(inquiry, '<name>')` -/
def attrM (a : M) (name : String) : M :=
  bindM a fun x => match x with
    | .inq (some q) => (match name with
        | "subject" => .ok (.py q.subject)
        | "action" => .ok (.py q.action)
        | "resource" => .ok (.py q.resource)
        | "context" => .ok (.py q.context)
        | _ => raiseM)
    | .polv u _ _ => if name == "uid" then .ok (.py (.str u)) else raiseM      -- `policy.uid`
    | _ => raiseM                                      -- AttributeError

/-- `a[k]`: a dictionary item (`KeyError` when absent), a list / tuple / string item by a constant index -/
def subscriptM (a k : M) : M :=
  bindM a fun x => bindM k fun i => match x, i with
    | .py (.dict kvs), .py (.str s) => (match lookup s kvs with | some v => .ok (.py v) | Option.none => raiseM)
    | .py (.dict _), _ => raiseM
    | .py (.list xs), .py (.int n) => (match xs[n.toNat]? with | some v => if 0 ≤ n then .ok (.py v) else raiseM | Option.none => raiseM)
    | .py (.tuple xs), .py (.int n) => (match xs[n.toNat]? with | some v => if 0 ≤ n then .ok (.py v) else raiseM | Option.none => raiseM)
    | .py (.str cs), .py (.int n) => (match cs[n.toNat]? with | some c => if 0 ≤ n then .ok (.py (.str [c])) else raiseM | Option.none => raiseM)
    | _, _ => raiseM

/-- `len(x)` -/
def callLen (a : M) : M :=
  bindM a fun x => match x with
    | .py (.list xs) => cInt xs.length
    | .py (.tuple xs) => cInt xs.length
    | .py (.str cs) => cInt cs.length
    | .py (.dict kvs) => cInt kvs.length
    | .set xs => cInt xs.length
    | .seq xs => cInt xs.length
    | .pols l => cInt l.length
    | _ => raiseM                                      -- TypeError: object of type … has no len()

/-- the items a `for` loop / a comprehension iterates over -/
def items : V → Option (List V)
  | .seq xs => some xs
  | .py (.list xs) => some (xs.map V.py)
  | .py (.tuple xs) => some (xs.map V.py)
  | .py (.str cs) => some (cs.map fun c => V.py (.str [c]))
  | .set xs => some (xs.map V.py)
  | .pols l => some (l.map fun (x : Store.Uid × Store.Pol) => V.polv x.1 x.2 true)
  | .rhash h => some (h.map fun (x : Store.Uid × Backends.Bytes) => V.py (.str x.1))      -- iterating a dict: its keys
  | .mcursor docs => some (docs.map fun (x : Store.Uid × Store.Pol) => V.mdoc x.1 x.2)
  | .scursor rows => some (rows.map fun (x : Store.Uid × Store.Pol) => V.smodel x.1 x.2 true)
  | _ => Option.none

/-- `for x in xs: BODY` followed by `REST`: the body of one iteration receives what comes after it (the next
iteration, finally `REST`) and either ends the function (`return`, `raise`) or goes on with it (falling off the end,
`continue`) -/
def loopM : List V → (V → M → M) → M → M
  | [], _, rest => rest
  | x :: xs, body, rest => body x (loopM xs body rest)

def pyFor (a : M) (body : V → M → M) (rest : M) : M :=
  bindM a fun x => match items x with
    | some xs => loopM xs body rest
    | Option.none => raiseM

/-- `[f(x) for x in xs]`: every item is evaluated, the first exception propagates -/
def compM : List V → (V → M) → Except PyErr (List V)
  | [], _ => .ok []
  | x :: xs, f => match f x with
    | .error e => .error e
    | .ok v => (match compM xs f with | .error e => .error e | .ok vs => .ok (v :: vs))

def listCompM (a : M) (f : V → M) : M :=
  bindM a fun x => match items x with
    | some xs => (compM xs f).map V.seq
    | Option.none => raiseM

/-- `all(xs)` / `any(xs)` over a sequence of values -/
def callAll (a : M) : M := bindM a fun x => match items x with | some xs => ofBool (xs.all truth) | Option.none => raiseM
def callAny (a : M) : M := bindM a fun x => match items x with | some xs => ofBool (xs.any truth) | Option.none => raiseM

/-- `rule.satisfied(what, inquiry)` on a rule object: the model's evaluation of that rule -/
def methSatisfied (r w q : M) : M :=
  bindM r fun r => bindM w fun w => bindM q fun q => match r, w, q with
    | .rule r, .py w, .inq q => liftR (Rule.eval r w q)
    | .rule r, .py w, .py .none => liftR (Rule.eval r w Option.none)
    | _, _, _ => raiseM

/-! ### checkers: the policy object, its element lists, indexing and slicing of strings -/

/-- a policy element as the checker loop sees it -/
def elemV : Elem → V
  | .str s => .py (.str s)
  | .rule r => .rule r
  | .attrs kvs => .attrs kvs

/-- `getattr(policy, field, default)` with a computed field name -/
def getattrDynM (a name dflt : M) : M :=
  bindM a fun x => bindM name fun n => bindM dflt fun d => match x, n with
    | .policy p, .py (.str cs) =>
      if cs = "actions".toList then .ok (.seq (p.actions.map elemV))
      else if cs = "subjects".toList then .ok (.seq (p.subjects.map elemV))
      else if cs = "resources".toList then .ok (.seq (p.resources.map elemV))
      else .ok d
    | _, _ => .ok d

/-- `policy.start_tag` / `policy.end_tag` -/
def attrPolicyM (a : M) (name : String) : M :=
  bindM a fun x => match x with
    | .policy p => (match name with
        | "start_tag" => .ok (.py (.str [p.stag]))
        | "end_tag" => .ok (.py (.str [p.etag]))
        | _ => raiseM)
    | _ => attrM (.ok x) name

/-- `type(x) != str` -/
def typeIsNotStrM (a : M) : M :=
  bindM a fun x => ofBool (match x with | .py (.str _) => false | _ => true)

/-- the empty list literal `[]` -/
def cEmptyList : M := .ok (.seq [])

/-- `s[i]` for a string and a constant index, negative indices counting from the end -/
def strIndexM (a : M) (i : Int) : M :=
  bindM a fun x => match x with
    | .py (.str cs) =>
      let j : Int := if i < 0 then (cs.length : Int) + i else i
      if j < 0 then raiseM
      else (match cs[j.toNat]? with | some c => .ok (.py (.str [c])) | Option.none => raiseM)
    | _ => subscriptM (.ok x) (cInt i)

/-- `s[1:-1]` for a string -/
def strSlice1m1M (a : M) : M :=
  bindM a fun x => match x with
    | .py (.str cs) => .ok (.py (.str ((cs.drop 1).dropLast)))
    | _ => raiseM

/-! ### the guard: storage answer, checker calls, context restriction -/

def fieldOfName (cs : List Char) : Option Field :=
  if cs = "actions".toList then some .actions
  else if cs = "subjects".toList then some .subjects
  else if cs = "resources".toList then some .resources
  else Option.none

/-- `checker.fits(policy, '<field>', value, inquiry)`: the model's checker of that kind -/
def methFits (c p f w q : M) : M :=
  bindM c fun c => bindM p fun p => bindM f fun f => bindM w fun w => bindM q fun q => match c, p, f, w, q with
    | .checker k, .policy p, .py (.str name), .py w, .inq (some q) =>
      (match fieldOfName name with
       | some fld => liftR (fits k p fld w q)
       | Option.none => raiseM)
    | _, _, _, _, _ => raiseM

/-- `policy.allow_access()` -/
def methAllowAccess (p : M) : M :=
  bindM p fun p => match p with | .policy p => ofBool p.allowAccess | _ => raiseM

/-- `policy.context.items()`: (key, rule) pairs; an entry without `satisfied` is some other object -/
def contextItemsM (p : M) : M :=
  bindM p fun p => match p with
    | .policy p => .ok (.seq (p.context.map fun kv =>
        V.seq [.py (.str kv.1), (match kv.2 with | .rule r => V.rule r | .junk => V.other)]))
    | _ => raiseM

/-- the i-th component of a pair bound by `for a, b in …` -/
def seqItemM (a : M) (i : Nat) : M :=
  bindM a fun x => match x with
    | .seq xs => (match xs[i]? with | some v => .ok v | Option.none => raiseM)
    | _ => raiseM

/-- `try: v = container[key]  except KeyError: <handler>` followed by the rest of the block: a missing key of a
dictionary goes to the handler, any other failure (a container that is not a dictionary, an unhashable key) propagates -/
def trySubscriptM (container key : M) (onKeyError : M) (rest : V → M) : M :=
  bindM container fun c => bindM key fun k => match c, k with
    | .py (.dict kvs), .py (.str s) => (match lookup s kvs with | some v => rest (.py v) | Option.none => onKeyError)
    | .py (.dict _), .py kv => if hashable kv then onKeyError else raiseM
    | _, _ => raiseM

/-- `storage.find_for_inquiry(inquiry, checker)` -/
def methFind (st q c : M) : M :=
  bindM st fun st => bindM q fun _ => bindM c fun _ => match st with
    | .storage .raises => raiseM
    | .storage .nothing => cNone
    | .storage (.items xs Option.none) => .ok (.seq (xs.map V.policy))
    | .storage (.items xs (some n)) => .ok (.lazySeq (xs.map V.policy) n)
    | _ => raiseM

/-- `[x for x in xs if cond(x)]`: every item is tested in order, the first exception propagates; a lazy iterable
raises when its failing position is reached -/
def filterLoop : List V → (V → M) → Except PyErr (List V)
  | [], _ => .ok []
  | x :: xs, f => match f x with
    | .error e => .error e
    | .ok b => (match filterLoop xs f with
      | .error e => .error e
      | .ok rest => .ok (if truth b then x :: rest else rest))

def filterCompM (a : M) (f : V → M) : M :=
  bindM a fun x => match x with
    | .lazySeq xs n =>
      if n ≤ xs.length then (match filterLoop (xs.take n) f with | .error e => .error e | .ok _ => raiseM)
      else (filterLoop xs f).map V.seq
    | _ => match items x with
      | some xs => (filterLoop xs f).map V.seq
      | Option.none => raiseM

/-- `try: BODY  except Exception: HANDLER` where both end the function -/
def catchAllM (body handler : M) : M := match body with | .error _ => handler | r => r

/-! ### the regex checker: `compile_regex` behind the compile cache, `re.fullmatch` -/

/-- `try: pattern = self.compile(item, start_tag, end_tag)  except InvalidPatternError: <handler>` followed by the rest
of the block.  `self.compile` is `compile_regex` behind an LRU cache (transparent: C03 `compile_cache_transparent`):
unbalanced tags raise `InvalidPatternError` (the handler), a segment that is not a regular expression raises `re.error`
(propagates), otherwise the pattern object goes to the rest of the block. -/
def tryCompileM (item stag etag : M) (onInvalid : M) (rest : V → M) : M :=
  bindM item fun i => bindM stag fun s => bindM etag fun t => match i, s, t with
    | .py (.str e), .py (.str [sc]), .py (.str [tc]) =>
      (match TagParser.scan sc tc e with
       | Option.none => onInvalid
       | some ps => (match piecesRe ps with
         | .ok r _ => rest (.pattern r)
         | _ => raiseM))
    | _, _, _ => raiseM

/-- `re.fullmatch(pattern, value)`: a match object (true) or `None`; `TypeError` for a value that is not a string -/
def reFullmatchM (pat w : M) : M :=
  bindM pat fun p => bindM w fun w => match p, w with
    | .pattern r, .py (.str cs) => ofBool (r.accepts cs)
    | _, _ => raiseM

/-! ### the rules checker: attribute dictionaries, loops that carry variables -/

/-- a rule stored in an attribute dictionary or a context; an entry without `satisfied` is some other object -/
def attrValV : AttrVal → V
  | .rule r => .rule r
  | .junk => .other

/-- `type(x) == dict` (exact type) -/
def typeIsDictM (a : M) : M :=
  bindM a fun x => ofBool (match x with | .attrs _ => true | .py (.dict _) => true | _ => false)

/-- `d.items()` of an attribute dictionary: (key, rule) pairs in order -/
def attrsItemsM (a : M) : M :=
  bindM a fun x => match x with
    | .attrs kvs => .ok (.seq (kvs.map fun kv => V.seq [.py (.str kv.1), attrValV kv.2]))
    | _ => raiseM

/-- `callable(getattr(x, 'satisfied', ''))` -/
def hasSatisfiedM (a : M) : M :=
  bindM a fun x => ofBool (match x with | .rule _ => true | _ => false)

/-- `a + b` on integers -/
def addM (a b : M) : M :=
  bindM a fun x => bindM b fun y => match x, y with
    | .py (.int m), .py (.int n) => .ok (.py (.int (m + n)))
    | _, _ => raiseM

/-- the i-th variable of the state a loop carries -/
def stGet (s : List V) (i : Nat) : V := s.getD i (.py .none)

/-- a `for` loop whose body assigns variables that live on after the loop, and / or leaves it by `break`: the state is
the list of those variables.  The body of one iteration gets the state, what comes after the iteration (the next one,
finally the code after the loop) and what comes after a `break` (the code after the loop), both awaiting the state. -/
def loopS : List V → (V → List V → (List V → M) → (List V → M) → M) → List V → (List V → M) → M
  | [], _, st, rest => rest st
  | x :: xs, body, st, rest => body x st (fun st' => loopS xs body st' rest) rest

def pyForS (a : M) (body : V → List V → (List V → M) → (List V → M) → M) (st : List V) (rest : List V → M) : M :=
  bindM a fun x => match items x with
    | some xs => loopS xs body st rest
    | Option.none => raiseM

/-! ### the tag parser: `enumerate`, integer arithmetic, `list.append` -/

/-- the (index, item) pairs of `enumerate(xs)` from index `i` on -/
def enumV : Nat → List V → List V
  | _, [] => []
  | i, x :: xs => V.seq [.py (.int i), x] :: enumV (i + 1) xs

def enumerateM (a : M) : M :=
  bindM a fun x => match items x with
    | some xs => .ok (.seq (enumV 0 xs))
    | Option.none => raiseM

/-- `a - b` on integers -/
def subM (a b : M) : M :=
  bindM a fun x => bindM b fun y => match x, y with
    | .py (.int m), .py (.int n) => .ok (.py (.int (m - n)))
    | _, _ => raiseM

/-- `xs.append(e)` on a local list, as the new value of `xs` -/
def appendM (a e : M) : M :=
  bindM a fun x => bindM e fun y => match x, y with
    | .py (.list xs), .py v => .ok (.py (.list (xs ++ [v])))
    | .seq xs, v => .ok (.seq (xs ++ [v]))
    | _, _ => raiseM

/-- the empty list literal as a value list (a list that will hold plain values) -/
def cEmptyPyList : M := .ok (.py (.list []))

/-! ### objects seen through their attribute dictionary (`Policy._calculate_type`) -/

def objGet (name : String) : List (String × V) → Option V
  | [] => Option.none
  | (n, v) :: rest => if n = name then some v else objGet name rest

def objSet (name : String) (v : V) : List (String × V) → List (String × V)
  | [] => [(name, v)]
  | (n, w) :: rest => if n = name then (n, v) :: rest else (n, w) :: objSet name v rest

/-- `copy.copy(x)`: values are immutable here, the copy is the value -/
def copyM (a : M) : M := a

/-- `x.__dict__[name] = value`, as the new value of `x` -/
def setDictItemM (a name v : M) : M :=
  bindM a fun x => bindM name fun n => bindM v fun w => match x, n with
    | .obj fs, .py (.str cs) => .ok (.obj (objSet (String.ofList cs) w fs))
    | _, _ => raiseM

/-- `object.__setattr__(self, name, value)` / `self.__dict__[name] = value` as an effect on the object the method acts on.
Should what follows raise, the changed object is what is left behind (the method then ends in the bare object). -/
def objSetK (a name v : M) (k : V → M) : M :=
  bindM a fun x => bindM name fun n => bindM v fun w => match x, n with
    | .obj fs, .py (.str cs) =>
      (match k (.obj (objSet (String.ofList cs) w fs)) with
       | .error _ => .ok (.obj (objSet (String.ofList cs) w fs))
       | r => r)
    | _, _ => raiseM

/-- `getattr(obj, name, default)` on such an object -/
def getattrObjM (a name dflt : M) : M :=
  bindM a fun x => bindM name fun n => bindM dflt fun d => match x, n with
    | .obj fs, .py (.str cs) => (match objGet (String.ofList cs) fs with | some v => .ok v | Option.none => .ok d)
    | _, _ => getattrDynM (.ok x) (.ok n) (.ok d)

/-- a list literal of string constants (a class attribute such as `_definition_fields`) -/
def cStrList (xs : List String) : M := .ok (.seq (xs.map fun s => V.py (.str s.toList)))

/-- the effect constants of `vakt/effects.py` (their values are regenerated from the source: `Generated.lean`) -/
def cAllowConst : M := .ok (.py (.str Generated.allowConst))
def cDenyConst : M := .ok (.py (.str Generated.denyConst))

/-- the empty dictionary literal `{}` -/
def cEmptyDict : M := .ok (.py (.dict []))

/-- the empty tuple literal `()` -/
def cEmptyTuple : M := .ok (.seq [])

/-- `isinstance(x, (dict, Rule))`: an attribute dictionary or a rule object -/
def isRuleLikeM (a : M) : M :=
  bindM a fun x => ofBool (match x with | .rule _ => true | .attrs _ => true | .py (.dict _) => true | _ => false)

/-! ### the migration runner: effects on an explicit world value -/

/-- `self.migrations()`: the migration objects of the set (each represented by its order number), as declared -/
def migrationsM (self : M) : M :=
  bindM self fun s => match s with
    | .migset orders => .ok (.seq (orders.map fun (o : Nat) => V.py (.int (o : Int))))
    | _ => raiseM

/-- the order numbers of a sequence of migration objects -/
def natsOf : List V → Option (List Nat)
  | [] => some []
  | .py (.int i) :: rest => if 0 ≤ i then (natsOf rest).map (i.toNat :: ·) else Option.none
  | _ :: _ => Option.none

open Migration in
/-- `sorted(xs, key=lambda x: x.order, reverse=r)` over migration objects -/
def sortedByOrderM (a rev : M) : M :=
  bindM a fun x => bindM rev fun r => match x with
    | .seq xs => (match natsOf xs with
      | some ns => .ok (.seq ((if truth r then (sortAsc ns).reverse else sortAsc ns).map fun (o : Nat) => V.py (.int (o : Int))))
      | Option.none => raiseM)
    | _ => raiseM

/-- `m.order` of a migration object (represented by its order number) -/
def orderM (m : M) : M := m

/-- `self.last_applied()`: reads the recorded version -/
def lastAppliedM (w : M) : M :=
  bindM w fun w => match w with | .world st _ _ _ => cInt st.last | _ => raiseM

open Migration in
/-- `m.up()` / `m.down()`: the step body - raises when the fault plan says so (before having any effect), otherwise its
schema effect is in place; either way the invocation is on the trace.  A raise ends the request: the world is returned. -/
def stepBodyM (d : Dir) (m w : M) (k : V → M) : M :=
  bindM m fun m => bindM w fun w => match m, w with
    | .py (.int i), .world st n f _ =>
      let o := i.toNat
      if f == .body n then .ok (.world { st with trace := st.trace ++ [(d, o)] } n f true)
      else k (.world { st with trace := st.trace ++ [(d, o)],
                               schema := match d with | .up => addSchema o st.schema | .down => delSchema o st.schema } n f false)
    | _, _ => raiseM

open Migration in
/-- `self.save_applied_number(x)`: records the version - or raises when the fault plan says so -/
def saveAppliedM (x w : M) (k : V → M) : M :=
  bindM x fun x => bindM w fun w => match x, w with
    | .py (.int i), .world st n f _ =>
      if f == .save n then .ok (.world st n f true)
      else k (.world { st with last := i.toNat } (n + 1) f false)
    | _, _ => raiseM

/-! ### the enfolding cache: calls of the two storages as effects on an explicit world value -/

/-- evaluate call arguments left to right -/
def evalArgs : List M → Except PyErr (List V)
  | [] => .ok []
  | a :: rest => match a with
    | .error e => .error e
    | .ok v => (match evalArgs rest with | .error e => .error e | .ok vs => .ok (v :: vs))

/-- the abstract storage operation a method call stands for (`backend`: the call goes to the enfolded storage, which may
be unable to store the policy; the cache store is an in-memory storage and accepts every policy) -/
def storeOpOf (meth : String) (args : List V) (backend : Bool) : Option Store.Op :=
  match meth, args with
  | "add", [.polv u p ok] => some (.add u p (if backend then ok else true))
  | "update", [.polv u p ok] => some (.update u p (if backend then ok else true))
  | "delete", [.py (.str u)] => some (.delete u)
  | "get", [.py (.str u)] => some (.get u)
  | "get_all", [.py (.int l), .py (.int o)] => some (.getAll l o)
  | "retrieve_all", [.py (.int b)] => some (.retrieveAll b)
  | _, _ => Option.none

/-- the uid a `get` was called with -/
def uidArg : List V → Store.Uid
  | [.py (.str u)] => u
  | _ => []

/-- `self.storage.<meth>(args)` / `self.cache.<meth>(args)`: the abstract store takes the step; a normal return hands the
result and the new world to what follows, an exception ends the method with the world as it then is -/
def stCallM (target meth : String) (args : List M) (w : M) (k : V → V → M) : M :=
  bindM w fun w => match evalArgs args with
    | .error e => .error e
    | .ok vs => match w with
      | .eworld cfg s touched nt Option.none =>
        let isB := target == "storage"
        (match storeOpOf meth vs isB with
         | Option.none => raiseM
         | some op =>
           let r := Store.step (if isB then cfg else Enfold.memCfg) (if isB then s.backend else s.cache) op
           let s' : Enfold.EState := if isB then { s with backend := r.1 } else { s with cache := r.1 }
           let t := touched || isB
           (match r.2 with
            | .done => k (.py .none) (.eworld cfg s' t nt Option.none)
            | .pol Option.none => k (.py .none) (.eworld cfg s' t nt Option.none)
            | .pol (some p) => k (.polv (uidArg vs) p true) (.eworld cfg s' t nt Option.none)
            | .pols l => k (.pols l) (.eworld cfg s' t nt Option.none)
            | e => .ok (.eworld cfg s' t nt (some e))))
      | _ => raiseM

/-! ### the in-memory storage: its dictionary `self.policies` is the `backend` component of the world -/

/-- `key in self.policies` -/
def dictInM (key w : M) : M :=
  bindM key fun k => bindM w fun w => match k, w with
    | .py (.str u), .eworld _ s _ _ Option.none => ofBool (Backends.dictGet u s.backend).isSome
    | _, _ => raiseM

/-- `self.policies.get(key)` -/
def dictGetM (key w : M) : M :=
  bindM key fun k => bindM w fun w => match k, w with
    | .py (.str u), .eworld _ s _ _ Option.none =>
      (match Backends.dictGet u s.backend with | some p => .ok (.polv u p true) | Option.none => cNone)
    | _, _ => raiseM

/-- `self.policies.values()` -/
def dictValuesM (w : M) : M :=
  bindM w fun w => match w with
    | .eworld _ s _ _ Option.none => .ok (.pols s.backend)
    | _ => raiseM

/-- `self.policies[key] = policy` -/
def dictSetM (key val w : M) (k : V → M) : M :=
  bindM key fun ky => bindM val fun v => bindM w fun w => match ky, v, w with
    | .py (.str u), .polv _ p _, .eworld cfg s t n Option.none =>
      k (.eworld cfg { s with backend := Backends.dictSet u p s.backend } t n Option.none)
    | _, _, _ => raiseM

/-- `del self.policies[key]` (`KeyError` when absent) -/
def dictDelM (key w : M) (k : V → M) : M :=
  bindM key fun ky => bindM w fun w => match ky, w with
    | .py (.str u), .eworld cfg s t n Option.none =>
      if (Backends.dictGet u s.backend).isSome then k (.eworld cfg { s with backend := Backends.dictDel u s.backend } t n Option.none)
      else raiseM
    | _, _ => raiseM

/-- `raise PolicyExistsError(...)` / `raise ValueError(...)` in a method that acts on a world: the method ends, the world
records the exception -/
def raiseWorldM (exc : String) (w : M) : M :=
  bindM w fun w => match w with
    | .eworld cfg s t n Option.none =>
      (match exc with
       | "PolicyExistsError" => .ok (.eworld cfg s t n (some .existsErr))
       | "ValueError" => .ok (.eworld cfg s t n (some .valueError))
       | _ => raiseM)
    | _ => raiseM

/-- `xs[lo:hi]` on a list of objects, for non-negative bounds -/
def sliceM (xs lo hi : M) : M :=
  bindM xs fun x => bindM lo fun a => bindM hi fun b => match x, a, b with
    | .seq l, .py (.int i), .py (.int j) => if 0 ≤ i && 0 ≤ j then .ok (.seq (Backends.pySlice l i.toNat j.toNat)) else raiseM
    | _, _, _ => raiseM

/-- the call of another translated method that acts on the world: it returned (value, world), or ended in an exception -/
def callProcM (m : M) (k : V → V → M) : M :=
  match m with
  | .ok (.seq [r, w]) => k r w
  | other => other

/-! ### the audit message classes: `attrgetter`, `str`, `str.join`, `%`-formatting with one directive -/

/-- `attrgetter(name)(policy)` for the two attributes the message classes name policies by -/
def policyFieldM (a : M) (name : String) : M :=
  bindM a fun x => match x with
    | .policy p => (match name with
        | "uid" => .ok (.py p.uid)
        | "description" => .ok (.py p.description)
        | _ => raiseM)
    | _ => raiseM

/-- `str(x)` (the model's `strOf`: the text of `None`, booleans, integers and strings; other values are outside the
modelled domain and stand for an unknown text) -/
def strM (a : M) : M :=
  bindM a fun x => match x with
    | .py v => .ok (.py (.str (strOf v)))
    | _ => raiseM

/-- the strings a list of strings holds -/
def strsOf : List V → Option (List (List Char))
  | [] => some []
  | .py (.str s) :: rest => (strsOf rest).map (s :: ·)
  | _ :: _ => Option.none

/-- `sep.join(xs)`: `TypeError` unless every item is a string -/
def joinM (sep xs : M) : M :=
  bindM sep fun sp => bindM xs fun l => match sp, l with
    | .py (.str s), .seq items => (match strsOf items with
        | some ss => .ok (.py (.str (intercalate s ss)))
        | Option.none => raiseM)
    | _, _ => raiseM

/-- `'<pre>%s<post>' % x` (`str(x)` in the middle) / `'<pre>%d<post>' % n` (the digits of a natural number) -/
def fmt1M (pre post : String) (directive : Char) (x : M) : M :=
  bindM x fun v => match directive, v with
    | 's', .py w => .ok (.py (.str (pre.toList ++ strOf w ++ post.toList)))
    | 'd', .py (.int n) => if 0 ≤ n then .ok (.py (.str (pre.toList ++ natDigits n.toNat ++ post.toList))) else raiseM
    | _, _ => raiseM

/-! ### the Redis storage: client calls as effects on the hash, the serializer as part of the world -/

/-- `self.sr.serialize(policy)`: the bytes, or whatever the serializer raises -/
def serializeM (pol w : M) : M :=
  bindM pol fun p => bindM w fun w => match p, w with
    | .polv _ c _, .rworld sr _ Option.none => (match sr.ser c with | some b => .ok (.bytes b) | Option.none => raiseM)
    | _, _ => raiseM

/-- `self.sr.deserialize(data)` -/
def deserializeM (data w : M) : M :=
  bindM data fun d => bindM w fun w => match d, w with
    | .bytes b, .rworld sr _ Option.none => .ok (.polv [] (sr.deser b) true)
    | _, _ => raiseM

/-- `self.client.hsetnx(collection, key, value)`: sets the field only if it does not exist; answers 1 / 0 -/
def hsetnxM (key val w : M) (k : V → V → M) : M :=
  bindM key fun ky => bindM val fun v => bindM w fun w => match ky, v, w with
    | .py (.str u), .bytes b, .rworld sr h Option.none =>
      if (Backends.dictGet u h).isSome then k (.py (.int 0)) (.rworld sr h Option.none)
      else k (.py (.int 1)) (.rworld sr (h ++ [(u, b)]) Option.none)
    | _, _, _ => raiseM

/-- `self.client.hget(collection, key)` -/
def hgetM (key w : M) (k : V → V → M) : M :=
  bindM key fun ky => bindM w fun w => match ky, w with
    | .py (.str u), .rworld sr h Option.none =>
      (match Backends.dictGet u h with
       | some b => k (.bytes b) (.rworld sr h Option.none)
       | Option.none => k (.py .none) (.rworld sr h Option.none))
    | _, _ => raiseM

/-- the Lua updater script (`HEXISTS`, then `HSET` only when the field exists): answers what `HSET` answers (0: an existing field
was overwritten) or 0 -/
def scriptUpdateM (key val w : M) (k : V → V → M) : M :=
  bindM key fun ky => bindM val fun v => bindM w fun w => match ky, v, w with
    | .py (.str u), .bytes b, .rworld sr h Option.none =>
      if (Backends.dictGet u h).isSome then k (.py (.int 0)) (.rworld sr (Backends.dictSet u b h) Option.none)
      else k (.py (.int 0)) (.rworld sr h Option.none)
    | _, _, _ => raiseM

/-- `self.client.hdel(collection, key)`: the number of fields removed -/
def hdelM (key w : M) (k : V → V → M) : M :=
  bindM key fun ky => bindM w fun w => match ky, w with
    | .py (.str u), .rworld sr h Option.none =>
      k (.py (.int (if (Backends.dictGet u h).isSome then 1 else 0))) (.rworld sr (Backends.dictDel u h) Option.none)
    | _, _ => raiseM

/-- `self.client.hgetall(collection)` -/
def hgetallM (w : M) (k : V → V → M) : M :=
  bindM w fun w => match w with
    | .rworld sr h Option.none => k (.rhash h) (.rworld sr h Option.none)
    | _ => raiseM

/-- `data.items()` / `dict(pairs)` on what `hgetall` answered: the same field -> bytes pairs -/
def rhashItemsM (a : M) : M := bindM a fun x => match x with | .rhash h => .ok (.rhash h) | _ => raiseM
def callDictM (a : M) : M := bindM a fun x => match x with | .rhash h => .ok (.rhash h) | _ => raiseM

/-- `itertools.islice(pairs, start, stop)` for non-negative bounds -/
def isliceM (a lo hi : M) : M :=
  bindM a fun x => bindM lo fun i => bindM hi fun j => match x, i, j with
    | .rhash h, .py (.int i), .py (.int j) => if 0 ≤ i && 0 ≤ j then .ok (.rhash (Backends.islice h i.toNat j.toNat)) else raiseM
    | _, _, _ => raiseM

/-- `data[uid]` on such a dictionary -/
def rhashGetM (a key : M) : M :=
  bindM a fun x => bindM key fun ky => match x, ky with
    | .rhash h, .py (.str u) => (match Backends.dictGet u h with | some b => .ok (.bytes b) | Option.none => raiseM)
    | _, _ => raiseM

/-- `raise X` in a method of the Redis storage: the method ends, the world records the exception
(`PolicyExistsError`; anything re-raised from a handler reads as "the storage refused") -/
def raiseRedisM (exc : String) (w : M) : M :=
  bindM w fun w => match w with
    | .rworld sr h Option.none =>
      .ok (.rworld sr h (some (if exc == "PolicyExistsError" then .existsErr else if exc == "ValueError" then .valueError else .rejected)))
    | _ => raiseM

/-- `try: BODY except Exception: HANDLER` where the handler raises: an exception in the body (before any effect: the arguments of a
client call are evaluated first) is answered by the handler on the world as it stood -/
def tryElseM (body handler : M) : M := match body with | .error _ => handler | r => r

/-! ### the MongoDB storage: collection calls as effects -/

/-- `self.__prepare_doc(policy)`: the document, or whatever the conversion raises (a policy the backend cannot store) -/
def prepareDocM (pol : M) : M :=
  bindM pol fun p => match p with
    | .polv u c ok => if ok then .ok (.mdoc u c) else raiseM
    | _ => raiseM

/-- `self.__prepare_from_doc(doc)` -/
def fromDocM (doc : M) : M :=
  bindM doc fun d => match d with
    | .mdoc u c => .ok (.polv u c true)
    | _ => raiseM

/-- `try: self.collection.insert_one(doc)  except DuplicateKeyError: HANDLER`: inserted and on, or the handler -/
def insertOneM (doc w : M) (k : V → M) (dup : V → M) : M :=
  bindM doc fun d => bindM w fun w => match d, w with
    | .mdoc u c, .mworld coll Option.none =>
      if (Backends.dictGet u coll).isSome then dup (.mworld coll Option.none) else k (.mworld (coll ++ [(u, c)]) Option.none)
    | _, _ => raiseM

/-- `self.collection.find_one(uid)` -/
def findOneM (key w : M) (k : V → V → M) : M :=
  bindM key fun ky => bindM w fun w => match ky, w with
    | .py (.str u), .mworld coll Option.none =>
      (match Backends.dictGet u coll with
       | some c => k (.mdoc u c) (.mworld coll Option.none)
       | Option.none => k (.py .none) (.mworld coll Option.none))
    | _, _ => raiseM

/-- `self.collection.update_one({'_id': uid}, {'$set': doc}, upsert=False)` -/
def updateOneM (key doc w : M) (k : V → M) : M :=
  bindM key fun ky => bindM doc fun d => bindM w fun w => match ky, d, w with
    | .py (.str u), .mdoc _ c, .mworld coll Option.none =>
      if (Backends.dictGet u coll).isSome then k (.mworld (Backends.dictSet u c coll) Option.none) else k (.mworld coll Option.none)
    | _, _, _ => raiseM

/-- `self.collection.delete_one({'_id': uid})` -/
def deleteOneM (key w : M) (k : V → M) : M :=
  bindM key fun ky => bindM w fun w => match ky, w with
    | .py (.str u), .mworld coll Option.none => k (.mworld (Backends.dictDel u coll) Option.none)
    | _, _ => raiseM

/-- `self.collection.find(limit=l, skip=s, sort=[('_id', ASCENDING)])`: a cursor (limit 0 means "no limit") -/
def findPageM (limit skip w : M) (k : V → V → M) : M :=
  bindM limit fun l => bindM skip fun s => bindM w fun w => match l, s, w with
    | .py (.int l), .py (.int s), .mworld coll Option.none =>
      if 0 ≤ l && 0 ≤ s then k (.mcursor (Backends.mongoFind coll l.toNat s.toNat)) (.mworld coll Option.none) else raiseM
    | _, _, _ => raiseM

/-- `raise PolicyExistsError(...)` in a method of the MongoDB storage -/
def raiseMongoM (exc : String) (w : M) : M :=
  bindM w fun w => match w with
    | .mworld coll Option.none =>
      if exc == "PolicyExistsError" then .ok (.mworld coll (some .existsErr))
      else if exc == "ValueError" then .ok (.mworld coll (some .valueError)) else raiseM
    | _ => raiseM

/-! ### the SQL storage: session primitives as effects (the session model of `Model/SqlSession.lean`) -/

open SqlSession in
/-- `PolicyModel.from_policy(policy)`: the row object, or whatever the conversion raises -/
def fromPolicyM (pol : M) : M :=
  bindM pol fun p => match p with
    | .polv u c ok => if ok then .ok (.smodel u c true) else raiseM
    | _ => raiseM

open SqlSession in
/-- `self.session.add(model)`: the row is pending in the session's view; whether its key is already taken shows at the flush -/
def sessAddM (model w : M) (k : V → M) : M :=
  bindM model fun m => bindM w fun w => match m, w with
    | .smodel u c _, .sworld s _ Option.none =>
      k (.sworld (stage (fun v => v ++ [(u, c)]) s) (Store.lookup u s.view).isSome Option.none)
    | _, _ => raiseM

open SqlSession in
/-- `self.session.commit()` inside a `try` with handlers for `IntegrityError` / `FlushError`: the flush fails when a pending row's key
is taken (the handler then runs on the still dirty session), otherwise the view becomes the committed state -/
def sessCommitTryM (w : M) (k : V → M) (conflict : V → M) : M :=
  bindM w fun w => match w with
    | .sworld s c Option.none => if c then conflict (.sworld s c Option.none) else k (.sworld (commit s) false Option.none)
    | _ => raiseM

open SqlSession in
/-- `self.session.commit()` where nothing is pending that could conflict -/
def sessCommitM (w : M) (k : V → M) : M :=
  bindM w fun w => match w with
    | .sworld s _ Option.none => k (.sworld (commit s) false Option.none)
    | _ => raiseM

open SqlSession in
/-- `self.session.rollback()` -/
def sessRollbackM (w : M) (k : V → M) : M :=
  bindM w fun w => match w with
    | .sworld s _ Option.none => k (.sworld (rollback s) false Option.none)
    | _ => raiseM

/-- `self.session.get(PolicyModel, uid)`: the row object the session's view holds, or `None` -/
def sessGetM (key w : M) (k : V → V → M) : M :=
  bindM key fun ky => bindM w fun w => match ky, w with
    | .py (.str u), .sworld s c Option.none =>
      (match Store.lookup u s.view with
       | some p => k (.smodel u p true) (.sworld s c Option.none)
       | Option.none => k (.py .none) (.sworld s c Option.none))
    | _, _ => raiseM

open SqlSession in
/-- `policy_model.update(policy)`: the loaded row takes the new policy's columns and elements - or the conversion raises half-way
(the half-applied change is pending in the session; the exception loses nothing the handler's rollback would keep) -/
def modelUpdateM (model pol w : M) (k : V → M) : M :=
  bindM model fun m => bindM pol fun p => bindM w fun w => match m, p, w with
    | .smodel u _ _, .polv _ c ok, .sworld s cf Option.none =>
      if ok then k (.sworld (stage (Store.replace u c) s) cf Option.none) else raiseM
    | _, _, _ => raiseM

open SqlSession in
/-- `self.session.query(PolicyModel).filter(PolicyModel.uid == uid).delete()`: a bulk DELETE, pending -/
def sessBulkDeleteM (key w : M) (k : V → M) : M :=
  bindM key fun ky => bindM w fun w => match ky, w with
    | .py (.str u), .sworld s c Option.none => k (.sworld (stage (Store.erase u) s) c Option.none)
    | _, _ => raiseM

open SqlSession in
/-- `self.session.query(<element model>).filter(<element model>.uid == uid).delete()`: the rows one uid has in one of the three
element tables, a pending bulk DELETE.  The session model keeps a policy with its elements as one value under its uid, so this
statement has no effect of its own there: it is absorbed by the DELETE of the policy row that the same transaction goes on to stage
(`gen_sql_delete` only goes through when it does), and undone with it by a rollback. -/
def sessElemDeleteM (table : String) (key w : M) (k : V → M) : M :=
  bindM key fun ky => bindM w fun w => match ky, w with
    | .py (.str _), .sworld s c Option.none => k (.sworld s c Option.none)
    | _, _ => raiseM

/-- `self.session.query(PolicyModel).order_by(PolicyModel.uid.asc()).slice(start, stop)`: `LIMIT stop - start OFFSET start` over the
session's view ordered by uid -/
def sessSliceQueryM (start stop w : M) (k : V → V → M) : M :=
  bindM start fun a => bindM stop fun b => bindM w fun w => match a, b, w with
    | .py (.int a), .py (.int b), .sworld s c Option.none =>
      if 0 ≤ a && 0 ≤ b then
        k (.scursor (((Store.sortUid s.view).drop a.toNat).take (b.toNat - a.toNat))) (.sworld s c Option.none)
      else raiseM
    | _, _, _ => raiseM

/-- `model.to_policy()` -/
def toPolicyM (model : M) : M :=
  bindM model fun m => match m with | .smodel u p _ => .ok (.polv u p true) | _ => raiseM

/-- `raise PolicyExistsError(...)` / a bare `raise` in a handler of the SQL storage -/
def raiseSqlM (exc : String) (w : M) : M :=
  bindM w fun w => match w with
    | .sworld s c Option.none =>
      .ok (.sworld s c (some (if exc == "PolicyExistsError" then .existsErr else if exc == "ValueError" then .valueError else .rejected)))
    | _ => raiseM

/-! ### the data migrations of the MongoDB storage: `_each_doc` -/

/-- `storage.collection.find()`: the documents, as the cursor yields them -/
def collFindM (w : M) : M :=
  bindM w fun w => match w with
    | .mcoll docs _ => .ok (.seq (docs.map fun d => V.py (.dict d)))
    | _ => raiseM

/-- `processor(doc)`: the step's conversion of one document - or whatever it raises (`Irreversible`, or anything else) -/
def procCallM (proc doc : M) : M :=
  bindM proc fun p => bindM doc fun d => match p, d with
    | .mproc f, .py (.dict kvs) => (match f kvs with | .ok d' => .ok (.py (.dict d')) | .error _ => raiseM)
    | _, _ => raiseM

/-- `storage.collection.replace_one({'_id': key}, new_doc)`: one more replacement -/
def replaceOneM (key doc w : M) (k : V → M) : M :=
  bindM key fun ky => bindM doc fun d => bindM w fun w => match ky, d, w with
    | .py kv, .py (.dict kvs), .mcoll docs reps => k (.mcoll docs (reps ++ [(kv, kvs)]))
    | _, _, _ => raiseM

/-! ### `Policy.from_json`: the decoded properties as a local dictionary -/

/-- `cls._parse(data)`: the decoded JSON document (a dictionary; anything else makes `from_json` fail) -/
def parseM (data : M) : M :=
  bindM data fun d => match d with
    | .py (.dict kvs) => .ok (.py (.dict kvs))
    | _ => raiseM

/-- `del d[k]` on a local dictionary, as the new value of `d` (`KeyError` when absent) -/
def delItemM (d k : M) : M :=
  bindM d fun x => bindM k fun ky => match x, ky with
    | .py (.dict kvs), .py (.str cs) =>
      if (lookup cs kvs).isSome then .ok (.py (.dict (kvs.filter fun kv => kv.1 != cs))) else raiseM
    | _, _ => raiseM

/-- `d[k] = v` on a local dictionary, as the new value of `d` -/
def setItemM (d k v : M) : M :=
  bindM d fun x => bindM k fun ky => bindM v fun w => match x, ky, w with
    | .py (.dict kvs), .py (.str cs), .py val => .ok (.py (.dict (kvs.filter (fun kv => kv.1 != cs) ++ [(cs, val)])))
    | _, _, _ => raiseM

/-- `cls(**props)`: the constructor as far as decoding is concerned (`Serialize.construct`) -/
def ctorKwM (props : M) : M :=
  bindM props fun p => match p with
    | .py (.dict kvs) => (match Serialize.construct kvs with | .ok d => .ok (.decoded d) | .error _ => raiseM)
    | _ => raiseM

/-! ### the two rules that lean on libraries: `re` and `ipaddress` (the models of `Model/Regex.lean`, `Model/Cidr.lean`) -/

/-- `str(x)` where the text matters: defined for `None`, booleans, integers and strings (`pyStr`); other values are outside the
modelled domain and read as an exception, like in the model's `evalRegex` -/
def strPyM (a : M) : M :=
  bindM a fun x => match x with
    | .py v => (match pyStr v with | some s => .ok (.py (.str s)) | Option.none => raiseM)
    | _ => raiseM

/-- `self.regex.match(text)` for the pattern the rule was built from: a match object (true) or `None`, at the start of the text;
a pattern outside the modelled subset reads as an exception -/
def reMatchM (pat text : M) : M :=
  bindM pat fun p => bindM text fun t => match p, t with
    | .py (.str ps), .py (.str s) =>
      (match parsePattern (Rule.stripAnchors ps).1 with
       | .ok r _ => ofBool (if (Rule.stripAnchors ps).2 then r.acceptsDollar s else r.matchesPrefix s)
       | _ => raiseM)
    | _, _ => raiseM

/-- `try: ip = ipaddress.ip_address(a); net = ipaddress.ip_network(n)  except ValueError: HANDLER`, then `ip in net` -/
def ipInNetM (a n : M) (handler : M) : M :=
  bindM a fun x => bindM n fun y => match x, y with
    | .py (.str av), .py (.str nv) =>
      (match Cidr.parseAddr av with
       | Option.none => handler
       | some (v, ip) =>
         match Cidr.parseNet nv with
         | .ok v' net p => ofBool (Cidr.contains v' net p v ip)
         | _ => handler)
    | .py (.str av), _ => (match Cidr.parseAddr av with | Option.none => handler | some _ => handler)
    | _, _ => raiseM

/-! ### `compile_regex`: slicing, index arithmetic, and the pattern text kept symbolic -/

/-- `a * b` / `a // b` on integers (`b > 0`) -/
def mulM (a b : M) : M :=
  bindM a fun x => bindM b fun y => match x, y with
    | .py (.int m), .py (.int n) => .ok (.py (.int (m * n)))
    | _, _ => raiseM
def floordivM (a b : M) : M :=
  bindM a fun x => bindM b fun y => match x, y with
    | .py (.int m), .py (.int n) => if 0 < n then .ok (.py (.int (m / n))) else raiseM
    | _, _ => raiseM

/-- `s[a:b]` / `s[a:]` on a string, for non-negative bounds -/
def strSliceM (s lo hi : M) : M :=
  bindM s fun x => bindM lo fun a => bindM hi fun b => match x, a, b with
    | .py (.str cs), .py (.int i), .py (.int j) =>
      if 0 ≤ i && 0 ≤ j then .ok (.py (.str (TagParser.slice cs i.toNat j.toNat))) else raiseM
    | _, _, _ => raiseM
def strSliceFromM (s lo : M) : M :=
  bindM s fun x => bindM lo fun a => match x, a with
    | .py (.str cs), .py (.int i) => if 0 ≤ i then .ok (.py (.str (cs.drop i.toNat))) else raiseM
    | _, _ => raiseM

/-- `xs[::2]` on a list -/
def everyOther : List PyVal → List PyVal
  | [] => []
  | [x] => [x]
  | x :: _ :: rest => x :: everyOther rest
def stepSlice2M (a : M) : M :=
  bindM a fun x => match x with
    | .py (.list xs) => .ok (.py (.list (everyOther xs)))
    | _ => raiseM

/-- `re.escape(raw)`: the text that matches `raw` literally -/
def reEscapeM (a : M) : M :=
  bindM a fun x => match x with
    | .py (.str cs) => .ok (.ptext [Piece.lit cs])
    | _ => raiseM

/-- `pattern + '%s(%s)' % (re.escape(raw), part)`: the text so far, the escaped literal, the segment in a group -/
def ptGroupM (pattern esc part : M) : M :=
  bindM pattern fun p => bindM esc fun e => bindM part fun x => match p, e, x with
    | .py (.str []), .ptext l, .py (.str seg) => .ok (.ptext (l ++ [Piece.seg seg]))
    | .ptext ps, .ptext l, .py (.str seg) => .ok (.ptext (ps ++ l ++ [Piece.seg seg]))
    | _, _, _ => raiseM

/-- `re.compile('^%s$' % part)`: the segment compiled on its own (only a failure matters: `re.error`) -/
def reCompileSegM (part : M) : M :=
  bindM part fun x => match x with
    | .py (.str seg) => (match parsePattern seg with | .ok r _ => .ok (.pattern r) | _ => raiseM)
    | _ => raiseM

/-- `re.compile('^%s%s$' % (pattern, re.escape(raw)))`: the whole element -/
def reCompileFullM (pattern esc : M) : M :=
  bindM pattern fun p => bindM esc fun e => match p, e with
    | .py (.str []), .ptext l => (match piecesRe l with | .ok r _ => .ok (.pattern r) | _ => raiseM)
    | .ptext ps, .ptext l => (match piecesRe (ps ++ l) with | .ok r _ => .ok (.pattern r) | _ => raiseM)
    | _, _ => raiseM

/-! ### generators: `while True` with a bound on the rounds, the abstract `get_all` of a storage -/

/-- `while True: BODY` where the body ends the function or goes on with the next round; `fuel` bounds the rounds (out of fuel,
the loop is simply left - the same convention as the model's `retrLoop`, whose bound is shown never to be reached) -/
def whileS : Nat → (List V → (List V → M) → (List V → M) → M) → List V → (List V → M) → M
  | 0, _, st, rest => rest st
  | n + 1, body, st, rest => body st (fun st' => whileS n body st' rest) rest

/-- `self.get_all(limit, offset)` of whatever storage `self` is -/
def pagerGetAllM (self limit offset : M) : M :=
  bindM self fun s => bindM limit fun l => bindM offset fun o => match s, l, o with
    | .pager ga, .py (.int l), .py (.int o) => (match ga l o with | some pg => .ok (.pols pg) | Option.none => raiseM)
    | _, _, _ => raiseM

/-! ### the guard's log records as effects on an explicit log value -/

/-- a list literal of objects -/
def seqOfM (xs : List M) : M := (evalArgs xs).map V.seq

/-- the policies a list of policy objects holds -/
def policiesOf : V → Option (List Policy)
  | .seq xs => xs.mapM fun x => match x with | .policy p => some p | _ => Option.none
  | _ => Option.none

/-- `audit_log.info(msg, extra={'effect': …, 'candidates': self.apm(cs), 'deciders': self.apm(ds), …}); return r`:
one more audit record, and the method returns -/
def auditRetM (allow : Bool) (cands decs ret w : M) : M :=
  bindM cands fun c => bindM decs fun d => bindM ret fun r => bindM w fun w => match policiesOf c, policiesOf d, w with
    | some cs, some ds, .alog au dl => .ok (.seq [r, .alog (au ++ [⟨allow, cs, ds⟩]) dl])
    | _, _, _ => raiseM

/-- `log.info('Incoming Inquiry was allowed / rejected …')`: one more decision-log record -/
def decisionLogM (b w : M) (k : V → M) : M :=
  bindM b fun b => bindM w fun w => match w with
    | .alog au dl => k (.alog au (dl ++ [truth b]))
    | _ => raiseM

/-- `self.notify()`: the listeners are told once more -/
def notifyM (w : M) (k : V → M) : M :=
  bindM w fun w => match w with
    | .eworld cfg s t nt Option.none => k (.eworld cfg s t (nt + 1) Option.none)
    | _ => raiseM

/-- `self.storage.<meth>(*args, **kwargs)` / `self.cache.<meth>(*args, **kwargs)`: the positional arguments are passed on as they
came (keyword arguments are outside the modelled calls) -/
def stCallStarM (target meth : String) (args kwargs w : M) (k : V → V → M) : M :=
  bindM args fun a => bindM kwargs fun kw => match a, kw with
    | .seq vs, .py (.dict []) => stCallM target meth (vs.map Except.ok) w k
    | _, _ => raiseM

/-- `return x` of a method that acts on a world: the value and the world -/
def pairM (x w : M) : M := bindM x fun x => bindM w fun w => .ok (.seq [x, w])

/-! ### the publisher of `vakt/util.py` (`Subject`)

The world is the pair (attached listeners, the `update()` calls made so far, oldest first).  A listener is identified by a plain
value (an integer id in the obligations); `listener.update()` is a call out of the publisher - recorded, with no effect on the list of
listeners (the one listener vakt attaches, `AllowanceCache.update`, clears a cache). -/

def subjW (ls calls : List PyVal) : V := .seq [.py (.list ls), .py (.list calls)]

/-- `self._listeners` -/
def listenersM (w : M) : M := bindM w fun x => match x with
  | .seq [.py (.list ls), .py (.list _)] => .ok (.py (.list ls))
  | _ => raiseM

/-- `self._listeners = value` (in `__init__` the attribute does not exist yet: whatever stands in its place is replaced) -/
def setListenersM (v w : M) (k : V → M) : M := bindM v fun x => bindM w fun y => match x, y with
  | .py (.list ls), .seq [_, .py (.list calls)] => k (subjW ls calls)
  | _, _ => raiseM

/-- `self._listeners.append(listener)` -/
def listenerAppendM (l w : M) (k : V → M) : M := bindM l fun x => bindM w fun y => match x, y with
  | .py v, .seq [.py (.list ls), .py (.list calls)] => k (subjW (ls ++ [v]) calls)
  | _, _ => raiseM

/-- `list.remove` over listener ids: the first equal one goes; `none` when there is none (Python raises ValueError) -/
def eraseFirstId (n : Int) : List PyVal → Option (List PyVal)
  | [] => Option.none
  | .int m :: rest => if m = n then some rest else (eraseFirstId n rest).map (PyVal.int m :: ·)
  | _ :: _ => Option.none

/-- `self._listeners.remove(listener)` -/
def listenerRemoveM (l w : M) (k : V → M) : M := bindM l fun x => bindM w fun y => match x, y with
  | .py (.int n), .seq [.py (.list ls), .py (.list calls)] =>
    (match eraseFirstId n ls with
     | some ls' => k (subjW ls' calls)
     | Option.none => raiseM)
  | _, _ => raiseM

/-! ### `AllowanceCache.__init__`: attribute writes on two objects, the cache back-end and the wrapped method as opaque values -/

/-- `<object>.<name> = value` (a plain attribute write); what follows sees the changed object -/
def objSetS (a : M) (name : String) (v : M) (k : V → M) : M :=
  bindM a fun x => bindM v fun w => match x with
    | .obj fs => k (.obj (objSet name w fs))
    | _ => raiseM

/-- `<object>.<name>` (AttributeError when there is none) -/
def objAttrM (a : M) (name : String) : M :=
  bindM a fun x => match x with
    | .obj fs => (match objGet name fs with | some v => .ok v | Option.none => raiseM)
    | _ => raiseM

def lruTag : V := .py (.str "LRUCache".toList)
def wrappedTag : V := .py (.str "wrapped".toList)

/-- `LRUCache(maxsize=m)`: a new back-end, known by its class and its capacity -/
def lruNewM (m : M) : M := bindM m fun x => .ok (.seq [lruTag, x])

/-- `backend.wrap(f)`: the function `f` behind the back-end's cache, as an opaque value that names both -/
def wrapM (c f : M) : M := bindM c fun x => bindM f fun y => .ok (.seq [wrappedTag, x, y])

/-- `target.<meth>()` for a call that leaves the modelled code (the back-end's `invalidate`): recorded, oldest first, with the object it
is made on -/
def callOutM (meth : String) (target out : M) (k : V → M) : M :=
  bindM target fun t => bindM out fun o => match o with
    | .seq calls => k (.seq (calls ++ [.seq [.py (.str meth.toList), t]]))
    | _ => raiseM

/-- `listener.update()` -/
def listenerUpdateM (l w : M) (k : V → M) : M := bindM l fun x => bindM w fun y => match x, y with
  | .py v, .seq [.py (.list ls), .py (.list calls)] => k (subjW ls (calls ++ [v]))
  | _, _ => raiseM

end Vakt.PyPrim
