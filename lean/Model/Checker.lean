import Model.Policy
import Model.TagParser
import Model.Cache
/-!
# The four checkers (`vakt/checker.py`)

Each `…Fits p f what q` is `Checker.fits(policy, field, what, inquiry)` as a total function to
`R` (`.error .raised` = the call raised).  The loops follow the source: elements are tried in
order and the first match, stop or raise ends the scan.
-/
namespace Vakt
open PyVal

/-! ## RegexChecker -/

/-- regex of one compiled element: literals are literal, segments are parsed stand-alone -/
def piecesRe : List Piece → ParseRes Re
  | [] => .ok .eps []
  | Piece.lit l :: ps =>
    (match piecesRe ps with
     | .ok r _ => .ok (.cat (Re.lit l) r) []
     | .invalid => .invalid
     | .unsupported => .unsupported)
  | Piece.seg x :: ps =>
    (match parsePattern x with
     | .ok a _ =>
       (match piecesRe ps with
        | .ok r _ => .ok (.cat a r) []
        | .invalid => .invalid
        | .unsupported => .unsupported)
     | .invalid => .invalid
     | .unsupported =>
       -- an unsupported segment hides nothing that is certainly invalid further on
       .unsupported)

/-- outcome of trying one element -/
inductive Step where
  | next            -- this element does not match, go on
  | done (r : R)    -- the scan ends with this result
  deriving Repr, Inhabited, DecidableEq

def regexElem (stag etag : Char) (e : List Char) (what : PyVal) : Step :=
  if !TagParser.tagged stag etag e then
    (if pyEq (.str e) what then .done (.ok true) else .next)
  else
    match TagParser.scan stag etag e with
    | Option.none => .done (.ok false)                 -- InvalidPatternError: fail closed for the field
    | some ps =>
      match piecesRe ps with
      | .ok r _ =>
        (match what with
         | .str w => if r.accepts w then .done (.ok true) else .next
         | _ => .done (.error .raised))         -- re.match on a non-str
      | _ => .done (.error .raised)             -- re.error from a segment

def regexLoop (stag etag : Char) (what : PyVal) : List Elem → R
  | [] => .ok false
  | .str e :: rest =>
    (match regexElem stag etag e what with
     | .next => regexLoop stag etag what rest
     | .done r => r)
  | _ :: rest => regexLoop stag etag what rest

def regexFits (p : Policy) (f : Field) (what : PyVal) : R := regexLoop p.stag p.etag what (p.field f)

/-! ## StringExactChecker / StringFuzzyChecker -/

/-- an element wholly enclosed in the tags is compared by its inner text -/
def inner (stag etag : Char) (s : List Char) : List Char :=
  match s with
  | [] => []
  | h :: _ => if h == stag && s.getLast? == some etag then (s.drop 1).dropLast else s

def exactLoop (stag etag : Char) (what : PyVal) : List Elem → R
  | [] => .ok false
  | .str e :: rest => if pyEq what (.str (inner stag etag e)) then .ok true else exactLoop stag etag what rest
  | _ :: rest => exactLoop stag etag what rest

def exactFits (p : Policy) (f : Field) (what : PyVal) : R := exactLoop p.stag p.etag what (p.field f)

def fuzzyLoop (stag etag : Char) (what : PyVal) : List Elem → R
  | [] => .ok false
  | .str e :: rest =>
    (match what with
     | .str w => if isInfix w (inner stag etag e) then .ok true else fuzzyLoop stag etag what rest
     | _ => .error .raised)                     -- `<non-str> in <str>` → TypeError
  | _ :: rest => fuzzyLoop stag etag what rest

def fuzzyFits (p : Policy) (f : Field) (what : PyVal) : R := fuzzyLoop p.stag p.etag what (p.field f)

/-! ## RulesChecker -/

/-- `_check_satisfied`: any exception from the rule counts as "not satisfied" -/
def checkSatisfied (r : AttrVal) (what : PyVal) (q : Option Inquiry) : Bool :=
  match r with
  | .junk => false                               -- AttributeError, swallowed
  | .rule r => match r.eval what q with | .ok b => b | .error _ => false

/-- one `key: rule` entry of an attribute dictionary against the inquiry value -/
def attrStep (what : PyVal) (q : Option Inquiry) (k : List Char) (a : AttrVal) : Bool :=
  match what with
  | .dict d => (match lookup k d with
                | some v => checkSatisfied a v q
                | Option.none => false)               -- missing attribute
  | _ => false                                        -- the value is not a dictionary

/-- the inner loop over one attribute dictionary; `acc` is `item_result` so far (fail-fast `break`) -/
def attrsLoop (what : PyVal) (q : Option Inquiry) : List (List Char × AttrVal) → Bool → Bool
  | [], acc => acc
  | (k, r) :: rest, _ => if attrStep what q k r then attrsLoop what q rest true else false

def rulesElem (what : PyVal) (q : Option Inquiry) : Elem → Bool
  | .attrs kvs => attrsLoop what q kvs false
  | .rule r => checkSatisfied (.rule r) what q
  | .str _ => false

def rulesLoop (what : PyVal) (q : Option Inquiry) : List Elem → Bool
  | [] => false
  | e :: rest => if rulesElem what q e then true else rulesLoop what q rest

def rulesFits (p : Policy) (f : Field) (what : PyVal) (q : Option Inquiry) : R :=
  .ok (rulesLoop what q (p.field f))

/-! ## Checker selection -/

inductive CheckerKind where
  | regex | exact | fuzzy | rules
  deriving Repr, DecidableEq, Inhabited

def fits (k : CheckerKind) (p : Policy) (f : Field) (what : PyVal) (q : Inquiry) : R :=
  match k with
  | .regex => regexFits p f what
  | .exact => exactFits p f what
  | .fuzzy => fuzzyFits p f what
  | .rules => rulesFits p f what (some q)

end Vakt

namespace Vakt
open PyVal

/-! ## The regex checker with its compile cache made explicit (for C03 / C16) -/

/-- what `compile_regex` yields for a tagged element (the cache key is `(element, start, end)`) -/
inductive Compiled where
  | invalidPattern          -- `InvalidPatternError` (unbalanced delimiters); raised, never cached
  | reError                 -- `re.error` from a segment; raised, never cached
  | re (r : Re)
  deriving Repr, Inhabited

abbrev CKey := List Char × Char × Char

def compileKey (k : CKey) : Compiled :=
  match TagParser.scan k.2.1 k.2.2 k.1 with
  | Option.none => .invalidPattern
  | some ps => match piecesRe ps with
    | .ok r _ => .re r
    | _ => .reError

def Compiled.keep : Compiled → Bool
  | .re _ => true
  | _ => false

/-- the rest of one loop iteration once the compiled pattern is at hand -/
def elemWith (c : Compiled) (what : PyVal) : Step :=
  match c with
  | .invalidPattern => .done (.ok false)
  | .reError => .done (.error .raised)
  | .re r => match what with
    | .str w => if r.accepts w then .done (.ok true) else .next
    | _ => .done (.error .raised)

/-- `RegexChecker.fits` threading the `lru_cache` of `self.compile` -/
def regexLoopC (stag etag : Char) (what : PyVal) : Lru CKey Compiled → List Elem → R × Lru CKey Compiled
  | c, [] => (.ok false, c)
  | c, .str e :: rest =>
    if !TagParser.tagged stag etag e then
      (if pyEq (.str e) what then (.ok true, c) else regexLoopC stag etag what c rest)
    else
      let r := c.call compileKey Compiled.keep (e, stag, etag)
      match elemWith r.1 what with
      | .next => regexLoopC stag etag what r.2.2 rest
      | .done x => (x, r.2.2)
  | c, _ :: rest => regexLoopC stag etag what c rest

def regexFitsC (c : Lru CKey Compiled) (p : Policy) (f : Field) (what : PyVal) : R × Lru CKey Compiled :=
  regexLoopC p.stag p.etag what c (p.field f)

/-- a history of `fits` calls through one checker -/
def runFits : Lru CKey Compiled → List (Policy × Field × PyVal) → List R × Lru CKey Compiled
  | c, [] => ([], c)
  | c, (p, f, w) :: rest =>
    let r := regexFitsC c p f w
    let t := runFits r.2 rest
    (r.1 :: t.1, t.2)

end Vakt
