import Model.Rules
import Proofs.Regex
import Proofs.Rules
/-!
# C05 — built-in rules mean what they say and compose as boolean algebra

Theorems about `Rule.eval` (the model of `Rule.satisfied`), for every rule tree, offered value
and inquiry.  `PyErr` has a single value, so "raises" is one outcome.
-/
namespace Vakt.C05
open Vakt PyVal Rule

/-- `Eq` is Python `==` (a tuple *argument* is compared as a list) -/
theorem eq_iff (v w : PyVal) (q : Option Inquiry) :
    eval (.eq v) w q = .ok (pyEq (tupleToList v) w) := by simp [eval]

theorem notEq_compl (v w : PyVal) (q : Option Inquiry) :
    eval (.notEq v) w q = (eval (.eq v) w q).map (!·) := by simp [eval, Except.map]

/-- the four ordering rules are the Python operators with the offered value on the left -/
theorem ordering_ops (v w : PyVal) (q : Option Inquiry) :
    eval (.greater v) w q = pyGt w v ∧ eval (.less v) w q = pyLt w v ∧
    eval (.greaterOrEqual v) w q = pyGe w v ∧ eval (.lessOrEqual v) w q = pyLe w v := by
  simp [eval]

theorem notIn_compl (d : List PyVal) (w : PyVal) (q : Option Inquiry) :
    eval (.notIn d) w q = (eval (.isIn d) w q).map (!·) := by simp [eval]

theorem allNotIn_compl (d : List PyVal) (w : PyVal) (q : Option Inquiry) :
    eval (.allNotIn d) w q = (eval (.allIn d) w q).map (!·) := by
  simp only [eval]
  cases w <;> simp [Except.map]
  rename_i xs
  cases toSet xs <;> simp

/-- `AnyNotIn` ("some offered item is outside") is the complement of `AllIn`, i.e. equals `AllNotIn` -/
theorem anyNotIn_eq_allNotIn (d : List PyVal) (w : PyVal) (q : Option Inquiry) :
    eval (.anyNotIn d) w q = eval (.allNotIn d) w q := by
  simp only [eval]
  cases w <;> simp [Except.map]
  rename_i xs
  cases toSet xs <;> simp [List.not_all_eq_any_not]

theorem falsy_compl (w : PyVal) (q : Option Inquiry) :
    eval .falsy w q = (eval .truthy w q).map (!·) := by simp [eval, Except.map]

theorem neither_compl (w : PyVal) (q : Option Inquiry) :
    eval .neither w q = (eval .any w q).map (!·) := by simp [eval, Except.map]

theorem not_negates (r : Rule) (w : PyVal) (q : Option Inquiry) :
    eval (.not r) w q = (eval r w q).map (!·) := by simp [eval]

theorem not_not (r : Rule) (w : PyVal) (q : Option Inquiry) :
    eval (.not (.not r)) w q = eval r w q := by
  simp only [eval]
  cases eval r w q <;> simp [Except.map]

/-- `And` over non-raising operands: satisfied iff non-empty and every operand is satisfied -/
theorem and_ok_iff (rs : List Rule) (w : PyVal) (q : Option Inquiry)
    (h : ∀ r ∈ rs, ∃ b, eval r w q = .ok b) :
    (∃ b, eval (.and rs) w q = .ok b) ∧
    (eval (.and rs) w q = .ok true ↔ rs ≠ [] ∧ ∀ r ∈ rs, eval r w q = .ok true) :=
  Rule.and_ok_iff rs w q h

/-- `And` evaluates every operand: it raises iff some operand raises -/
theorem and_raises_iff (rs : List Rule) (w : PyVal) (q : Option Inquiry) :
    (∃ e, eval (.and rs) w q = .error e) ↔ ∃ r ∈ rs, ∃ e, eval r w q = .error e :=
  Rule.and_raises_iff rs w q

theorem and_nil (w : PyVal) (q : Option Inquiry) : eval (.and []) w q = .ok false := by
  simp [eval, evalAll, Except.map]

/-- `Or` short-circuits: satisfied iff some operand is satisfied and all before it are unsatisfied
without raising -/
theorem or_ok_true_iff (rs : List Rule) (w : PyVal) (q : Option Inquiry) :
    eval (.or rs) w q = .ok true ↔
      ∃ pre r post, rs = pre ++ r :: post ∧ eval r w q = .ok true ∧ ∀ x ∈ pre, eval x w q = .ok false :=
  Rule.or_ok_true_iff rs w q

theorem or_nil (w : PyVal) (q : Option Inquiry) : eval (.or []) w q = .ok false := by
  simp [eval, evalAny]

/-- conjunction is commutative, raises included (every operand is evaluated in any order) -/
theorem and_perm (rs rs' : List Rule) (w : PyVal) (q : Option Inquiry) (hp : rs.Perm rs') :
    eval (.and rs) w q = eval (.and rs') w q :=
  Rule.and_perm rs rs' w q hp

/-- disjunction is commutative when no operand raises -/
theorem or_perm_noraise (rs rs' : List Rule) (w : PyVal) (q : Option Inquiry) (hp : rs.Perm rs')
    (h : ∀ r ∈ rs, ∃ b, eval r w q = .ok b) :
    eval (.or rs) w q = eval (.or rs') w q :=
  Rule.or_perm_noraise rs rs' w q hp h

/-- De Morgan, on non-empty non-raising operand lists -/
theorem de_morgan (rs : List Rule) (w : PyVal) (q : Option Inquiry) (hne : rs ≠ [])
    (h : ∀ r ∈ rs, ∃ b, eval r w q = .ok b) :
    eval (.not (.and rs)) w q = eval (.or (rs.map .not)) w q :=
  Rule.de_morgan rs w q hne h

/-- string rules never match (and never raise on) a non-`str` value -/
theorem string_rules_nonstr (v : List Char) (ci : Bool) (w : PyVal) (q : Option Inquiry)
    (hw : isStr w = false) :
    eval (.strEqual v ci) w q = .ok false ∧ eval (.startsWith v ci) w q = .ok false ∧
    eval (.endsWith v ci) w q = .ok false ∧ eval (.contains v ci) w q = .ok false := by
  cases w <;> simp_all [eval, isStr]

/-- case-sensitive forms are equality / prefix / suffix / infix on the code-point lists -/
theorem string_rules_cs (v s : List Char) (q : Option Inquiry) :
    eval (.strEqual v false) (.str s) q = .ok (s == v) ∧
    eval (.startsWith v false) (.str s) q = .ok (v.isPrefixOf s) ∧
    eval (.endsWith v false) (.str s) q = .ok (v.isSuffixOf s) ∧
    (eval (.contains v false) (.str s) q = .ok true ↔ v <:+: s) := by
  refine ⟨by simp [eval, fold], by simp [eval, fold], by simp [eval, fold], ?_⟩
  simp [eval, fold, PyVal.isInfix_iff]

/-- case-insensitive forms are the same predicates on the lower-cased operands -/
theorem string_rules_ci (v s : List Char) (q : Option Inquiry) :
    eval (.strEqual v true) (.str s) q = .ok (CharTable.lower s == CharTable.lower v) ∧
    eval (.startsWith v true) (.str s) q = .ok ((CharTable.lower v).isPrefixOf (CharTable.lower s)) ∧
    eval (.endsWith v true) (.str s) q = .ok ((CharTable.lower v).isSuffixOf (CharTable.lower s)) ∧
    (eval (.contains v true) (.str s) q = .ok true ↔ CharTable.lower v <:+: CharTable.lower s) := by
  refine ⟨by simp [eval, fold], by simp [eval, fold], by simp [eval, fold], ?_⟩
  simp [eval, fold, PyVal.isInfix_iff]

/-- the network rule is CIDR containment: the value parses as an address, the rule's argument as a strict
network of the same IP version (IPv4 with a decimal prefix, netmask or hostmask; IPv6 with a decimal prefix), and the
address agrees with the network on the prefix bits -/
theorem cidr_contains_iff (n a : List Char) (q : Option Inquiry) :
    eval (.cidr (.str n)) (.str a) q = .ok true ↔
      ∃ v ip net p, Cidr.parseAddr a = some (v, ip) ∧ Cidr.parseNet n = .ok v net p ∧
        ip / 2 ^ (Cidr.maxPrefix v - p) = net / 2 ^ (Cidr.maxPrefix v - p) := by
  simp only [eval, evalCidr]
  cases h1 : Cidr.parseAddr a with
  | none => simp
  | some av =>
    obtain ⟨av, ip⟩ := av
    cases h2 : Cidr.parseNet n with
    | ok nv net p =>
      simp only [Cidr.contains, Cidr.hostSize, Except.ok.injEq, Bool.and_eq_true, beq_iff_eq, Option.some.injEq,
        Prod.mk.injEq, Cidr.NetRes.ok.injEq]
      constructor
      · rintro ⟨rfl, h⟩; exact ⟨nv, ip, net, p, ⟨rfl, rfl⟩, ⟨rfl, rfl, rfl⟩, h⟩
      · rintro ⟨v, ip', net', p', ⟨rfl, rfl⟩, ⟨rfl, rfl, rfl⟩, h⟩; exact ⟨rfl, h⟩
    | invalid => simp
    | unmodelled => simp

/-- an address of one IP version is never inside a network of the other -/
theorem cidr_version_mismatch (nv net p av ip : Nat) (h : nv ≠ av) : Cidr.contains nv net p av ip = false := by
  simp [Cidr.contains, h]

/-- inquiry-matching rules compare with the current inquiry's own field -/
theorem inq_match_field (f : InqField) (w : PyVal) (q : Inquiry) :
    eval (.inqMatch f Option.none) w (some q) = .ok (pyEq w (q.field f)) := by simp [eval, evalInqMatch]

/-- … or with one attribute of it; a missing attribute or a non-dictionary field never matches -/
theorem inq_match_attr (f : InqField) (k : List Char) (w : PyVal) (q : Inquiry) :
    eval (.inqMatch f (some (.str k))) w (some q) =
      .ok (match q.field f with
           | .dict d => (match lookup k d with | some v => pyEq w v | Option.none => false)
           | _ => false) := by
  simp only [eval, evalInqMatch]
  cases q.field f <;> simp [hashable]
  rename_i d
  cases lookup k d <;> simp

/-- without an inquiry every inquiry rule is unsatisfied -/
theorem inq_none (f : InqField) (a : Option PyVal) (w : PyVal) :
    eval (.inqMatch f a) w Option.none = .ok false ∧ eval .subjectEqual w Option.none = .ok false ∧
    eval .actionEqual w Option.none = .ok false ∧ eval .resourceIn w Option.none = .ok false := by
  simp [eval, evalInqMatch]

/-! ### Non-vacuity -/
example : eval (.and [.greater (.int 3), .less (.int 9)]) (.int 5) Option.none = .ok true := by decide
example : eval (.and [.greater (.int 3), .less (.str ['a'])]) (.int 5) Option.none = .error .raised := by decide
example : eval (.or [.eq (.int 5), .raising]) (.int 5) Option.none = .ok true := by decide
/-- AnyIn and AnyNotIn are *not* complements (both hold here) -/
example : eval (.anyIn [.int 1]) (.list [.int 1, .int 2]) Option.none = .ok true ∧
    eval (.anyNotIn [.int 1]) (.list [.int 1, .int 2]) Option.none = .ok true := by decide

end Vakt.C05
