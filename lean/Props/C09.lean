import Model.Serialize
/-!
# C09 — persisted policies keep their meaning (document-level decoding, value codec, class table)

The full statement "a policy read back through any persistence path matches exactly the same
inquiries" is `C09_full` below; what is *proved* is its document-level part
(`policy_roundtrip_partial`: the decoding logic of `from_json` returns exactly the fields that were
written, for opaque field contents), the value codec round trip, the decoding clauses and the
injectivity of the class-name table.  That jsonpickle / pickle / SQLAlchemy rebuild each rule
object from its encoding is decided by the correspondence run, not proved.
-/
namespace Vakt.C09
open Vakt PyVal Vakt.Serialize

theorem lookup_filter_ne (k k' : List Char) (d : Doc) (h : k ≠ k') :
    lookup k (d.filter (fun kv => kv.1 != k')) = lookup k d := by
  induction d with
  | nil => rfl
  | cons x rest ih =>
    obtain ⟨a, v⟩ := x
    by_cases ha : a = k'
    · subst ha
      have hb : (a != a) = false := by simp
      have : ¬ k = a := h
      simp only [List.filter_cons, hb, Bool.false_eq_true, ↓reduceIte, lookup, this, ih]
    · have hb : (a != k') = true := by simp [ha]
      simp only [List.filter_cons, hb, ↓reduceIte, lookup, ih]

theorem lookup_filter_self (k : List Char) (d : Doc) :
    lookup k (d.filter (fun kv => kv.1 != k)) = Option.none := by
  induction d with
  | nil => rfl
  | cons x rest ih =>
    obtain ⟨a, v⟩ := x
    by_cases ha : a = k
    · subst ha
      have hb : (a != a) = false := by simp
      simp only [List.filter_cons, hb, Bool.false_eq_true, ↓reduceIte, ih]
    · have hb : (a != k) = true := by simp [ha]
      have : ¬ k = a := fun e => ha e.symm
      simp only [List.filter_cons, hb, ↓reduceIte, lookup, this, ih]

theorem lookup_append' (k : List Char) (a b : Doc) :
    lookup k (a ++ b) = (lookup k a).orElse (fun _ => lookup k b) := by
  induction a with
  | nil => simp [lookup]
  | cons x rest ih =>
    obtain ⟨a', v⟩ := x
    simp only [List.cons_append, lookup]
    split
    · simp
    · exact ih

theorem get_erase_ne (k k' : String) (d : Doc) (h : k.toList ≠ k'.toList) :
    Serialize.get k (Serialize.erase k' d) = Serialize.get k d := by
  unfold Serialize.get Serialize.erase
  rw [lookup_filter_ne _ _ d h]

theorem has_erase_ne (k k' : String) (d : Doc) (h : k.toList ≠ k'.toList) :
    Serialize.has k (Serialize.erase k' d) = Serialize.has k d := by
  unfold Serialize.has Serialize.erase
  rw [lookup_filter_ne _ _ d h]

theorem get_put_ne (k k' : String) (v : PyVal) (d : Doc) (h : k.toList ≠ k'.toList) :
    Serialize.get k (Serialize.put k' v d) = Serialize.get k d := by
  have hk : ¬ k.toList = k'.toList := h
  unfold Serialize.get Serialize.put Serialize.erase
  rw [lookup_append', lookup_filter_ne _ _ d h]
  cases lookup k.toList d <;> simp [lookup, hk]

theorem get_put_self (k : String) (v : PyVal) (d : Doc) :
    Serialize.get k (Serialize.put k v d) = v := by
  unfold Serialize.get Serialize.put Serialize.erase
  rw [lookup_append', lookup_filter_self]
  simp [lookup]

theorem has_false_get (k : String) (d : Doc) (h : Serialize.has k d = false) : Serialize.get k d = .none := by
  unfold Serialize.has at h
  unfold Serialize.get
  cases hl : lookup k.toList d with
  | none => rfl
  | some v => rw [hl] at h; simp at h

/-- a document without a uid is refused -/
theorem decode_no_uid_refused (d : Doc) (h : has "uid" d = false) : fromDoc d = .error .creation := by
  simp [fromDoc, h]

/-- what `fromDoc` hands to the constructor -/
def propsOf (d : Doc) : Doc :=
  erase "type" (put "context"
    (if has "context" d then get "context" d else if has "rules" d then get "rules" d else .list [])
    (if has "context" d then d else if has "rules" d then erase "rules" d else d))

theorem fromDoc_eq (d : Doc) (h : has "uid" d = true) : fromDoc d = construct (propsOf d) := by
  unfold fromDoc propsOf
  simp only [h, Bool.not_true, Bool.false_eq_true, ↓reduceIte]
  by_cases hc : has "context" d = true
  · simp [hc]
  · by_cases hr : has "rules" d = true
    · simp [hc, hr]
    · simp [hc, hr]

/-- reading stored data never lets it override the computed policy type: a stored `type` field is
dropped before the policy is built -/
theorem decode_type_ignored (d : Doc) : has "type" (propsOf d) = false := by
  simp [propsOf, has, erase, lookup_filter_self]

theorem effect_of_props (d : Doc) : get "effect" (propsOf d) = get "effect" d := by
  unfold propsOf
  rw [get_erase_ne _ _ _ (by decide), get_put_ne _ _ _ _ (by decide)]
  split
  · rfl
  · split
    · exact get_erase_ne _ _ _ (by decide)
    · rfl

theorem construct_effect (p : Doc) (r : Decoded) (h : construct p = .ok r) :
    r.effect = if truthy (get "effect" p) then get "effect" p else .str Generated.denyConst := by
  unfold construct at h
  split at h
  · cases h
  · split at h
    · simp only [Except.ok.injEq] at h; rw [← h]
    · cases h

/-- a missing effect is treated as deny -/
theorem decode_missing_effect_deny (d : Doc) (r : Decoded) (hu : has "uid" d = true)
    (he : has "effect" d = false) (h : fromDoc d = .ok r) : r.effect = .str Generated.denyConst := by
  rw [fromDoc_eq d hu] at h
  have := construct_effect _ r h
  rw [effect_of_props] at this
  have hg : Serialize.get "effect" d = .none := has_false_get _ _ he
  simp [this, hg, truthy]

/-- an empty (falsy) effect is treated as deny -/
theorem decode_empty_effect_deny (d : Doc) (r : Decoded) (hu : has "uid" d = true)
    (he : truthy (get "effect" d) = false) (h : fromDoc d = .ok r) : r.effect = .str Generated.denyConst := by
  rw [fromDoc_eq d hu] at h
  have := construct_effect _ r h
  rw [effect_of_props] at this
  simp [this, he]

theorem construct_context (p : Doc) (r : Decoded) (h : construct p = .ok r) :
    r.context = (match get "context" p with
      | .none => if truthy (get "rules" p) then get "rules" p else .list []
      | c => c) := by
  unfold construct at h
  split at h
  · cases h
  · split at h
    · simp only [Except.ok.injEq] at h; subst h; rfl
    · cases h

/-- the deprecated `rules` field becomes the context when there is no `context` field -/
theorem decode_legacy_rules_to_context (d : Doc) (r : Decoded) (ks : List PyVal) (hu : has "uid" d = true)
    (hc : has "context" d = false) (hr : has "rules" d = true) (hv : get "rules" d = .list ks)
    (h : fromDoc d = .ok r) : r.context = .list ks := by
  rw [fromDoc_eq d hu] at h
  have := construct_context _ r h
  have hctx : get "context" (propsOf d) = .list ks := by
    unfold propsOf
    rw [get_erase_ne _ _ _ (by decide)]
    simp only [hc, Bool.false_eq_true, ↓reduceIte, hr, hv]
    exact get_put_self _ _ _
  rw [hctx] at this
  exact this

/-- when both are present, `context` wins -/
theorem decode_context_wins (d : Doc) (r : Decoded) (ks : List PyVal) (hu : has "uid" d = true)
    (hc : has "context" d = true) (hv : get "context" d = .list ks) (h : fromDoc d = .ok r) :
    r.context = .list ks := by
  rw [fromDoc_eq d hu] at h
  have := construct_context _ r h
  have hctx : get "context" (propsOf d) = .list ks := by
    unfold propsOf
    rw [get_erase_ne _ _ _ (by decide)]
    simp only [hc, ↓reduceIte, hv]
    exact get_put_self _ _ _
  rw [hctx] at this
  exact this

/-- a field the constructor does not know is refused -/
theorem decode_unknown_field_refused (p : Doc) (k : List Char) (v : PyVal) (hk : (k, v) ∈ p)
    (hn : (knownArgs.map String.toList).contains k = false) : construct p = .error .typeError := by
  unfold construct
  have : p.any (fun kv => !(knownArgs.map String.toList).contains kv.1) = true :=
    List.any_eq_true.2 ⟨(k, v), hk, by simp only [hn]; rfl⟩
  simp only [this, ↓reduceIte]

theorem retag_plain (kvs : List (List Char × PyVal)) (h : ∀ k x, (k, x) ∈ kvs → k ≠ tagTuple) :
    retag kvs = .dict kvs := by
  unfold retag
  split
  · rename_i k xs
    have := h k (.list xs) (by simp)
    simp [this]
  · rfl

theorem noTagsKVs_keys : ∀ (kvs : List (List Char × PyVal)), noTagsKVs kvs = true →
    ∀ k x, (k, x) ∈ kvs → k ≠ tagTuple
  | [], _, k, x, hm => by simp at hm
  | (k0, v0) :: rest, h, k, x, hm => by
    simp only [noTagsKVs, Bool.and_eq_true, bne_iff_ne, ne_eq] at h
    rcases List.mem_cons.1 hm with e | e
    · cases e; exact h.1.1
    · exact noTagsKVs_keys rest h.2 k x e

mutual
theorem dec_enc_val : ∀ v : PyVal, noTags v = true → decVal (encVal v) = v
  | .none, _ => rfl
  | .bool _, _ => rfl
  | .int _, _ => rfl
  | .flt _ _, _ => rfl
  | .str _, _ => rfl
  | .list xs, h => by
    simp only [noTags] at h
    simp [encVal, decVal, dec_enc_list xs h]
  | .tuple xs, h => by
    simp only [noTags] at h
    simp [encVal, decVal, decKVs, retag, dec_enc_list xs h]
  | .dict kvs, h => by
    simp only [noTags] at h
    simp only [encVal, decVal, dec_enc_kvs kvs h]
    exact retag_plain kvs (noTagsKVs_keys kvs h)
theorem dec_enc_list : ∀ xs : List PyVal, noTagsList xs = true → decList (encList xs) = xs
  | [], _ => rfl
  | x :: xs, h => by
    simp only [noTagsList, Bool.and_eq_true] at h
    simp [encList, decList, dec_enc_val x h.1, dec_enc_list xs h.2]
theorem dec_enc_kvs : ∀ kvs : List (List Char × PyVal), noTagsKVs kvs = true → decKVs (encKVs kvs) = kvs
  | [], _ => rfl
  | (k, v) :: rest, h => by
    simp only [noTagsKVs, Bool.and_eq_true] at h
    simp [encKVs, decKVs, dec_enc_val v h.1.2, dec_enc_kvs rest h.2]
end

/-- the JSON text's value codec is lossless: tuples (tagged) and nested containers come back as
they were, provided no dictionary uses jsonpickle's reserved tag as a key -/
theorem value_roundtrip (v : PyVal) (h : noTags v = true) : decVal (encVal v) = v := dec_enc_val v h

/-- the document a policy is written as -/
def toDoc (r : Decoded) (typ : PyVal) : Doc :=
  [("uid".toList, r.uid), ("type".toList, typ), ("subjects".toList, r.subjects), ("effect".toList, r.effect),
   ("resources".toList, r.resources), ("actions".toList, r.actions), ("context".toList, r.context),
   ("description".toList, r.description)]

/-- **document-level round trip** (the proved part of C09): whatever the field contents are, a policy
whose effect is truthy and whose context is a dictionary is read back from the document it was
written as with exactly its uid, effect, description, elements and context — and the stored
`type` plays no role -/
theorem policy_roundtrip_partial (r : Decoded) (typ : PyVal)
    (hc : isDictLike r.context = true) (he : truthy r.effect = true) : fromDoc (toDoc r typ) = .ok r := by
  obtain ⟨uid, eff, desc, subj, res, act, ctx⟩ := r
  simp only at hc he
  cases ctx <;> simp [isDictLike] at hc <;>
    simp [fromDoc, toDoc, Serialize.has, Serialize.get, Serialize.put, Serialize.erase, lookup, construct, knownArgs, he,
      isDictLike, ctxOf]

end Vakt.C09
