import Model.Guard
import Proofs.Cache
/-!
# C16 — a decision is a pure function of the policy set and the inquiry

The only state a guard keeps between decisions is the regex checker's compile cache.  The
theorems show that threading a cache of any capacity through any history of `fits` calls gives
exactly the answers of the cache-free checker; the decision (a function of those answers, C01)
is therefore independent of history and capacity.  That asking does not modify the stored
policies or the inquiry is structural in the model (its functions are pure) and is decided for
the code by the correspondence run (canonical dumps before/after every ask).
-/
namespace Vakt.C16
open Vakt PyVal

theorem regexElem_eq_elemWith (stag etag : Char) (e : List Char) (what : PyVal)
    (ht : TagParser.tagged stag etag e = true) :
    regexElem stag etag e what = elemWith (compileKey (e, stag, etag)) what := by
  simp only [regexElem, ht, Bool.not_true, Bool.false_eq_true, ↓reduceIte, compileKey]
  cases TagParser.scan stag etag e with
  | none => rfl
  | some ps =>
    simp only
    cases piecesRe ps <;> rfl

/-- one `fits` call: same answer as the cache-free checker, and the cache stays honest -/
theorem fits_cache_transparent (stag etag : Char) (what : PyVal) (es : List Elem) :
    ∀ c : Lru CKey Compiled, Lru.Inv compileKey c →
      (regexLoopC stag etag what c es).1 = regexLoop stag etag what es ∧
      Lru.Inv compileKey (regexLoopC stag etag what c es).2 := by
  induction es with
  | nil => intro c h; exact ⟨rfl, h⟩
  | cons x rest ih =>
    intro c h
    cases x with
    | str e =>
      simp only [regexLoopC, regexLoop]
      by_cases ht : TagParser.tagged stag etag e = true
      · have hc := Lru.call_transparent compileKey Compiled.keep c (e, stag, etag) h
        simp only [ht, Bool.not_true, Bool.false_eq_true, ↓reduceIte, regexElem_eq_elemWith stag etag e what ht,
          hc.1]
        cases elemWith (compileKey (e, stag, etag)) what with
        | next => exact ih _ hc.2
        | done r => exact ⟨rfl, hc.2⟩
      · have ht' : TagParser.tagged stag etag e = false := by simpa using ht
        simp only [ht', Bool.not_false, ↓reduceIte, regexElem]
        split
        · exact ⟨rfl, h⟩
        · exact ih c h
    | rule r => simpa [regexLoopC, regexLoop] using ih c h
    | attrs kvs => simpa [regexLoopC, regexLoop] using ih c h

/-- any history of `fits` calls, any starting cache capacity (None, 0, 1, 2, …): every answer is
the cache-free answer — nothing a previous question left behind influences a later one -/
theorem history_independent (cap : Option Nat) (calls : List (Policy × Field × PyVal)) :
    (runFits (Lru.empty cap) calls).1 = calls.map (fun c => regexFits c.1 c.2.1 c.2.2) := by
  have gen : ∀ (calls : List (Policy × Field × PyVal)) (c : Lru CKey Compiled), Lru.Inv compileKey c →
      (runFits c calls).1 = calls.map (fun c => regexFits c.1 c.2.1 c.2.2) := by
    intro calls
    induction calls with
    | nil => intro c _; rfl
    | cons x rest ih =>
      intro c h
      obtain ⟨p, f, w⟩ := x
      have := fits_cache_transparent p.stag p.etag w (p.field f) c h
      simp only [runFits, regexFitsC, List.map_cons, this.1, ih _ this.2, regexFits]
  exact gen calls _ (Lru.inv_empty compileKey cap)

/-- asking again right away gives the same answer (special case, stated for emphasis) -/
theorem ask_twice_same (cap : Option Nat) (p : Policy) (f : Field) (w : PyVal) :
    (runFits (Lru.empty cap) [(p, f, w), (p, f, w)]).1 = [regexFits p f w, regexFits p f w] :=
  history_independent cap _

end Vakt.C16
