import Model.Enfold
import Proofs.Store
/-!
# C12 — the enfolding storage cache stays coherent with its backend
-/
namespace Vakt.C12
open Vakt.Store Vakt.Enfold

theorem coherent_lookup_iff {s : EState} (h : Coherent s) (u : Uid) :
    lookup u s.cache = lookup u s.backend := h.2.2 u

/-- feeding bindings whose uids are new to the cache appends them all -/
theorem feed_fresh : ∀ (l c : St), Distinct (c ++ l) → feed c l = (c ++ l, .done) := by
  intro l
  induction l with
  | nil => intro c _; simp [feed]
  | cons x rest ih =>
    intro c hd
    obtain ⟨u, p⟩ := x
    have hnone : lookup u c = none := by
      rw [lookup_none_iff]
      rw [distinct_iff_nodup] at hd
      simp only [keys, List.map_append, List.map_cons] at hd
      intro hm
      have := (List.nodup_append.1 hd).2.2 u hm u (by simp)
      exact this rfl
    simp only [feed, Store.step, Bool.not_true, Bool.false_eq_true, ↓reduceIte, hnone]
    have : c ++ (u, p) :: rest = (c ++ [(u, p)]) ++ rest := by simp
    rw [this] at hd ⊢
    exact ih _ hd

/-- feeding to a cache that already holds the first uid stops at once and leaves the cache as it was -/
theorem feed_existing (c : St) (u : Uid) (p p0 : Pol) (rest : St) (h : lookup u c = some p0) :
    feed c ((u, p) :: rest) = (c, .existsErr) := by
  simp [feed, Store.step, h]

/-- **coherence is invariant**: once cache and backend hold the same policies, every operation
issued through the enfolding cache keeps it so — backend failures included -/
theorem enfold_inv (cfg : Cfg) (s : EState) (op : EOp) (h : Coherent s) : Coherent (Enfold.step cfg s op).1 := by
  obtain ⟨hc, hb, hl⟩ := h
  cases op with
  | add u p ok =>
    simp only [Enfold.step, Store.step]
    cases ok with
    | false => exact ⟨hc, hb, hl⟩
    | true =>
      simp only [Bool.not_true, Bool.false_eq_true, ↓reduceIte]
      cases hlb : lookup u s.backend with
      | some p0 => exact ⟨hc, hb, hl⟩
      | none =>
        have hlc : lookup u s.cache = none := by rw [hl u, hlb]
        simp only [hlc]
        refine ⟨distinct_snoc u p _ hc hlc, distinct_snoc u p _ hb hlb, fun u' => ?_⟩
        rw [lookup_append, lookup_append, hl u']
  | update u p ok =>
    simp only [Enfold.step, Store.step]
    by_cases he : (cfg.eagerConvert && !ok) = true
    · simp only [he, ↓reduceIte]; exact ⟨hc, hb, hl⟩
    · simp only [he, Bool.false_eq_true, ↓reduceIte]
      cases hlb : lookup u s.backend with
      | none =>
        have hlc : lookup u s.cache = none := by rw [hl u, hlb]
        simp only [hlc, memCfg, Bool.false_and, Bool.false_eq_true, ↓reduceIte]
        exact ⟨hc, hb, hl⟩
      | some p0 =>
        have hlc : lookup u s.cache = some p0 := by rw [hl u, hlb]
        cases ok with
        | false => simp only [Bool.not_false, ↓reduceIte]; exact ⟨hc, hb, hl⟩
        | true =>
          simp only [Bool.not_true, Bool.false_eq_true, ↓reduceIte, hlc, memCfg, Bool.and_false]
          refine ⟨distinct_replace u p _ hc, distinct_replace u p _ hb, fun u' => ?_⟩
          rw [lookup_replace, lookup_replace, hl u', hl u]
  | delete u =>
    simp only [Enfold.step, Store.step]
    refine ⟨distinct_erase u _ hc, distinct_erase u _ hb, fun u' => ?_⟩
    by_cases e : u' = u
    · subst e; rw [lookup_erase_self u' _ hc, lookup_erase_self u' _ hb]
    · rw [lookup_erase_ne u u' _ e, lookup_erase_ne u u' _ e, hl u']
  | get u =>
    simp only [Enfold.step]
    split <;> exact ⟨hc, hb, hl⟩
  | getAll l o =>
    simp only [Enfold.step]
    split <;> exact ⟨hc, hb, hl⟩
  | retrieveAll b =>
    simp only [Enfold.step]
    split <;> exact ⟨hc, hb, hl⟩
  | populate batch =>
    simp only [Enfold.step]
    -- every binding the backend yields is already in the cache: the first `add` is refused, nothing changes
    have key : (feed s.cache (retrieveAll (listing cfg s.backend) batch)).1 = s.cache := by
      cases hall : retrieveAll (listing cfg s.backend) batch with
      | nil => simp [feed]
      | cons x rest =>
        obtain ⟨u, p⟩ := x
        have hmem : (u, p) ∈ listing cfg s.backend := by
          by_cases hb0 : batch = 0
          · subst hb0
            simp [retrieveAll, retrieveLoop, page] at hall
          · have := retrieveLoop_eq (listing cfg s.backend) batch (Nat.pos_of_ne_zero hb0)
              ((listing cfg s.backend).length + 1) 0 (by omega)
            unfold retrieveAll at hall
            rw [this] at hall
            simp only [List.drop_zero] at hall
            rw [hall]; simp
        have hperm : (listing cfg s.backend).Perm s.backend := by
          unfold listing; split
          · exact sortUid_perm _
          · exact List.Perm.refl _
        have hmb : (u, p) ∈ s.backend := hperm.mem_iff.1 hmem
        have hlb : lookup u s.backend = some p := (lookup_some_iff_mem u p _ hb).2 hmb
        have hlc : lookup u s.cache = some p := by rw [hl u, hlb]
        rw [feed_existing s.cache u p p rest hlc]
    rw [key]
    exact ⟨hc, hb, hl⟩
  | fault => exact ⟨hc, hb, hl⟩

/-- over every history -/
theorem history_coherent (cfg : Cfg) (ops : List EOp) : ∀ s, Coherent s → Coherent (Enfold.run cfg s ops).1 := by
  induction ops with
  | nil => intro s h; exact h
  | cons op rest ih => intro s h; exact ih _ (enfold_inv cfg s op h)

/-- lookup by uid through the cache returns what the backend alone would return -/
theorem get_eq_backend (cfg : Cfg) (s : EState) (u : Uid) (h : Coherent s) :
    (Enfold.step cfg s (.get u)).2.1 = .pol (lookup u s.backend) := by
  simp only [Enfold.step]
  cases hc : lookup u s.cache with
  | none => rfl
  | some p => simp only; rw [← h.2.2 u, hc]

/-- full retrieval through the cache yields the backend's policies, each exactly once -/
theorem retrieveAll_eq_backend (cfg : Cfg) (s : EState) (b : Nat) (hb : 0 < b) (h : Coherent s) :
    ∃ l, (Enfold.step cfg s (.retrieveAll b)).2.1 = .pols l ∧ l.Perm s.backend := by
  have hperm : s.cache.Perm s.backend := perm_of_same_lookup _ _ h.1 h.2.1 h.2.2
  have hlist : (listing cfg s.backend).Perm s.backend := by
    unfold listing; split
    · exact sortUid_perm _
    · exact List.Perm.refl _
  have hbi : ¬ ((b : Int) < 0) := by omega
  have hr1 : retrieveAll (listing memCfg s.cache) b = s.cache := by
    unfold retrieveAll
    rw [retrieveLoop_eq _ b hb _ 0 (by omega)]
    simp [listing, memCfg]
  have hr2 : retrieveAll (listing cfg s.backend) b = listing cfg s.backend := by
    unfold retrieveAll
    rw [retrieveLoop_eq _ b hb _ 0 (by omega)]
    simp
  simp only [Enfold.step, Store.step, hbi, decide_false, Bool.false_eq_true, ↓reduceIte, Int.toNat_natCast, hr1, hr2]
  cases hcache : s.cache with
  | nil =>
    refine ⟨listing cfg s.backend, rfl, hlist⟩
  | cons x xs =>
    refine ⟨x :: xs, rfl, ?_⟩
    rw [← hcache]; exact hperm

/-- if a backend mutation fails the error is propagated and neither store changes -/
theorem failure_propagates_unchanged (cfg : Cfg) (s : EState) (op : EOp)
    (hfail : match op with
      | .add u p ok => (Store.step cfg s.backend (.add u p ok)).2 ≠ .done
      | .update u p ok => (Store.step cfg s.backend (.update u p ok)).2 ≠ .done
      | .fault => True
      | _ => False) :
    (Enfold.step cfg s op).1 = s ∧
    (Enfold.step cfg s op).2.1 = (match op with
      | .add u p ok => (Store.step cfg s.backend (.add u p ok)).2
      | .update u p ok => (Store.step cfg s.backend (.update u p ok)).2
      | .fault => .rejected
      | _ => .done) := by
  cases op with
  | add u p ok =>
    simp only at hfail ⊢
    simp only [Enfold.step]
    cases hstep : Store.step cfg s.backend (.add u p ok) with
    | mk b' o =>
      rw [hstep] at hfail
      cases o <;> simp_all
  | update u p ok =>
    simp only at hfail ⊢
    simp only [Enfold.step]
    cases hstep : Store.step cfg s.backend (.update u p ok) with
    | mk b' o =>
      rw [hstep] at hfail
      cases o <;> simp_all
  | delete u => exact absurd hfail id
  | get u => exact absurd hfail id
  | getAll l o => exact absurd hfail id
  | retrieveAll b => exact absurd hfail id
  | populate b => exact absurd hfail id
  | fault => exact ⟨rfl, rfl⟩

/-- the value returned by a mutation is the backend's -/
theorem mutation_returns_backend_value (cfg : Cfg) (s : EState) (u : Uid) (p : Pol) (ok : Bool) (h : Coherent s) :
    (Enfold.step cfg s (.add u p ok)).2.1 = (Store.step cfg s.backend (.add u p ok)).2 ∧
    (Enfold.step cfg s (.update u p ok)).2.1 = (Store.step cfg s.backend (.update u p ok)).2 := by
  obtain ⟨hc, hb, hl⟩ := h
  constructor
  · simp only [Enfold.step, Store.step]
    cases ok with
    | false => simp
    | true =>
      simp only [Bool.not_true, Bool.false_eq_true, ↓reduceIte]
      cases hlb : lookup u s.backend with
      | some p0 => simp
      | none =>
        have hlc : lookup u s.cache = none := by rw [hl u, hlb]
        simp [hlc]
  · simp only [Enfold.step, Store.step]
    by_cases he : (cfg.eagerConvert && !ok) = true
    · simp [he]
    · simp only [he, Bool.false_eq_true, ↓reduceIte]
      cases hlb : lookup u s.backend with
      | none =>
        have hlc : lookup u s.cache = none := by rw [hl u, hlb]
        simp [hlc, memCfg]
      | some p0 =>
        have hlc : lookup u s.cache = some p0 := by rw [hl u, hlb]
        cases ok <;> simp [hlc, memCfg]

/-- reads that the populated cache can answer do not touch the backend -/
theorem populated_read_no_backend_touch (cfg : Cfg) (s : EState) (u : Uid) (p : Pol) (h : Coherent s)
    (hp : lookup u s.backend = some p) : (Enfold.step cfg s (.get u)).2.2 = false := by
  have : lookup u s.cache = some p := by rw [h.2.2 u, hp]
  simp [Enfold.step, this]

/-- population with any positive batch size, from an empty cache, establishes coherence -/
theorem populate_any_batch (cfg : Cfg) (backend : St) (b : Nat) (hb : 0 < b) (hd : Distinct backend) :
    Coherent (Enfold.step cfg ⟨[], backend⟩ (.populate b)).1 ∧ (Enfold.step cfg ⟨[], backend⟩ (.populate b)).2.1 = .done := by
  have hperm : (listing cfg backend).Perm backend := by
    unfold listing; split
    · exact sortUid_perm _
    · exact List.Perm.refl _
  have hdl : Distinct (listing cfg backend) := distinct_perm hperm.symm hd
  have hr : retrieveAll (listing cfg backend) b = listing cfg backend := by
    unfold retrieveAll
    rw [retrieveLoop_eq _ b hb _ 0 (by omega)]
    simp
  have hf := feed_fresh (listing cfg backend) [] (by simpa using hdl)
  simp only [Enfold.step, hr, hf, List.nil_append]
  exact ⟨⟨hdl, hd, fun u => lookup_perm u hperm hdl⟩, trivial⟩

/-! ### Non-vacuity -/
example : (Enfold.run ⟨true, false⟩ ⟨[], [("b".toList, 1), ("a".toList, 2)]⟩
    [.populate 1, .add "c".toList 3 true, .add "a".toList 4 true, .update "b".toList 5 false, .get "b".toList]).2 =
    [(.done, true), (.done, true), (.existsErr, true), (.rejected, true), (.pol (some 1), false)] := by decide

end Vakt.C12
