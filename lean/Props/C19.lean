import Model.MongoMig
/-!
# C19 — Mongo data migrations preserve policy meaning and are reversible
-/
namespace Vakt.C19
open Vakt PyVal Vakt.Serialize Vakt.MongoMig

/-- no document is ever dropped, whatever the processor does -/
theorem never_dropped (proc : MDoc → Except MErr MDoc) (docs : List MDoc) :
    (eachDoc proc docs).1.length = docs.length := by
  induction docs with
  | nil => rfl
  | cons d rest ih =>
    simp only [eachDoc]
    split <;> simp [ih]

/-- the collection after a migration step, document by document: converted, or — when the processor
raised (irreversible or anything else) — exactly as it was; and every such document is reported -/
theorem irreversible_untouched_reported (proc : MDoc → Except MErr MDoc) (docs : List MDoc) :
    (eachDoc proc docs).1 = docs.map (fun d => match proc d with | .ok d' => d' | .error _ => d) ∧
    (eachDoc proc docs).2 = docs.filter (fun d => match proc d with | .ok _ => false | .error _ => true) := by
  induction docs with
  | nil => exact ⟨rfl, rfl⟩
  | cons d rest ih =>
    simp only [eachDoc, List.map_cons, List.filter_cons]
    cases h : proc d with
    | ok d' => simp [ih.1, ih.2]
    | error e => simp [ih.1, ih.2]

/-! ### the class-rename table of migration 3 (regenerated from the source) -/

/-- old and new names are each pairwise distinct and no name is both old and new: renaming up and
then down is the identity on legacy names, and names that are not legacy are not touched by `up` -/
theorem rename_table_ok :
    (renameOldNew.map Prod.fst).Nodup ∧ (renameOldNew.map Prod.snd).Nodup ∧
    (∀ o ∈ renameOldNew.map Prod.fst, o ∉ renameOldNew.map Prod.snd) ∧
    (∀ p ∈ renameOldNew, renameDown (renameUp p.1) = p.1 ∧ renameUp p.1 = p.2) ∧
    (∀ p ∈ renameOldNew, m3Refuses p.2 = false) := by decide +kernel

theorem renameUp_other (c : List Char) (h : c ∉ renameOldNew.map Prod.fst) : renameUp c = c := by
  unfold renameUp
  cases hf : renameOldNew.find? (fun p => p.1 == c) with
  | none => rfl
  | some p =>
    have hm := List.mem_of_find?_eq_some hf
    have he := List.find?_some hf
    simp only [beq_iff_eq] at he
    exact absurd (List.mem_map.2 ⟨p, hm, he⟩) h

theorem renameDown_other (c : List Char) (h : c ∉ renameOldNew.map Prod.snd) : renameDown c = c := by
  unfold renameDown
  cases hf : renameOldNew.find? (fun p => p.2 == c) with
  | none => rfl
  | some p =>
    have hm := List.mem_of_find?_eq_some hf
    have he := List.find?_some hf
    simp only [beq_iff_eq] at he
    exact absurd (List.mem_map.2 ⟨p, hm, he⟩) h

/-- every rule class of this tree that did not exist in the 1.1.1 layout — i.e. is neither a legacy
name nor the new name of a legacy class — is refused by migration 3 `down`, so a policy using it
is left untouched and reported rather than silently rewritten into a layout that cannot hold it -/
theorem m3_irreversible_complete :
    ∀ p ∈ Generated.m3DownRefuses,
      (startsWith "vakt.rules.".toList p.1.toList = true ∧ p.1.toList ∉ renameOldNew.map Prod.fst ∧
        p.1.toList ∉ renameOldNew.map Prod.snd) → p.2 = true := by decide +kernel

/-- custom (non-vakt) rule classes are not refused by migration 3 -/
theorem m3_custom_kept : m3Refuses "myapp.rules.Custom".toList = false := by decide +kernel

/-- one rule through migration 3 up and down again comes back as it was (legacy or custom class) -/
theorem m3_rule_roundtrip (r : MDoc) (t : List Char) (hl : lookup objTag r = some (.str t))
    (hu : ∀ kv ∈ r, kv.1 = objTag → kv.2 = .str t)
    (hleg : t ∈ renameOldNew.map Prod.fst ∨ (t ∉ renameOldNew.map Prod.fst ∧ t ∉ renameOldNew.map Prod.snd ∧ m3Refuses t = false)) :
    (m3upRule (.dict r)).bind m3downRule = .ok (.dict r) := by
  have hset : ∀ (t1 t2 : List Char) (r : MDoc), (∀ kv ∈ r, kv.1 = objTag → kv.2 = .str t2) →
      (r.map fun kv => if kv.1 == objTag then (objTag, PyVal.str t1) else kv).map
        (fun kv => if kv.1 == objTag then (objTag, PyVal.str t2) else kv) = r := by
    intro t1 t2 r
    induction r with
    | nil => intro _; rfl
    | cons kv rest ih =>
      intro h
      obtain ⟨k, v⟩ := kv
      simp only [List.map_cons]
      rw [ih (fun x hx => h x (by simp [hx]))]
      by_cases hk : k = objTag
      · have := h (k, v) (by simp) hk
        simp only at this
        subst hk; simp [this]
      · simp [hk]
  have hlook : ∀ (t1 : List Char), lookup objTag (r.map fun kv => if kv.1 == objTag then (objTag, PyVal.str t1) else kv)
      = some (.str t1) := by
    intro t1
    have : ∀ (r : MDoc) (v : PyVal), lookup objTag r = some v →
        lookup objTag (r.map fun kv => if kv.1 == objTag then (objTag, PyVal.str t1) else kv) = some (.str t1) := by
      intro r
      induction r with
      | nil => intro v h; simp [lookup] at h
      | cons kv rest ih =>
        intro v h
        obtain ⟨k, w⟩ := kv
        simp only [lookup] at h
        by_cases hk : objTag = k
        · subst hk; simp [lookup]
        · simp only [hk, ↓reduceIte] at h
          have hk' : ¬ k = objTag := fun e => hk e.symm
          have hb : (k == objTag) = false := by simp [hk']
          simp only [List.map_cons, hb, Bool.false_eq_true, ↓reduceIte, lookup, hk]
          exact ih v h
    exact this r _ hl
  simp only [m3upRule, hl, Except.bind, m3downRule, hlook]
  have hnr : m3Refuses (renameUp t) = false := by
    rcases hleg with h | ⟨h1, _, h3⟩
    · obtain ⟨p, hp, rfl⟩ := List.mem_map.1 h
      rw [(rename_table_ok.2.2.2.1 p hp).2]
      exact rename_table_ok.2.2.2.2 p hp
    · rw [renameUp_other t h1]; exact h3
  have hback : renameDown (renameUp t) = t := by
    rcases hleg with h | ⟨h1, h2, _⟩
    · obtain ⟨p, hp, rfl⟩ := List.mem_map.1 h
      exact (rename_table_ok.2.2.2.1 p hp).1
    · rw [renameUp_other t h1, renameDown_other t h2]
  simp only [hnr, Bool.false_eq_true, ↓reduceIte, hback]
  rw [hset (renameUp t) t r hu]

/-- migration 4 `down` removes the compiled-pattern fields and nothing else, and is idempotent -/
theorem m4down_spec (d : MDoc) :
    (∃ d', m4down d = .ok d' ∧ (∀ kv ∈ d', kv ∈ d) ∧
      (∀ kv ∈ d, !(compiledFields.map String.toList).contains kv.1 → kv ∈ d') ∧
      (∀ kv ∈ d', (compiledFields.map String.toList).contains kv.1 = false) ∧ m4down d' = .ok d') := by
  refine ⟨_, rfl, ?_, ?_, ?_, ?_⟩
  · intro kv h; exact (List.mem_filter.1 h).1
  · intro kv h hn; exact List.mem_filter.2 ⟨h, hn⟩
  · intro kv h; simpa using (List.mem_filter.1 h).2
  · simp [m4down, List.filter_filter]

theorem lookup_append_none (k : List Char) (a b : MDoc) (ha : lookup k a = Option.none) :
    lookup k (a ++ b) = lookup k b := by
  induction a with
  | nil => rfl
  | cons x rest ih =>
    obtain ⟨k', v⟩ := x
    simp only [lookup] at ha
    by_cases hk : k = k'
    · simp [hk] at ha
    · simp only [hk, ↓reduceIte] at ha
      simp [lookup, hk, ih ha]

theorem dictUpdate_fresh : ∀ (c base : MDoc), (∀ kv ∈ c, lookup kv.1 base = Option.none) →
    (c.map Prod.fst).Nodup → dictUpdate base c = base ++ c := by
  intro c
  induction c with
  | nil => intro base _ _; simp [dictUpdate]
  | cons kv rest ih =>
    intro base h hnd
    obtain ⟨k, v⟩ := kv
    have hk := h (k, v) (by simp)
    simp only at hk
    simp only [List.map_cons, List.nodup_cons] at hnd
    simp only [dictUpdate, hk, Option.isSome_none, Bool.false_eq_true, ↓reduceIte]
    rw [ih (base ++ [(k, v)]) ?_ hnd.2]
    · simp
    · intro kv' hkv'
      rw [lookup_append_none _ _ _ (h kv' (by simp [hkv']))]
      have : kv'.1 ≠ k := fun e => hnd.1 (by rw [← e]; exact List.mem_map.2 ⟨kv', hkv', rfl⟩)
      simp [lookup, this]

theorem kContents_ne_kType : kContents ≠ kType := by decide

/-- one 1.1.0 rule through migration 2 up and down again comes back as it was -/
theorem m2_rule_roundtrip (t : List Char) (c : MDoc) (hnk : ∀ kv ∈ c, kv.1 ≠ objTag)
    (hnd : (c.map Prod.fst).Nodup)
    (hok : (startsWith "vakt.rules.".toList t = true ∧ (t == "vakt.rules.string.RegexMatchRule".toList) = false) ∨
           (startsWith "vakt.rules.".toList t = false ∧ c.any (fun kv => hasReserved kv.2) = false)) :
    (m2upRule (.tuple [.dict [(kType, .str t), (kContents, .dict c)]])).bind m2downRule =
      .ok (.tuple [.dict [(kType, .str t), (kContents, .dict c)]]) := by
  have hup : dictUpdate [(objTag, PyVal.str t)] c = (objTag, PyVal.str t) :: c := by
    rw [dictUpdate_fresh c [(objTag, PyVal.str t)] ?_ hnd]
    · rfl
    · intro kv hkv
      have := hnk kv hkv
      simp only [lookup, this, ↓reduceIte]
  have hfilter : ((objTag, PyVal.str t) :: c).filter (fun kv => kv.1 != objTag) = c := by
    simp only [List.filter_cons, bne_self_eq_false, Bool.false_eq_true, ↓reduceIte]
    rw [List.filter_eq_self]
    intro kv hkv
    simpa using hnk kv hkv
  have htype : lookup kType [(kType, PyVal.str t), (kContents, PyVal.dict c)] = some (.str t) := by
    simp only [lookup, ↓reduceIte]
  have hcont : lookup kContents [(kType, PyVal.str t), (kContents, PyVal.dict c)] = some (.dict c) := by
    simp only [lookup, kContents_ne_kType, ↓reduceIte]
  have hl : lookup objTag ((objTag, PyVal.str t) :: c) = some (.str t) := by simp only [lookup, ↓reduceIte]
  simp only [m2upRule, htype, hcont, hup, Except.bind, m2downRule, hl, hfilter]
  rcases hok with ⟨h1, h2⟩ | ⟨h1, h2⟩
  · simp only [h1, Bool.not_true, Bool.false_eq_true, ↓reduceIte, h2]
  · simp only [h1, Bool.not_false, ↓reduceIte, h2, Bool.false_eq_true]

/-- the behavioural probes of /repo that feed the generated tables this property rests on could all be run
(a probe that fails leaves its table empty and is named in `Generated.probeFailures`) -/
theorem probes_ok : ¬ ("mongo" ∈ Generated.probeFailures) ∧ ¬ ("mongoMigration3" ∈ Generated.probeFailures) := by decide

end Vakt.C19
