import Model.CachedGuard
import Proofs.Cache
import Proofs.Residency
/-!
# C11 — the cached guard answers exactly like an uncached one
-/
namespace Vakt.C11
open Vakt.Store Vakt.CachedGuard

variable {κ σ : Type}

/-- every held decision is the decision the uncached guard would give now -/
def Valid (answer : St → κ → Bool) (mem : σ → κ → Bool → Prop) (g : CG σ) : Prop :=
  ∀ k v, mem g.cache k v → v = answer g.store k

theorem raised_unchanged (cfg : Cfg) (s : St) (o : Op) (hr : raised (Store.step cfg s o).2 = true) :
    (Store.step cfg s o).1 = s := by
  cases o with
  | add u p ok => cases ok <;> cases hlk : lookup u s <;> simp_all [Store.step, raised]
  | update u p ok =>
    cases ok <;> cases hlk : lookup u s <;> cases he : cfg.eagerConvert <;> simp_all [Store.step, raised]
  | delete u => simp [Store.step, raised] at hr
  | get u => rfl
  | getAll l o => simp only [Store.step]; split <;> rfl
  | retrieveAll b => simp only [Store.step]; split <;> rfl
  | fault => rfl

/-- one step keeps the cache valid, and an ask is answered as the uncached guard would answer it now -/
theorem step_valid (cfg : Cfg) (answer : St → κ → Bool) (b : Backend κ σ) (mem : σ → κ → Bool → Prop)
    (hl : b.Lawful mem) (g : CG σ) (op : COp κ) (hv : Valid answer mem g) :
    Valid answer mem (step cfg answer b g op).1 ∧
    (∀ k, op = .ask k → (step cfg answer b g op).2 = some (answer g.store k)) := by
  cases op with
  | mutate o =>
    refine ⟨?_, fun k h => by cases h⟩
    simp only [CachedGuard.step]
    split
    · rename_i hr
      intro k v hm
      simp only at hm ⊢
      rw [raised_unchanged cfg g.store o hr]; exact hv k v hm
    · intro k v hm
      exact absurd hm (hl.mem_clear _ k v)
  | read => exact ⟨hv, fun k h => by cases h⟩
  | ask k0 =>
    simp only [CachedGuard.step]
    cases hlk : b.lookup g.cache k0 with
    | some r =>
      obtain ⟨v, c'⟩ := r
      simp only
      have hmem := hl.hit_mem _ _ _ _ hlk
      refine ⟨fun k v' hm => hv k v' (hl.hit_sub _ _ _ _ _ _ hlk hm), fun k h => ?_⟩
      cases h
      rw [hv k0 v hmem]
    | none =>
      simp only
      refine ⟨fun k v' hm => ?_, fun k h => by cases h; rfl⟩
      rcases hl.mem_put _ _ _ _ _ hm with ⟨rfl, rfl⟩ | h
      · rfl
      · exact hv k v' h

theorem step_store (cfg : Cfg) (answer : St → κ → Bool) (b : Backend κ σ) (g : CG σ) (op : COp κ) :
    (step cfg answer b g op).1.store = (match op with
      | .mutate o => (Store.step cfg g.store o).1
      | _ => g.store) := by
  cases op with
  | mutate o => simp only [CachedGuard.step]; split <;> rfl
  | read => rfl
  | ask k => simp only [CachedGuard.step]; split <;> rfl

/-- **the cached guard gives exactly the uncached guard's answers** over every history of
mutations, reads and asks, for every lawful cache back-end (hence every capacity) -/
theorem any_backend_transparent (cfg : Cfg) (answer : St → κ → Bool) (b : Backend κ σ)
    (mem : σ → κ → Bool → Prop) (hl : b.Lawful mem) (ops : List (COp κ)) :
    ∀ g : CG σ, Valid answer mem g →
      (run cfg answer b g ops).2 = (runPlain cfg answer g.store ops).2 ∧
      (run cfg answer b g ops).1.store = (runPlain cfg answer g.store ops).1 := by
  induction ops with
  | nil => intro g _; exact ⟨rfl, rfl⟩
  | cons op rest ih =>
    intro g hv
    have hs := step_valid cfg answer b mem hl g op hv
    have hst := step_store cfg answer b g op
    have := ih _ hs.1
    cases op with
    | mutate o =>
      simp only [CachedGuard.run, runPlain]
      simp only at hst
      rw [hst] at this
      have hnone : (step cfg answer b g (.mutate o)).2 = none := by simp only [CachedGuard.step]; split <;> rfl
      exact ⟨by rw [hnone, this.1], this.2⟩
    | read =>
      simp only [CachedGuard.run, runPlain]
      simp only at hst
      rw [hst] at this
      exact ⟨by rw [this.1]; rfl, this.2⟩
    | ask k =>
      simp only [CachedGuard.run, runPlain]
      simp only at hst
      rw [hst] at this
      exact ⟨by rw [hs.2 k rfl, this.1], this.2⟩

/-! ### The default LRU back-end is lawful for every capacity -/

def lruMem [DecidableEq κ] (c : Lru κ Bool) (k : κ) (v : Bool) : Prop := (k, v) ∈ c.entries

theorem lru_lawful [DecidableEq κ] (cap : Option Nat) : (lruBackend (κ := κ) cap).Lawful lruMem where
  mem_init := by intro k v h; simp [lruBackend, lruMem, Lru.empty] at h
  mem_clear := by intro s k v h; simp [lruBackend, lruMem, Lru.clear] at h
  mem_put := by
    intro s k v k' v' h
    simp only [lruBackend, lruMem] at h ⊢
    split at h
    · exact Or.inr h
    · have := Lru.mem_trim h
      rcases List.mem_cons.1 this with e | e
      · cases e; exact Or.inl ⟨rfl, rfl⟩
      · exact Or.inr e
  hit_mem := by
    intro s k v s' h
    simp only [lruBackend, lruMem] at h ⊢
    split at h
    · cases h
    · split at h
      · rename_i v0 hf
        simp only [Option.some.injEq, Prod.mk.injEq] at h
        obtain ⟨rfl, _⟩ := h
        exact Lru.find_mem hf
      · cases h
  hit_sub := by
    intro s k v s' k' v' h hm
    simp only [lruBackend, lruMem] at h hm ⊢
    split at h
    · cases h
    · split at h
      · rename_i v0 hf
        simp only [Option.some.injEq, Prod.mk.injEq] at h
        obtain ⟨rfl, rfl⟩ := h
        simp only at hm
        rcases List.mem_cons.1 hm with e | e
        · cases e; exact Lru.find_mem hf
        · exact Lru.mem_remove e
      · cases h

/-- … so: for every capacity (None, 0, 1, 2, 256, …), capacities smaller than the number of
distinct inquiries included, the default cached guard is transparent -/
theorem cached_transparent [DecidableEq κ] (cfg : Cfg) (answer : St → κ → Bool) (cap : Option Nat)
    (s : St) (ops : List (COp κ)) :
    (run cfg answer (lruBackend cap) (initial (lruBackend cap) s) ops).2 = (runPlain cfg answer s ops).2 := by
  have hl := lru_lawful (κ := κ) cap
  have hv : Valid answer lruMem (initial (lruBackend (κ := κ) cap) s) := by
    intro k v hm
    exact absurd hm (hl.mem_init k v)
  exact (any_backend_transparent cfg answer _ lruMem hl ops _ hv).1

/-- every mutation call that returns notifies exactly once, after it has been applied; one that
raises notifies nobody and (C08) changes nothing; reads and asks never notify -/
theorem notify_exactly_once (cfg : Cfg) (answer : St → κ → Bool) (b : Backend κ σ) (g : CG σ) (o : Op) :
    (raised (Store.step cfg g.store o).2 = false →
      (step cfg answer b g (.mutate o)).1.notifications = g.notifications + 1 ∧
      (step cfg answer b g (.mutate o)).1.store = (Store.step cfg g.store o).1) ∧
    (raised (Store.step cfg g.store o).2 = true →
      (step cfg answer b g (.mutate o)).1.notifications = g.notifications ∧
      (step cfg answer b g (.mutate o)).1.store = g.store) := by
  constructor
  · intro h; simp [CachedGuard.step, h]
  · intro h; simp only [CachedGuard.step, h, ↓reduceIte]; exact ⟨trivial, raised_unchanged cfg g.store o h⟩

theorem reads_never_notify (cfg : Cfg) (answer : St → κ → Bool) (b : Backend κ σ) (g : CG σ) (k : κ) :
    (step cfg answer b g .read).1.notifications = g.notifications ∧
    (step cfg answer b g (.ask k)).1.notifications = g.notifications := by
  refine ⟨rfl, ?_⟩
  simp only [CachedGuard.step]; split <;> rfl

theorem lru_lookup_hit [DecidableEq κ] (cap : Option Nat) (c : Lru κ Bool) (k : κ) (v : Bool)
    (hc : c.cap ≠ some 0) (hf : Lru.find k c.entries = some v) :
    (lruBackend cap).lookup c k = some (v, { c with entries := (k, v) :: Lru.remove k c.entries }) := by
  cases hcc : c.cap with
  | none => simp [lruBackend, hcc, hf]
  | some n =>
    cases n with
    | zero => exact absurd hcc hc
    | succ m => simp [lruBackend, hcc, hf]

theorem lru_lookup_miss [DecidableEq κ] (cap : Option Nat) (c : Lru κ Bool) (k : κ)
    (hf : Lru.find k c.entries = none) : (lruBackend cap).lookup c k = none := by
  cases hcc : c.cap with
  | none => simp [lruBackend, hcc, hf]
  | some n =>
    cases n with
    | zero => simp [lruBackend, hcc]
    | succ m => simp [lruBackend, hcc, hf]

theorem lru_put_find [DecidableEq κ] (cap : Option Nat) (c : Lru κ Bool) (k : κ) (v : Bool)
    (hc : c.cap ≠ some 0) :
    ((lruBackend cap).put c k v).cap = c.cap ∧ Lru.find k ((lruBackend cap).put c k v).entries = some v := by
  cases hcc : c.cap with
  | none => simp [lruBackend, hcc, Lru.trim, Lru.find]
  | some n =>
    cases n with
    | zero => exact absurd hcc hc
    | succ m => simp [lruBackend, hcc, Lru.trim, Lru.find]

/-- a run of asks with no mutation in between -/
def asks (cfg : Cfg) (answer : St → κ → Bool) (b : Backend κ σ) (g : CG σ) (ks : List κ) : CG σ :=
  ks.foldl (fun g k' => (CachedGuard.step cfg answer b g (.ask k')).1) g

/-- what stays true of the default back-end while only asks drawn from `D ∪ {k}` happen -/
def Held [DecidableEq κ] (cap : Option Nat) (k : κ) (D : List κ) (g : CG (Lru κ Bool)) : Prop :=
  g.cache.cap = cap ∧ Lru.Front k D g.cache.entries

theorem held_after_ask [DecidableEq κ] (cfg : Cfg) (answer : St → κ → Bool) (cap0 : Option Nat)
    (g : CG (Lru κ Bool)) (hc : g.cache.cap ≠ some 0) (k : κ) (D : List κ) :
    Held g.cache.cap k D (CachedGuard.step cfg answer (lruBackend cap0) g (.ask k)).1 := by
  cases hf : Lru.find k g.cache.entries with
  | some v =>
    have h1 := lru_lookup_hit cap0 g.cache k v hc hf
    simp only [CachedGuard.step, h1]
    exact ⟨rfl, Lru.front_touch_self⟩
  | none =>
    have h1 := lru_lookup_miss cap0 g.cache k hf
    simp only [CachedGuard.step, h1]
    cases hcc : g.cache.cap with
    | none =>
      refine ⟨by simp [lruBackend, hcc], ?_⟩
      simp only [lruBackend, hcc, Lru.trim]
      exact ⟨[], _, _, rfl, by simp [Lru.keys], by simp [Lru.keys], by simp [Lru.keys]⟩
    | some n =>
      cases n with
      | zero => exact absurd hcc hc
      | succ m =>
        refine ⟨by simp [lruBackend, hcc], ?_⟩
        simp only [lruBackend, hcc, Lru.trim, List.take_succ_cons]
        exact ⟨[], _, _, rfl, by simp [Lru.keys], by simp [Lru.keys], by simp [Lru.keys]⟩

theorem held_step [DecidableEq κ] (cfg : Cfg) (answer : St → κ → Bool) (cap0 cap : Option Nat)
    (g : CG (Lru κ Bool)) (hc : cap ≠ some 0) (k k' : κ) (D : List κ) (hroom : Lru.Room cap D.length)
    (hk' : k' ≠ k → k' ∈ D) (h : Held cap k D g) :
    Held cap k D (CachedGuard.step cfg answer (lruBackend cap0) g (.ask k')).1 := by
  obtain ⟨hcap, hfront⟩ := h
  have hc' : g.cache.cap ≠ some 0 := by rw [hcap]; exact hc
  by_cases he : k' = k
  · subst he
    obtain ⟨v, hf⟩ := hfront.find
    have h1 := lru_lookup_hit cap0 g.cache k' v hc' hf
    simp only [CachedGuard.step, h1]
    exact ⟨hcap, Lru.front_touch_self⟩
  · cases hf : Lru.find k' g.cache.entries with
    | some v' =>
      have h1 := lru_lookup_hit cap0 g.cache k' v' hc' hf
      simp only [CachedGuard.step, h1]
      exact ⟨hcap, Lru.front_hit_other hfront he (hk' he)⟩
    | none =>
      have h1 := lru_lookup_miss cap0 g.cache k' hf
      simp only [CachedGuard.step, h1]
      have hput : (lruBackend cap0).put g.cache k' (answer g.store k') =
          { g.cache with entries := Lru.trim g.cache.cap ((k', answer g.store k') :: g.cache.entries) } := by
        cases hcc : g.cache.cap with
        | none => simp [lruBackend, hcc]
        | some n =>
          cases n with
          | zero => exact absurd hcc hc'
          | succ m => simp [lruBackend, hcc]
      rw [hput]
      refine ⟨hcap, ?_⟩
      simp only
      rw [hcap]
      exact Lru.front_miss_other hfront he (hk' he) hf hroom

theorem held_asks [DecidableEq κ] (cfg : Cfg) (answer : St → κ → Bool) (cap0 cap : Option Nat)
    (hc : cap ≠ some 0) (k : κ) (D : List κ) (hroom : Lru.Room cap D.length) (ks : List κ)
    (hD : ∀ x ∈ ks, x ≠ k → x ∈ D) :
    ∀ g : CG (Lru κ Bool), Held cap k D g → Held cap k D (asks cfg answer (lruBackend cap0) g ks) := by
  induction ks with
  | nil => intro g h; exact h
  | cons k' rest ih =>
    intro g h
    simp only [asks, List.foldl_cons]
    exact ih (fun x hx => hD x (List.mem_cons_of_mem _ hx)) _
      (held_step cfg answer cap0 cap g hc k k' D hroom (hD k' (List.mem_cons_self ..)) h)

/-- **within capacity**: between mutations, an inquiry asked again after any run of other asks
that are drawn from a set `D` of fewer inquiries than the capacity (any run at all for an
unbounded cache) is answered without consulting the storage again -/
theorem within_capacity_hit [DecidableEq κ] (cfg : Cfg) (answer : St → κ → Bool) (cap0 : Option Nat)
    (g : CG (Lru κ Bool)) (hc : g.cache.cap ≠ some 0) (k : κ) (ks D : List κ)
    (hD : ∀ x ∈ ks, x ≠ k → x ∈ D) (hroom : Lru.Room g.cache.cap D.length) :
    (CachedGuard.step cfg answer (lruBackend cap0)
        (asks cfg answer (lruBackend cap0) (CachedGuard.step cfg answer (lruBackend cap0) g (.ask k)).1 ks)
        (.ask k)).1.storageAsks =
      (asks cfg answer (lruBackend cap0) (CachedGuard.step cfg answer (lruBackend cap0) g (.ask k)).1 ks).storageAsks := by
  have h0 := held_after_ask cfg answer cap0 g hc k D
  have h1 := held_asks cfg answer cap0 g.cache.cap hc k D hroom ks hD _ h0
  obtain ⟨hcap, hfront⟩ := h1
  generalize asks cfg answer (lruBackend cap0) (CachedGuard.step cfg answer (lruBackend cap0) g (.ask k)).1 ks = g2
    at hcap hfront ⊢
  obtain ⟨v, hf⟩ := hfront.find
  have hl := lru_lookup_hit cap0 g2.cache k v (by rw [hcap]; exact hc) hf
  simp only [CachedGuard.step, hl]

/-- in particular an immediately repeated inquiry never reaches the storage, for every capacity other than 0 -/
theorem immediate_repeat_hit [DecidableEq κ] (cfg : Cfg) (answer : St → κ → Bool) (cap : Option Nat)
    (g : CG (Lru κ Bool)) (hc : g.cache.cap ≠ some 0) (k : κ) :
    (CachedGuard.step cfg answer (lruBackend cap)
        (CachedGuard.step cfg answer (lruBackend cap) g (.ask k)).1 (.ask k)).1.storageAsks =
      (CachedGuard.step cfg answer (lruBackend cap) g (.ask k)).1.storageAsks := by
  have hroom : Lru.Room g.cache.cap ([] : List κ).length := by
    cases hcc : g.cache.cap with
    | none => trivial
    | some n =>
      cases n with
      | zero => exact absurd hcc hc
      | succ m => simp [Lru.Room]
  exact within_capacity_hit cfg answer cap g hc k [] [] (by simp) hroom

/-- the premises are satisfiable: capacity 2, one other inquiry asked three times in between -/
example : (∀ x ∈ [8, 8, 7, 8], x ≠ 7 → x ∈ [8]) ∧ Lru.Room (some 2) [8].length := by
  refine ⟨by simp, by simp [Lru.Room]⟩

/-- the bound is tight: with capacity 1, one other inquiry in between evicts -/
example : (CachedGuard.step (κ := Nat) ⟨false, false⟩ (fun _ _ => true) (lruBackend (some 1))
      (asks ⟨false, false⟩ (fun _ _ => true) (lruBackend (some 1))
        (CachedGuard.step ⟨false, false⟩ (fun _ _ => true) (lruBackend (some 1))
          (initial (lruBackend (some 1)) []) (.ask 7)).1 [8]) (.ask 7)).1.storageAsks = 3 := by
  decide

/-- the decision log of `is_allowed` is written outside the cached function: one record per
call, hit or miss (C17) -/
theorem cached_logs_once (cfg : Cfg) (answer : St → κ → Bool) (b : Backend κ σ) (g : CG σ) (k : κ) :
    ∃ v, (step cfg answer b g (.ask k)).2 = some v := by
  simp only [CachedGuard.step]; split <;> exact ⟨_, rfl⟩

end Vakt.C11
