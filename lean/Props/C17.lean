import Model.Audit
import Proofs.Guard
/-!
# C17 — audit and decision logs tell the truth about each decision
-/
namespace Vakt.C17
open Vakt PyVal

theorem decideFiltered_audit (fl : List Policy) :
    (decideFiltered fl).2.allow = (decideFiltered fl).1 ∧ (decideFiltered fl).2.candidates = fl := by
  unfold decideFiltered
  split
  · exact ⟨rfl, rfl⟩
  · split <;> exact ⟨rfl, rfl⟩

/-- the audit record's effect equals the returned answer -/
theorem audit_effect_eq_answer (m : Policy → R) (ans : StoreAns) (b : Bool) (a : AuditRec)
    (h : decideAns m ans = .ok (b, a)) : a.allow = b := by
  have core : ∀ xs, decideCore m xs = .ok (b, a) → a.allow = b := by
    intro xs hc
    unfold decideCore at hc
    cases hf : filterM m xs with
    | error e => simp [hf] at hc
    | ok fl =>
      simp only [hf, Except.ok.injEq] at hc
      have := (decideFiltered_audit fl).1
      rw [hc] at this; exact this
  cases ans with
  | raises => simp [decideAns] at h
  | nothing => simp [decideAns] at h; obtain ⟨rfl, rfl⟩ := h; rfl
  | items xs fa =>
    cases fa with
    | none => exact core xs h
    | some n =>
      simp only [decideAns] at h
      split at h
      · cases hf : filterM m (xs.take n) <;> simp [hf] at h
      · exact core xs h

/-- the candidates are exactly the policies that matched, in storage order -/
theorem audit_candidates_eq_matching (m : Policy → R) (xs : List Policy) (b : Bool) (a : AuditRec)
    (hr : NoRaise m xs) (h : decideCore m xs = .ok (b, a)) :
    a.candidates = xs.filter (fun p => isOkTrue (m p)) := by
  unfold decideCore at h
  rw [filterM_ok m xs hr] at h
  simp only [Except.ok.injEq] at h
  have := (decideFiltered_audit (xs.filter fun p => isOkTrue (m p))).2
  rw [h] at this; exact this

/-- deciders: all candidates when allowed, a single non-allow candidate when vetoed, none when
nothing matched -/
theorem audit_deciders (fl : List Policy) :
    ((decideFiltered fl).1 = true → (decideFiltered fl).2.deciders = fl ∧ fl ≠ []) ∧
    (fl = [] → (decideFiltered fl).2.deciders = [] ∧ (decideFiltered fl).1 = false) ∧
    ((decideFiltered fl).1 = false → fl ≠ [] →
      ∃ p, (decideFiltered fl).2.deciders = [p] ∧ p ∈ fl ∧ p.allowAccess = false) := by
  unfold decideFiltered
  cases fl with
  | nil => simp
  | cons x rest =>
    simp only [List.isEmpty_cons, Bool.false_eq_true, ↓reduceIte, ne_eq, reduceCtorEq, not_false_eq_true,
      and_true, false_implies, true_and, forall_const]
    cases hf : (x :: rest).find? (fun p => !p.allowAccess) with
    | some p =>
      simp only [Bool.false_eq_true, false_implies, true_and, forall_const]
      refine ⟨p, rfl, List.mem_of_find?_eq_some hf, ?_⟩
      have := List.find?_some hf
      simpa using this
    | none => simp

/-- a decision that completes evaluation emits exactly one audit record … -/
theorem exactly_one_audit_when_completed (m : Policy → R) (xs : List Policy) (fa : Option Nat)
    (r : Bool × AuditRec) (h : decideAns m (.items xs fa) = .ok r) :
    (auditOf m (.items xs fa)).length = 1 := by
  simp [auditOf, h]

/-- … and one that raised emits none -/
theorem no_audit_when_raised (m : Policy → R) (ans : StoreAns) (e : PyErr)
    (h : decideAns m ans = .error e) : auditOf m ans = [] := by
  cases ans <;> simp_all [auditOf]

/-- every call emits exactly one decision-log record, and it agrees with the answer -/
theorem decision_log_once_and_agrees (m : Policy → R) (ans : StoreAns) :
    (isAllowedLogged m ans).2.1 = [⟨(isAllowedLogged m ans).1⟩] := rfl

/-- rendering: by count, or not at all -/
theorem render_count_nop (ps : List Policy) :
    renderMsg .count ps = "count = ".toList ++ natDigits ps.length ∧ renderMsg .nop ps = [] := ⟨rfl, rfl⟩

/-- rendering by uid / by description names exactly the given policies, in order -/
theorem render_uid_desc (ps : List Policy) :
    renderMsg .uid ps = "[".toList ++ intercalate ", ".toList (ps.map fun p => strOf p.uid) ++ "]".toList ∧
    renderMsg .desc ps = "[".toList ++ intercalate ", ".toList
      (ps.map fun p => "'".toList ++ strOf p.description ++ "'".toList) ++ "]".toList := ⟨rfl, rfl⟩

end Vakt.C17
